#!/bin/bash
# usage: tools/verify_seed.sh <dir with SEEDED_PATCH.diff and cao-lang/tests/seeded_demo.rs> <prop>
# Confirms in a scratch worktree of /repo HEAD: the patch applies, the suite passes with it, the
# demo fails with it and passes without it; then runs ./check <prop> against the patched checkout.
set -u
SRC=$1; PROP=$2
WT=/tmp/seedcheck/$PROP
export CARGO_NET_OFFLINE=true CARGO_TARGET_DIR=/tmp/seedcheck/target${VERIF_ALT_TAG:-}
rm -rf "$WT"; git -C /repo worktree prune; git -C /repo worktree add -q --detach "$WT" HEAD || exit 2
cd "$WT"
git apply "$SRC/SEEDED_PATCH.diff" || { echo "PATCH DOES NOT APPLY"; exit 3; }
cp "$SRC/cao-lang/tests/seeded_demo.rs" cao-lang/tests/seeded_demo.rs
echo "== suite with the change (demo excluded)"
cargo test --workspace --offline --no-fail-fast 2>&1 | grep -E "^test result|Running|FAILED" | grep -v "^test result: ok. 0 passed" | sed 's/^/   /' | head -30
echo "== demo with the change"
cargo test -p cao-lang --offline --test seeded_demo 2>&1 | grep -E "^test result" | sed 's/^/   /'
git apply -R "$SRC/SEEDED_PATCH.diff"
echo "== demo without the change"
cargo test -p cao-lang --offline --test seeded_demo 2>&1 | grep -E "^test result" | sed 's/^/   /'
git apply "$SRC/SEEDED_PATCH.diff"
rm cao-lang/tests/seeded_demo.rs
echo "== ./check $PROP against the patched checkout"
cd /verif && VERIF_REPO="$WT" VERIF_ALT_TAG="${VERIF_ALT_TAG:-}" ./check "$PROP" --tier quick 2>&1 | cut -c1-300 | tail -8
echo "exit=$?"
