#!/usr/bin/env python3
"""Development aid for C01: shrink a module (serde JSON of cao_lang::compiler::Module) while a
predicate keeps holding.

  c01_reduce.py <module.json> <out.json> segv        the harness crashes (signal) on the module
  c01_reduce.py <module.json> <out.json> code2       C01Check.check1 reports code 2 (disagreement)
  c01_reduce.py <module.json> <out.json> code3       ... code 3

Reduction steps: drop a card from any card list, replace a card by one of its child cards,
replace an operand by the literal 0, drop a function / submodule / import.
"""
import copy, json, os, subprocess, sys, tempfile

ROOT = os.path.dirname(os.path.dirname(os.path.abspath(__file__)))
HARNESS = os.path.join(ROOT, "harness", "target", "debug", "cao-verif-harness")
THEORIES = os.path.join(ROOT, "coq", "theories")
import threading
from concurrent.futures import ThreadPoolExecutor
_tl = threading.local()


def tmpdir():
    if not hasattr(_tl, "d"):
        _tl.d = tempfile.mkdtemp(prefix="c01red")
    return _tl.d


def run_case(m):
    p = os.path.join(tmpdir(), "m.json")
    json.dump(m, open(p, "w"))
    r = subprocess.run([HARNESS, "c01-case", p], stdout=subprocess.PIPE, stderr=subprocess.PIPE, text=True, timeout=60)
    return r.returncode, r.stdout


def pred_segv(m):
    rc, _ = run_case(m)
    return rc < 0 or rc >= 128


def pred_code(code):
    def f(m):
        rc, out = run_case(m)
        if rc != 0:
            return False
        v = os.path.join(tmpdir(), "c.v")
        open(v, "w").write(out)
        r = subprocess.run(["coqc", "-noglob", "-Q", THEORIES, "Cao", "c.v"], cwd=tmpdir(), stdout=subprocess.PIPE,
                           stderr=subprocess.STDOUT, text=True, timeout=300)
        flat = " ".join(r.stdout.split())
        return ("(1%%N, %d%%N)" % code) in flat
    return f


LIT0 = {"ScalarInt": 0}


def card_lists(node, acc):
    """collect (container, key) of every list of cards and every single card slot"""
    if isinstance(node, dict):
        for k, v in node.items():
            card_lists(v, acc)
            if isinstance(v, list):
                acc.append((node, k))
    elif isinstance(node, list):
        for v in node:
            card_lists(v, acc)


def subcards(card):
    """immediate child cards of a card (serde externally tagged enum)"""
    out = []

    def walk(n):
        if isinstance(n, dict):
            if looks_like_card(n):
                out.append(n)
                return
            for v in n.values():
                walk(v)
        elif isinstance(n, list):
            for v in n:
                walk(v)
    if isinstance(card, dict):
        for v in card.values():
            walk(v)
    return out


KINDS = {"Add", "Sub", "Mul", "Div", "Less", "LessOrEq", "Equals", "NotEquals", "And", "Or", "Xor", "Not", "Return",
         "ScalarNil", "CreateTable", "Abort", "Len", "SetProperty", "GetProperty", "ScalarInt", "ScalarFloat",
         "StringLiteral", "CallNative", "IfTrue", "IfFalse", "IfElse", "Call", "Function", "NativeFunction",
         "SetGlobalVar", "SetVar", "ReadVar", "Repeat", "While", "ForEach", "CompositeCard", "DynamicCall", "Get",
         "AppendTable", "PopTable", "Array", "Closure", "Comment"}


def looks_like_card(n):
    if isinstance(n, str):
        return n in KINDS
    return isinstance(n, dict) and len(n) == 1 and next(iter(n)) in KINDS


def all_slots(node, acc, parent=None, key=None):
    """every (parent, key) whose value is a card"""
    if looks_like_card(node) and parent is not None:
        acc.append((parent, key))
    if isinstance(node, dict):
        for k, v in node.items():
            all_slots(v, acc, node, k)
    elif isinstance(node, list):
        for i, v in enumerate(node):
            all_slots(v, acc, node, i)


def size(m):
    return len(json.dumps(m))


def candidates(m):
    """yield reduced copies, biggest cuts first"""
    # drop functions / submodules / imports
    def modules(mod, path):
        yield mod, path
        for i, (n, sm) in enumerate(mod["submodules"]):
            yield from modules(sm, path + [("submodules", i)])
    def at(root, path):
        cur = root
        for k, i in path:
            cur = cur[k][i][1]
        return cur
    for mod, path in list(modules(m, [])):
        for i in range(len(mod["submodules"])):
            c = copy.deepcopy(m); del at(c, path)["submodules"][i]; yield c
        for i, (n, f) in enumerate(mod["functions"]):
            if n != "main" or path:
                c = copy.deepcopy(m); del at(c, path)["functions"][i]; yield c
        for i in range(len(mod["imports"])):
            c = copy.deepcopy(m); del at(c, path)["imports"][i]; yield c
    # drop cards from lists (by position in a canonical traversal)
    slots = []
    all_slots(m, slots)
    n = len(slots)
    for idx in range(n):
        c = copy.deepcopy(m)
        s2 = []
        all_slots(c, s2)
        parent, key = s2[idx]
        if isinstance(parent, list):
            del parent[key]
            yield c
    for idx in range(n):
        c = copy.deepcopy(m)
        s2 = []
        all_slots(c, s2)
        parent, key = s2[idx]
        card = parent[key]
        for sub in subcards(card):
            c2 = copy.deepcopy(m)
            s3 = []
            all_slots(c2, s3)
            p3, k3 = s3[idx]
            p3[k3] = copy.deepcopy(sub)
            yield c2
        if card != LIT0 and not isinstance(parent, list):
            c2 = copy.deepcopy(m)
            s3 = []
            all_slots(c2, s3)
            p3, k3 = s3[idx]
            p3[k3] = LIT0
            yield c2


def strip_ids(n):
    if isinstance(n, dict):
        n.pop("id", None)
        for v in n.values():
            strip_ids(v)
    elif isinstance(n, list):
        for v in n:
            strip_ids(v)


def main():
    src, dst, mode = sys.argv[1:4]
    pred = pred_segv if mode == "segv" else pred_code(int(mode[4:]))
    m = json.load(open(src))
    assert pred(m), "the predicate does not hold on the input"
    def safe(c):
        try:
            return pred(c)
        except Exception:
            return False
    par = int(os.environ.get("C01_RED_PAR", "10"))
    pos, since_success = 0, 0
    with ThreadPoolExecutor(max_workers=par) as ex:
        while True:
            cands = [c for c in candidates(m) if size(c) < size(m)]
            if not cands or since_success >= len(cands):
                break
            pos %= len(cands)
            batch = [cands[(pos + i) % len(cands)] for i in range(min(par, len(cands)))]
            res = list(ex.map(safe, batch))
            good = [c for c, ok in zip(batch, res) if ok]
            if good:
                m = min(good, key=size)
                json.dump(m, open(dst, "w"), indent=1)
                print("size", size(m), file=sys.stderr, flush=True)
                since_success = 0
            else:
                pos += len(batch)
                since_success += len(batch)
    json.dump(m, open(dst, "w"), indent=1)
    print("done, size", size(m), file=sys.stderr)


if __name__ == "__main__":
    main()
