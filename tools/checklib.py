"""Shared driver of the per-property checks (see DESIGN.md section 2.3 for the verdict protocol)."""
import fcntl, glob, json, os, re, subprocess, sys, time
from concurrent.futures import ThreadPoolExecutor

ROOT = os.path.dirname(os.path.dirname(os.path.abspath(__file__)))
COQ = os.path.join(ROOT, "coq")
HARNESS = os.path.join(ROOT, "harness")
WORK = os.path.join(ROOT, "work")
REPLAYS = os.path.join(ROOT, "replays")
# VERIF_REPO (development aid only): run the checks against another checkout of the repository
# without touching /repo; registered commands never set it.
REPO = os.environ.get("VERIF_REPO", "/repo")
ALT = REPO != "/repo"
ENV = dict(os.environ, CARGO_NET_OFFLINE="true")
ALT_TAG = os.environ.get("VERIF_ALT_TAG", "") if ALT else ""   # several alternative checkouts side by side
if ALT:
    WORK = os.path.join(ROOT, "work-alt" + ALT_TAG)
    REPLAYS = os.path.join(ROOT, "replays-alt" + ALT_TAG)
    ENV["CARGO_TARGET_DIR"] = os.path.join(HARNESS, "target-alt" + ALT_TAG)

sys.path.insert(0, os.path.dirname(os.path.abspath(__file__)))
from props import PROPS  # noqa: E402

HYGIENE = re.compile(
    r"\b(Admitted|admit|Axiom|Axioms|Parameter|Parameters|Conjecture|Hypothesis|Variable|Hypotheses|Variables)\b"
    r"|Unset\s+Guard|bypass_check|type-in-type|impredicative-set|Unset\s+Universe|Unset\s+Positivity|Admit\s+Obligations")


def log(*a):
    print(*a, file=sys.stderr, flush=True)


def run(cmd, cwd=None, timeout=3600, env=None):
    p = subprocess.run(cmd, cwd=cwd, timeout=timeout, env=env or ENV, stdout=subprocess.PIPE,
                       stderr=subprocess.STDOUT, text=True)
    return p.returncode, p.stdout


class Lock:
    def __init__(self, name):
        # coq/ is shared between runs against /repo and runs against another checkout (VERIF_REPO)
        d = os.path.join(ROOT, "work") if name.startswith("coq") else WORK
        os.makedirs(d, exist_ok=True)
        self.path = os.path.join(d, name)

    def __enter__(self):
        self.f = open(self.path, "w")
        fcntl.flock(self.f, fcntl.LOCK_EX)

    def __exit__(self, *a):
        fcntl.flock(self.f, fcntl.LOCK_UN)
        self.f.close()


# ---------------------------------------------------------------- Coq side

def strip_comments(src):
    out, depth, i = [], 0, 0
    while i < len(src):
        if src.startswith("(*", i):
            depth += 1; i += 2
        elif src.startswith("*)", i) and depth > 0:
            depth -= 1; i += 2
        else:
            if depth == 0:
                out.append(src[i])
            i += 1
    return "".join(out)


def v_path(logical):
    """Cao.X -> theories/X.v ; CaoProps.X -> Properties/X.v"""
    for d in ("theories", "Properties"):
        p = os.path.join(COQ, d, logical + ".v")
        if os.path.exists(p):
            return p
    return None


def closure(vfile):
    """transitive closure of our own .v files required by vfile"""
    seen, todo = [], [vfile]
    while todo:
        f = todo.pop()
        if f in seen:
            continue
        seen.append(f)
        src = strip_comments(open(f).read())
        for m in re.finditer(r"From\s+(Cao|CaoProps)\s+Require\s+(?:Import|Export)?\s*([^.]*)\.", src):
            for name in m.group(2).split():
                p = v_path(name)
                if p:
                    todo.append(p)
    return seen


def regen_generated():
    """source-derived parameters: regenerate Consts.v from /repo (only rewritten on change)."""
    gen = os.path.join(ROOT, "tools", "gen_consts.py")
    if os.path.exists(gen):
        # gen_compiler.py (called by gen_consts.py) may have to build the harness once: allow for a
        # loaded machine; a time-out is reported like any other failure, never as a crash of the driver
        try:
            rc, out = run([sys.executable, gen], cwd=ROOT, timeout=3000)
        except subprocess.TimeoutExpired:
            return "tools/gen_consts.py timed out"
        if rc != 0:
            return out
    return None


def coq_build(targets):
    """full .vo build of the given targets; returns (ok, output)"""
    with Lock("coq.lock"):
        if not os.path.exists(os.path.join(COQ, "Makefile")) or \
                os.path.getmtime(os.path.join(COQ, "Makefile")) < os.path.getmtime(os.path.join(COQ, "_CoqProject")):
            run(["coq_makefile", "-f", "_CoqProject", "-o", "Makefile"], cwd=COQ)
        rc, out = run(["timeout", "3000", "make", "-j16"] + targets, cwd=COQ, timeout=3100)
        return rc == 0, out


def print_assumptions(prop_file):
    """force-recompile the Properties file and return {theorem: [axiom names]}"""
    with Lock("coq.lock"):
        vo = os.path.join(COQ, prop_file[:-2] + ".vo")
        if os.path.exists(vo):
            os.remove(vo)
        rc, out = run(["timeout", "1200", "make", prop_file[:-2] + ".vo"], cwd=COQ, timeout=1300)
    if rc != 0:
        return None, out
    src = strip_comments(open(os.path.join(COQ, prop_file)).read())
    names = re.findall(r"Print\s+Assumptions\s+([\w']+)\s*\.", src)
    blocks = re.split(r"^(?=Closed under the global context|Axioms:)", out, flags=re.M)
    blocks = [b for b in blocks if b.startswith("Closed under") or b.startswith("Axioms:")]
    res = {}
    if len(blocks) != len(names):
        return None, "Print Assumptions output does not match the theorem list:\n" + out
    for nm, b in zip(names, blocks):
        if b.startswith("Closed"):
            res[nm] = []
        else:
            body = b.split("\n", 1)[1] if "\n" in b else ""   # drop the "Axioms:" header line
            res[nm] = re.findall(r"^([A-Za-z_][\w.']*)\s*:", body, flags=re.M)
    return res, out


def coqchk(prop_file, allowed):
    """thorough tier: re-check the compiled property file and everything it depends on with the
    independent checker; returns (ok, axioms, text)"""
    mod = "CaoProps." + os.path.basename(prop_file)[:-2]
    with Lock("coq.lock"):
        rc, out = run(["timeout", "3000", "coqchk", "-o", "-silent", "-Q", "theories", "Cao",
                       "-Q", "Properties", "CaoProps", mod], cwd=COQ, timeout=3100)
    if rc != 0 or "CONTEXT SUMMARY" not in out:
        return False, [], out[-3000:]
    summ = out[out.index("CONTEXT SUMMARY"):]
    sect = {}
    cur = None
    for line in summ.split("\n"):
        m = re.match(r"\* ([^:]+):\s*(.*)", line.strip())
        if m:
            cur = m.group(1); sect[cur] = []
            if m.group(2) and m.group(2) != "<none>":
                sect[cur].append(m.group(2))
        elif cur and line.strip():
            sect[cur].append(line.strip())
    axioms = [re.split(r"\s", a)[0] for a in sect.get("Axioms", [])]
    bad = []
    for k, v in sect.items():
        if k.startswith("Axioms") or k.startswith("Theory"):
            continue
        if v:
            bad.append("%s: %s" % (k, v))
    extra = [a for a in axioms if not any(a == x or a.endswith("." + x) for x in allowed)]
    if extra:
        bad.append("axioms outside the allowlist: %s" % extra)
    return not bad, axioms, "; ".join(bad) if bad else summ


def theorem_statements(prop_file):
    src = strip_comments(open(os.path.join(COQ, prop_file)).read())
    out = []
    for m in re.finditer(r"(Theorem|Example)\s+([\w']+)\s*:(.*?)\nProof\.", src, flags=re.S):
        out.append({"kind": m.group(1), "name": m.group(2), "statement": " ".join(m.group(3).split())})
    return out


def count_obligations(files):
    n = 0
    for f in files:
        src = strip_comments(open(f).read())
        n += len(re.findall(r"\b(Qed|Defined)\s*\.", src))
    return n


def hygiene(files):
    bad = []
    for f in files:
        src = strip_comments(open(f).read())
        # section-local Variable/Hypothesis/Context are allowed: drop section bodies' declarations
        depth = 0
        for ln, line in enumerate(src.split("\n"), 1):
            if re.match(r"\s*Section\s+\w+", line):
                depth += 1
            if re.match(r"\s*End\s+\w+", line) and depth > 0:
                depth -= 1
            for m in HYGIENE.finditer(line):
                w = m.group(0)
                if w in ("Variable", "Variables", "Hypothesis", "Hypotheses") and depth > 0:
                    continue
                bad.append("%s:%d: %s" % (os.path.relpath(f, ROOT), ln, line.strip()))
    return bad


# ---------------------------------------------------------------- implementation side

def cargo_build(profile):
    with Lock("cargo.lock"):
        lock = os.path.join(HARNESS, "Cargo.lock")
        if not os.path.exists(lock):
            import shutil
            shutil.copy(os.path.join(REPO, "Cargo.lock"), lock)
        import harness_features
        cmd = ["cargo", "build", "--offline"] + (["--release"] if profile == "release" else []) + harness_features.args(REPO)
        if ALT:
            cmd += ["--config", 'paths=["%s/cao-lang"]' % REPO]
        rc, out = run(cmd, cwd=HARNESS, timeout=3000)
        return rc == 0, out


def harness_bin(profile):
    return os.path.join(HARNESS, ("target-alt" + ALT_TAG) if ALT else "target", profile, "cao-verif-harness")


def eval_shard(path):
    d = os.path.dirname(path)
    try:
        rc, out = run(["timeout", "1500", "coqc", "-noglob", "-Q", os.path.join(COQ, "theories"), "Cao",
                       os.path.basename(path)], cwd=d, timeout=1600)
    except subprocess.TimeoutExpired:
        return path, None, "timeout"
    for ext in (".vo", ".vok", ".vos", ".glob"):
        try:
            os.remove(path[:-2] + ext)
        except OSError:
            pass
    if rc != 0 or ": list (N * N)" not in " ".join(out.split()):
        return path, None, out
    flat = " ".join(out.split())
    pairs = [(int(a), int(b)) for a, b in re.findall(r"\(\s*(\d+)%N\s*,\s*(\d+)%N\s*\)", flat)]
    return path, pairs, out


def eval_cases(workdir):
    shards = sorted(glob.glob(os.path.join(workdir, "cases_*.v")))
    results, errors = [], []
    failed = []
    with ThreadPoolExecutor(max_workers=16) as ex:
        for path, pairs, out in ex.map(eval_shard, shards):
            if pairs is None:
                failed.append(path)
            else:
                results.extend(pairs)
    # a shard that could not be evaluated in the parallel pass (machine load: a killed or starved coqc) is
    # evaluated once more on its own before it counts as an error
    for path in failed:
        path, pairs, out = eval_shard(path)
        if pairs is None:
            errors.append((path, out))
        else:
            results.extend(pairs)
    return results, errors


def load_known():
    p = os.path.join(ROOT, "known_findings.json")
    if not os.path.exists(p):
        return []
    return json.load(open(p)).get("findings", [])


def case_text(workdir, cid):
    p = os.path.join(workdir, "cases.txt")
    if os.path.exists(p):
        for line in open(p):
            k, _, t = line.partition("\t")
            if k == str(cid):
                return t.rstrip("\n")
    return None


# ---------------------------------------------------------------- main

def main(argv):
    if not argv:
        log("usage: check Cxx [--tier quick|thorough] [--replay path]")
        return 2
    prop = argv[0]
    tier = os.environ.get("VERIF_TIER", "quick")
    replay = None
    i = 1
    while i < len(argv):
        if argv[i] == "--tier":
            tier = argv[i + 1]; i += 2
        elif argv[i] == "--replay":
            replay = argv[i + 1]; i += 2
        else:
            log("unknown argument", argv[i]); return 2
    if prop not in PROPS:
        log("unknown property", prop); return 2
    cfg = PROPS[prop]
    seed = int(os.environ.get("VERIF_SEED", "1"))
    only_case = None
    n_cases = cfg["n_thorough"] if tier == "thorough" else cfg["n_quick"]
    if replay:
        r = json.load(open(replay))
        seed, tier, only_case = r["seed"], r["tier"], r.get("case")
        n_cases = r.get("n", n_cases)
    t0 = time.time()
    os.makedirs(REPLAYS, exist_ok=True)
    os.makedirs(os.path.join(ROOT, ("evidence-alt" + ALT_TAG) if ALT else "evidence"), exist_ok=True)
    violations = []      # (replay dict, found_input: bool)
    known_lines = []
    notes = []

    def add_violation(kind, detail, case=None, found=True, case_seed=None):
        rp = os.path.join(REPLAYS, "%s_seed%d_%s_%d.json" % (prop, seed, tier, len(violations)))
        body = {"property": prop, "seed": seed if case_seed is None else case_seed, "tier": tier, "n": n_cases,
                "kind": kind, "detail": detail, "how_to_replay": "./check %s --replay %s" % (prop, rp)}
        if case is not None:
            body["case"] = case[0]
            body["case_term"] = case[1]
        json.dump(body, open(rp, "w"), indent=1)
        violations.append((rp, found))

    # 1. source-derived parameters
    err = regen_generated()
    if err:
        add_violation("generated-parameters", "tools/gen_consts.py failed on /repo: " + err[-2000:], found=False)

    # 2. proofs
    prop_file = cfg["prop_file"]
    files = closure(os.path.join(COQ, prop_file))
    check_mod = os.path.join(COQ, "theories", cfg["check_module"] + ".v")
    files_all = list(dict.fromkeys(files + closure(check_mod)))
    ok_model, out_model = coq_build(["theories/%s.vo" % cfg["check_module"]])
    ok_proofs, out_proofs = coq_build([prop_file[:-2] + ".vo"])
    assumptions, pa_out = ({}, "")
    broken_obligation = None
    if ok_proofs:
        assumptions, pa_out = print_assumptions(prop_file)
        if assumptions is None:
            ok_proofs = False
            out_proofs = pa_out
    if not ok_proofs:
        m = re.search(r'File "([^"]+)", line (\d+)', out_proofs or "")
        broken_obligation = "proof obligation no longer checks: %s" % (
            ("%s line %s" % (m.group(1), m.group(2))) if m else "build failed")
        notes.append(broken_obligation)
    bad = hygiene(files_all)
    if bad:
        add_violation("hygiene", "forbidden vernacular in the development: " + "; ".join(bad[:10]), found=False)
    axioms_seen = {}
    if ok_proofs:
        for thm, axs in assumptions.items():
            allowed = set(cfg["theorems"].get(thm, []))
            axioms_seen[thm] = axs
            extra = [a for a in axs if a not in allowed]
            if extra:
                add_violation("assumptions", "theorem %s depends on axioms outside its allowlist: %s" % (thm, extra), found=False)
        missing = [t for t in cfg["theorems"] if t not in assumptions]
        if missing:
            add_violation("assumptions", "property theorems missing from %s: %s" % (prop_file, missing), found=False)

    coqchk_note = None
    if ok_proofs and tier == "thorough" and not replay:
        # coqchk lists the axioms of every library in the loaded context (Coq's Reals, pulled in by
        # Flocq through Value.v / VmFloat.v), whether or not a theorem depends on them: those four are
        # allowed in the context; what each theorem depends on is decided by Print Assumptions above
        from props import REALS_AXIOMS
        allowed_all = set(a for axs in cfg["theorems"].values() for a in axs) | set(REALS_AXIOMS) | set(cfg.get("coqchk_axioms", []))
        okc, axc, txt = coqchk(prop_file, allowed_all)
        coqchk_note = "coqchk -o: %s; axioms of the loaded context: %s" % ("accepted" if okc else "REJECTED", axc or "<none>")
        notes.append(coqchk_note)
        if not okc:
            add_violation("coqchk", "the independent checker does not accept the compiled development: " + txt, found=False)

    # 3. implementation at /repo's working tree
    profiles = ["debug"] + (["release"] if tier == "thorough" and cfg.get("release", True) else [])
    meta_all, results_all, eval_errors = [], [], []
    if not ok_model:
        add_violation("model-build", "the executable model no longer compiles: " + out_model[-1500:], found=False)
    def run_pass(profile, pass_seed, wd):
        """one generation + evaluation pass; returns its meta (or None)"""
        os.makedirs(wd, exist_ok=True)
        cur_file = os.path.join(wd, "current_input.txt")
        if os.path.exists(cur_file):
            os.remove(cur_file)
        try:
            rc, outg = run([harness_bin(profile), "gen", prop, "--seed", str(pass_seed), "--n", str(n_cases),
                            "--tier", tier, "--out", wd], cwd=ROOT, timeout=cfg.get("gen_timeout", 1800),
                           env=dict(ENV, VERIF_CURRENT_FILE=cur_file))
        except subprocess.TimeoutExpired:
            rc, outg = 124, "harness generator timed out"
        if rc < 0 and os.path.exists(cur_file):
            # the harness process was killed by a signal while the implementation ran (segmentation fault, abort,
            # native stack overflow): a crash of the implementation on the input that was running
            add_violation("crash", "the implementation crashed (signal %d, %s build) while running: %s\n%s" % (
                -rc, profile, open(cur_file).read()[:4000], outg[-1500:]), case_seed=pass_seed)
            return None
        if rc == 42:
            add_violation("hang", "the implementation stopped making progress (%s build): %s" % (profile, outg[-3000:]),
                          case_seed=pass_seed)
            return None
        if rc != 0:
            add_violation("harness-run", "harness run failed (%s, rc=%s): %s" % (profile, rc, outg[-3000:]), found=False,
                          case_seed=pass_seed)
            return None
        meta = json.load(open(os.path.join(wd, "meta.json")))
        meta["profile"] = profile
        meta["seed"] = pass_seed
        meta_all.append(meta)
        if not ok_model:
            return meta
        res, errs = eval_cases(wd)
        for path, out in errs:
            eval_errors.append(path)
            add_violation("model-eval", "Coq could not evaluate %s: %s" % (path, (out or "")[-1500:]), found=False,
                          case_seed=pass_seed)
        results_all.append((profile, wd, res, pass_seed))
        return meta

    def unmet_gates():
        dist = {}
        for m in meta_all:
            for k, v in m.get("distribution", {}).items():
                dist[k] = dist.get(k, 0) + v
        return [g for g in cfg.get("gates", []) if dist.get(g, 0) == 0]

    built = []
    for profile in profiles:
        okb, outb = cargo_build(profile)
        if not okb:
            add_violation("harness-build", "harness does not build against /repo (%s): %s" % (profile, outb[-3000:]), found=False)
            continue
        built.append(profile)
        run_pass(profile, seed, os.path.join(WORK, prop, profile))
    # input classes that this seed did not reach are looked for with further seeds derived from it (a class
    # that the code can still reach is found with overwhelming probability; one that is gone stays unmet)
    extra = 0
    while built and only_case is None and not replay and meta_all and unmet_gates() and extra < 3:
        extra += 1
        notes.append("classes %s not reached with seed %d: extra pass %d" % (unmet_gates(), seed, extra))
        run_pass(built[0], seed + 1000003 * extra, os.path.join(WORK, prop, "%s-extra%d" % (built[0], extra)))

    # 4. verdict on cases
    known = [k for k in load_known() if k["property"] == prop and k["status"] == "known"]
    known_by_code = {k["code"]: k for k in known}
    known_hit = {}
    mismatch_cases, spec_cases, gen_errors = [], [], []
    for profile, wd, res, pass_seed in results_all:
        by_case = {}
        for cid, code in res:
            if only_case is not None and cid != only_case:
                continue
            by_case.setdefault(cid, []).append(code)
        for cid, codes in sorted(by_case.items()):
            if any(c in known_by_code for c in codes):
                for c in codes:
                    if c in known_by_code:
                        known_hit.setdefault(c, (profile, cid))
                continue
            if 2 in codes:
                spec_cases.append((profile, wd, cid, pass_seed))
            elif 1 in codes:
                mismatch_cases.append((profile, wd, cid, pass_seed))
            elif 3 in codes:
                gen_errors.append((profile, wd, cid, pass_seed))
            else:
                spec_cases.append((profile, wd, cid, pass_seed))   # unknown / unlisted code = unlisted violation
    for profile, wd, cid, pass_seed in spec_cases[:5]:
        add_violation("spec-oracle", "the implementation's observation violates the specification (%s build)" % profile,
                      case=(cid, case_text(wd, cid)), case_seed=pass_seed)
    if not spec_cases:
        for profile, wd, cid, pass_seed in mismatch_cases[:5]:
            add_violation("correspondence", "model and implementation differ (%s build) and the specification oracle "
                          "accepts every observation explored; correspondence relation %s.check1 no longer holds"
                          % (profile, cfg["check_module"]), case=(cid, case_text(wd, cid)), found=False, case_seed=pass_seed)
        if broken_obligation and not mismatch_cases:
            add_violation("proof", broken_obligation + "\n" + (out_proofs or "")[-2000:], found=False)
    for profile, wd, cid, pass_seed in gen_errors[:3]:
        add_violation("generator", "generated case violates the checker's precondition (harness defect)",
                      case=(cid, case_text(wd, cid)), found=False, case_seed=pass_seed)
    for code, (profile, cid) in sorted(known_hit.items()):
        known_lines.append("KNOWN-FINDING: property=%s %s (%s; e.g. case %d, %s build)" % (
            prop, known_by_code[code]["what"], known_by_code[code]["id"], cid, profile))
    for k in known:
        if k["code"] not in known_hit and not k.get("witness_only"):
            log("note: known finding %s did not occur in this run's cases" % k["id"])

    # 5. generator sanity gates (only meaningful when nothing was found)
    gate_fail = []
    if meta_all and only_case is None:
        gate_fail = unmet_gates()

    # 6. evidence
    evaluations = sum(m["evaluations"] for m in meta_all)
    nontrivial = sum(m["distinct_nontrivial"] for m in meta_all)
    obligations = count_obligations(files)
    samples = (meta_all[0]["samples"] if meta_all else []) or ["(no case generated)"]
    ev = {
        "property_id": prop, "tier": tier, "seed": seed, "level": "proof",
        "coverage": {
            "obligations": obligations,
            "discharged": obligations if ok_proofs else 0,
            "checker_cmd": "make -C coq %s.vo (coqc 8.16.1, full .vo build) ; Print Assumptions under every theorem" % prop_file[:-2],
            "trusted_base": cfg["trusted_base"] + ["Print Assumptions: " + json.dumps(axioms_seen, sort_keys=True)],
            "theorems": theorem_statements(prop_file),
            "proof_files": [os.path.relpath(f, ROOT) for f in files],
            "evaluations": evaluations,
            "distinct_nontrivial": nontrivial,
            "rule": cfg["rule"],
            "samples": samples,
            "traces_validated_against_impl": evaluations,
            "distribution": {("%s" % m["profile"] if m.get("seed") == seed else "%s seed %s" % (m["profile"], m.get("seed"))): m["distribution"] for m in meta_all},
            "model_vs_impl_mismatches": len(mismatch_cases),
            "spec_oracle_failures": len(spec_cases),
            "known_findings_seen": [known_by_code[c]["id"] for c in sorted(known_hit)],
            "gates_unmet": gate_fail,
            "notes": notes,
            "exhaustive": False,
        },
        "assumptions": cfg["assumptions"],
        "wall_s": round(time.time() - t0, 2),
        "violations": len(violations),
    }
    ev["coverage"].update(cfg.get("extra_coverage", {}))
    with open(os.path.join(ROOT, ("evidence-alt" + ALT_TAG) if ALT else "evidence", prop + ".json"), "w") as f:
        json.dump(ev, f, indent=1)

    for line in known_lines:
        print(line)
    if violations:
        for rp, found in violations:
            print("VIOLATION property=%s replay=%s%s" % (prop, rp, "" if found else " no-failing-input-found"))
        return 1
    if gate_fail:
        log("generator sanity gate: no case hit %s" % gate_fail)
        print("VIOLATION property=%s replay=%s no-failing-input-found" % (prop, _gate_replay(prop, seed, tier, gate_fail)))
        return 1
    print("OK property=%s tier=%s seed=%d cases=%d obligations=%d wall=%.1fs" % (
        prop, tier, seed, evaluations, obligations, time.time() - t0))
    return 0


def _gate_replay(prop, seed, tier, gates):
    rp = os.path.join(REPLAYS, "%s_seed%d_%s_gate.json" % (prop, seed, tier))
    json.dump({"property": prop, "seed": seed, "tier": tier, "kind": "coverage-gate",
               "detail": "the correspondence run no longer reaches the input classes %s, so the tie between model "
                         "and code is not established for them" % gates}, open(rp, "w"), indent=1)
    return rp
