"""Per-property configuration of the checks."""

COMMON_TB = [
    "Coq 8.16.1 kernel (coqc, full .vo compilation); vm_compute is used to evaluate the model on the cases; native_compute is not used",
    "no axioms declared by the development; allowlist per theorem enforced from Print Assumptions on every run",
    "hand-written Gallina model of the anchored Rust code; tied to /repo's working tree by the correspondence run (Rust harness built against /repo, observations evaluated against model and specification inside Coq)",
    "Rust harness (generator, printer of Coq terms), rustc/LLVM, the Python driver tools/checklib.py",
]

PROPS = {
    "C14": dict(
        prop_file="Properties/C14.v",
        check_module="C14Check",
        theorems={
            "C14_value_stack_refines": [],
            "C14_bounded_stack_refines": [],
            "C14_bounded_stack_conservation": [],
            "C14_legacy_pop_refuted": [],
        },
        n_quick=400, n_thorough=6000,
        gates=["vs.saw_full", "vs.pop_on_empty", "bs.saw_full", "vs.cap=1", "bs.cap=0", "vs.cap=big"],
        rule="random operation histories (10-70 ops, some 600) over ValueStack (capacities 1..32 and 256) and "
             "BoundedStack<drop-logging> (capacities 0..40); after every operation the result (and the drop log) is "
             "compared with the Coq model and with the list specification; non-trivial = history uses >= 4 (value "
             "stack) / >= 3 (bounded stack) distinct operation kinds; distinct = distinct case term",
        trusted_base=COMMON_TB + [
            "modelled, not verified: value_stack.rs (push/pop/pop_n/pop_w_offset/set/get/last/peek_last/clear/"
            "clear_until/len/iter/as_slice/top_location) and bounded_stack.rs (push/pop/last/clear/len/iter/"
            "iter_backwards/Drop)"],
        assumptions=[
            "clear_until(h) is only issued with h <= current height (the property's stated precondition)",
            "memory safety of the MaybeUninit storage is not derived from the model beyond slot states and the drop log",
        ],
    ),
    "VM": dict(
        prop_file="Properties/VM.v",
        check_module="VmCheck",
        theorems={
            "VM_run_total": [],
            "VM_run_deterministic": [],
            "VM_budget_bound": [],
            "VM_timeout_reported": [],
            "VM_budget_bound_flat": [],
            "VM_budget_monotone": [],
            "VM_timeout_reported_run": [],
            "VM_step_count_rel": [],
            "VM_budget_bound_legacy_refuted": [],
            "VM_witness_is_cut_off_now": [],
        },
        n_quick=200, n_thorough=2000,
        gates=["feature.closure", "feature.reentry", "feature.foreach", "feature.call", "feature.real",
               "outcome.ETimeout", "outcome.Panic", "outcome.ETaskFailure", "outcome.ECallStackOverflow",
               "mode.history", "budget.zero", "need.found"],
        rule="development aid (not a registered property): the crate's own compile output of a hand-written corpus and "
             "of randomly generated card programs (arithmetic, locals/globals, if/while/repeat/for-each, tables, calls, "
             "recursion, dynamic calls, closures, natives incl. re-entry through run_function) is run on the real VM "
             "with budgets {generous, need-1, need, need+1, random, 1, sometimes 0} (need = least budget without "
             "Timeout, found by bisection) on fresh VMs, or repeatedly on one VM; outcome variant with payload fields "
             "and error trace, every global by name as a canonical tree, and the host log are compared with Vm.v; "
             "non-trivial = at least one run completes or more than 3 runs; distinct = distinct case term",
        trusted_base=COMMON_TB + [
            "modelled, not verified: vm.rs, vm/instr_execution.rs, vm/runtime.rs (no GC: the harness gives the VM a "
            "1 GiB limit so that no collection runs), cao_lang_table.rs over an abstract map, value.rs, traits.rs",
            "Flocq binary64 (VmFloat.v) is used by the checker only; the theorems are generic in the float instance",
        ],
        assumptions=[
            "theorems about `run_flat` concern runs whose natives do not re-enter the interpreter (VmCheck reports code 5 "
            "if run_flat and run ever disagree on such a run); the budget bound is proved for `run` with re-entry, and "
            "refuted for the budget rule of the pinned tree (`run_legacy`, A-11)",
            "32-bit FNV collisions between unequal table keys, table keys mutated after insertion, UTF-8 validity of "
            "string data and garbage collection are outside the model",
        ],
    ),
}
