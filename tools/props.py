"""Per-property configuration of the checks."""

COMMON_TB = [
    "Coq 8.16.1 kernel (coqc, full .vo compilation); vm_compute is used to evaluate the model on the cases; native_compute is not used",
    "no axioms declared by the development; allowlist per theorem enforced from Print Assumptions on every run",
    "hand-written Gallina model of the anchored Rust code; tied to /repo's working tree by the correspondence run (Rust harness built against /repo, observations evaluated against model and specification inside Coq)",
    "Rust harness (generator, printer of Coq terms), rustc/LLVM, the Python driver tools/checklib.py",
]

REALS_AXIOMS = [
    "ClassicalDedekindReals.sig_not_dec", "ClassicalDedekindReals.sig_forall_dec",
    "FunctionalExtensionality.functional_extensionality_dep", "Classical_Prop.classic",
]

PROPS = {
    "C08": dict(
        prop_file="Properties/C08.v",
        check_module="C08Check",
        theorems={
            "C08_resolve_outcomes": [],
            "C08_resolve_agrees": [],
            "C08_resolve_sound": [],
            "C08_resolve_complete": [],
            "C08_resolve_errors": [],
            "C08_duplicate_name_rejected": [],
            "C08_std_module_rejected": [],
            "C08_no_main_rejected": [],
            "C08_bad_function_name_rejected": [],
            "C08_bad_import_rejected": [],
            "C08_import_errors": [],
            "C08_front_end_error": [],
            "C08_jump_table": [],
            "C08_compile_table_matches": [],
            "C08_ir_stream_is_tree": [],
            "C08_entry_is_position": [],
            "C08_call_resolves": [],
            "C08_every_call_resolves": [],
            "C08_resolve_error_is_unresolved_call": [],
            "C08_label_points_to_body": [],
            "C08_label_of_position": [],
            "C08_main_has_no_label": [],
            "C08_example_super_spec": [],
            "C08_example_super_compiled": [],
            "C08_example_super_label": [],
            "C08_call_target_meta": [],
            "C08_function_label_at_start": [],
            "C08_label_kept_by_card_labels": [],
            "C08_label_kept_if_distinct": [],
            "C08_super_depth_legacy_refuted": [],
            "C08_import_of_xsuper_repaired": [],
            "C08_module_import_through_super_repaired": [],
            "C08_vm_call_function": [],
            "C08_vm_return": [],
            "C08_vm_return_to_caller": [],
            "C08_vm_params_are_locals": [],
            "C08_param_binding": [],
            "C08_call_executes_designated_body": [],
            "C08_call_card_emits_pair": [],
            "C08_example_call_binding": [],
            "C08_example_call_nil": [],
            "C08_example_call_surplus": [],
            "C08_example_short_call": [],
            "C08_example_missing_argument": [],
            "C08_example_call_main_not_found": [],
            "C08_example_call_static": [],
            "C08_program_call_layout": [],
            "C08_call_pair_in_program": [],
            "C08_call_card_executes_designated_body": [],
            "C08_function_body_starts_without_locals": [],
            "C08_card_keeps_scopes": [],
            "C08_closure_body_starts_without_locals": [],
            "C08_param_binding_compiled": [],
            "C08_example_nested_call_pairs": [],
            "C08_example_nested_param_hyps": [],
            "C08_example_nested_run": [],
            "C08_example_card_keeps_scopes": [],
        },
        n_quick=320, n_thorough=3000,
        gates=["obs.ran", "obs.err.InvalidJump", "obs.err.SuperLimitReached", "obs.err.DuplicateModule", "obs.err.NoMain",
               "obs.err.AmbigousImport", "obs.err.BadImport", "name.absolute", "name.bare", "name.import_fn",
               "name.import_module", "name.import_module_super", "name.relative", "name.garbage", "site.function_value",
               "site.static_call", "caller.depth0", "caller.depth1", "caller.depth2", "import.super",
               "corner.super_only_import_fn", "corner.super_only_import_module", "corner.super_only_import_limit",
               "corner.import_target_missing", "corner.module_import_target_missing", "corner.priority_absolute",
               "corner.priority_own_module", "corner.priority_import", "corner.priority_relative_over_module_import",
               "corner.call_main", "obs.procedure_not_found"],
        rule="nine planted corner cases of the lookup order (imports made of `super` segments only - function import, module import, "
             "one `super` too many; an import whose key matches but whose target is missing, for both import rules; the priority "
             "absolute > own module > import with the same name declared in all three places, in two, in one; a relative dotted "
             "path against a module import of the same first segment), five planted calls of the entry function `main` (static Call and "
             "Function value + DynamicCall, from the root, from a submodule, from depth 2 with an import super.super.main: known "
             "finding N-C08-3, code 10 only for compile Ok + ProcedureNotFound(handle of main)), then "
             "random module trees (depth <= 3, the same six function names reused in every module, sibling / parent / child "
             "imports of functions and of modules with 0-3 `super.`, too many `super.`, a module called xsuper) with ONE call "
             "site each (static Call or Function value + DynamicCall, from a function of a random module) naming its target "
             "absolutely, barely, relatively, through a function import, through a module import, or by garbage; plus planted "
             "static faults (no main, module named std, duplicate module, malformed / ambiguous import, invalid or duplicate "
             "function name, small recursion limit). The crate compiles the tree and, on success, the real Vm runs it; every "
             "generated body stores its position in the compiler's function order, its parameters, and returns a value on even "
             "positions. Code 1: the compiler model's compile differs from the crate's output (bytecode, data, labels, variables, "
             "trace, or error + location). Code 2: ResolveSpec.spec_resolve / static_faults (tree level, independent of the model) "
             "disagree with the error variant or with which body ran, or parameters / return value / caller local are not as the "
             "convention says (last argument -> first parameter; nil without Return; callee locals invisible). "
             "non-trivial = tree with >= 2 functions; distinct = distinct case term",
        trusted_base=COMMON_TB + [
            "modelled, not verified: compiler.rs resolve_function / super_depth / add_function / compile_stage_2, compiler/module.rs "
            "(into_ir_stream, flatten_module, execute_imports, is_name_valid, ensure_invariants)",
            "the specification ResolveSpec.v is a hand-written reading of the documented lookup order; an import path is read as "
            "super* . module path . NAME (its last segment is the imported name, never a `super` step): planted corner cases "
            "(imports made of `super` segments only) confirm that the crate behaves so",
            "which body ran is observed through globals written by the generated bodies, on the real Vm (vm.rs), 100000-instruction budget"],
        assumptions=[
            "module and function names of generated trees are ASCII identifiers (module names are not validated by the compiler; "
            "a module name containing '.' makes full names ambiguous and is outside the specification): the theorems carry the "
            "decidable hypothesis module_names_dotfree",
            "C08_resolve_agrees / _sound / _complete / _errors (all four rules, priority and error cases included) have the hypothesis "
            "table_matches, which C08_compile_table_matches establishes for the jump table of every module that compiles",
            "C08_call_resolves describes the call skeleton (FunctionPointer / CallFunction instructions in program order); the other "
            "instructions of the program are the subject of C10",
            "label distinctness (32-bit keys of function and closure labels pairwise distinct) is the decidable hypothesis "
            "label_keys_distinct of the label theorems; main has no label (a static call of main compiles but fails at run time: known finding N-C08-3, C08_main_has_no_label)",
            "run-time half, proved on the VM model (Vm.v; tied to vm.rs / instr_execution.rs by the VM, C03, C18 and C08 correspondence "
            "streams): C08_vm_call_function (exact outcome of CallFunction on a function object / closure: frame {src = call, dst = next "
            "instruction, offset = height - arity, closure}, ip := labels[handle]; MissingArgument when the WHOLE stack holds fewer than "
            "arity values, CallStackOverflow, ProcedureNotFound), C08_vm_return / C08_vm_return_to_caller, C08_vm_params_are_locals, "
            "C08_param_binding (declared parameter m = local n-1-m = the (m+1)-th supplied value from the end), "
            "C08_call_executes_designated_body (an adjacent FunctionPointer; CallFunction pair of a compiled module continues at the "
            "first byte of the code of the function spec_resolve designates; non-main targets, label_keys_distinct_module)",
            "the pair in the returned program: C08_program_call_layout / C08_call_pair_in_program (the FunctionPointer; CallFunction "
            "pair of every Call card, at any nesting, of every function of the tree is adjacent in the returned instruction list and "
            "carries the handle / arity the specification designates: the code buffer only grows at the end, modulo the operands of "
            "jumps), C08_call_card_executes_designated_body (C08_call_executes_designated_body with its hypothesis discharged for Call "
            "cards); locals at the start of a body: C08_function_body_starts_without_locals (cs_locals = [[]] where each function's "
            "parameters are declared, in the run of compile_ir), C08_card_keeps_scopes, C08_closure_body_starts_without_locals, "
            "C08_param_binding_compiled (C08_param_binding without the hypotheses on the locals)",
            "not proved of the run-time half: that the callee's body keeps the caller's part of "
            "the stack intact up to its Return (frame discipline of compiled code, the same gap as C18_reentry_balanced_partial); a "
            "callee value that reaches CallFunction through other instructions than a Function card (DynamicCall of an expression)",
            "a call with fewer arguments than parameters is not an error unless the whole value stack is shorter than the arity: the "
            "callee's frame then reaches into the caller's slots (C08_example_short_call: the callee reads and the Return destroys the "
            "caller's local); the reference semantics (C01) leaves such calls unspecified; generated C08 cases always pass exactly "
            "arity arguments",
        ],
    ),
    "C10": dict(
        prop_file="Properties/C10.v",
        check_module="C10Check",
        theorems={
            "C10_decode_encode": [],
            "C10_wf_check_sound": [],
            "C10_wf_check_gen_sound": [],
            "C10_trace_complete_check_sound": [],
            "C10_span_table_vs_vm": [],
            "C10_compile_wellformed_partial": [],
            "C10_compile_wellformed_partial_strong": [],
            "C10_A23_legacy_window_refuted": [],
            "C10_A24_repaired": [],
            "C10_compile_wellformed": [],
            "C10_compile_wellformed_head": [],
            "C10_compile_trace_complete": [],
            "C10_from_u32_injective": [],
            "C10_few_globals": [],
            "C10_compile_wellformed_example": [],
            "C10_compile_wellformed_module": [],
            "C10_module_in_range_program": [],
            "C10_name_collision_hashes": [],
            "C10_name_collision_repaired": [],
            "C10_name_collision_legacy": [],
            "C10_compile_names_distinct": [],
            "C10_global_id_records_name": [],
            "C10_add_local_slot": [],
            "C10_resolve_var_in_scope": [],
            "C10_close_upvalue_slot": [],
        },
        n_quick=320, n_thorough=4000,
        gates=["obs.ok", "obs.err.ETooManyUpvalues", "obs.err.EInvalidJump", "obs.err.EDuplicateName", "obs.err.EEmptyVariable",
               "obs.err.ERecursionLimitReached", "card.closure.nested", "card.foreach", "card.repeat", "card.while",
               "card.array", "import.super", "import.module", "import.std", "main.not_first", "module.submodules",
               "str.len>252", "str.unicode", "disasm.compared", "globals.17+", "corpus.a23", "corpus.a24", "corpus.huge_upvalues",
               "corpus.globals17", "corpus.global_name_collision", "obs.err.ETooManyLocals", "obs.err.EBadImport", "obs.err.EAmbigousImport", "obs.err.ENoMain",
               "obs.err.EDuplicateModule", "obs.err.EBadFunctionName", "obs.err.ESuperLimitReached"],
        rule="random modules (all 43 card kinds, nesting depth <= 4 (6), 0-4 functions per module, submodule trees of "
             "depth <= 3 with function / module / std / super imports, closures with upvalues, globals and locals, "
             "string literals up to 1000 bytes, planted faults: bad names, bad imports, empty variables, missing main, "
             "duplicate names, too many `super.`, > 255 locals, > 255 upvalues) compiled by the crate inside catch_unwind "
             "with recursion limits 0..4 and 64; the model's compile must return the same bytecode, data, sorted labels, "
             "variables (ids, names) and sorted trace, or the same error variant + fields + location, or Panic; wf_check "
             "(proved sound) is run on the crate's output; non-trivial = module with >= 3 cards; distinct = distinct case term",
        trusted_base=COMMON_TB + [
            "modelled, not verified: compiler.rs, compiler/module.rs (into_ir_stream .. is_name_valid), function_ir.rs, "
            "instruction.rs, bytecode.rs, compiled_program.rs; stdlib.rs enters as the generated term StdlibGen.std_module "
            "(printed by the harness from cao_lang::stdlib::standard_library() on every run); the instruction table "
            "CompilerGen.gen_span_table is parsed from instruction.rs on every run and compared with Bytecode.span_table",
            "operand widths of the decoder are the VM's decode_value::<T> calls, transcribed by hand (vm.rs, vm/instr_execution.rs)",
            "labels / variables / trace are compared as key-sorted association lists; slot order of the hash tables is not modelled"],
        assumptions=[
            "function names are ASCII (is_name_valid uses the Unicode-aware char::is_alphanumeric); other cases are reported as code 3",
            "programs with more than 16 distinct globals are generated unless VERIF_C10_MANY_GLOBALS=0 (before the fix of "
            "HandleTable::entry, A-5, the 17th global made compile hang; a hang is observed through the harness watchdog, exit code 42)",
            "bytecode shorter than 2^31 bytes, fewer than 2^32 cards per function",
            "C10_compile_wellformed (every program the compiler MODEL returns satisfies wellformed_gen false = wellformed at "
            "HEAD) is proved for all modules under executable side conditions that are hypotheses of the theorem: "
            "program_in_range (literals fit i64 / 64 bits), program_utf8 (string literals, native function names and "
            "ReadVar / SetVar names are valid UTF-8), bytecode < 2^31 bytes, data section < 2^32 bytes; no hypothesis on "
            "hash collisions (Handle::from_u32 is proved injective below 2^32 - 1, the number of globals is bounded by the "
            "code size, collisions of Handle::from_str on variable NAMES do not affect the tables' validity)",
            "not proved, not part of wellformed (the bytecode does not declare the number of locals of a function): every "
            "emitted local index is below the number of locals of its function at that point, every RegisterUpvalue pair names an "
            "existing local / upvalue of the enclosing function; proved only for the operations that produce the indices "
            "(C10_add_local_slot, C10_resolve_var_in_scope, C10_close_upvalue_slot), not threaded through process_card",
        ],
    ),
    "C01": dict(
        prop_file="Properties/C01.v",
        check_module="C01Check",
        theorems={t: [] for t in ["C01_deterministic", "C01_fuel_monotone", "C01_eval_fuel_monotone",
                                  "C01_compile_correct_f1", "C01_compile_correct_f2", "C01_compile_correct_f3", "C01_compile_correct_f4", "C01_compile_correct_f5",
                                  "C01_compile_correct_f6r", "C01_compile_correct_f6_partial", "C01_compile_correct_f8", "C01_fragments_well_scoped",
                                  "C01_f9_well_scoped", "C01_f9_reference_meaning", "C01_f9_compile_shape_code", "C01_f9_compile_labels",
                                  "C01_compile_correct_f9", "C01_f9_call_keeps_caller_stack",
                                  "C01_compile_correct_f10", "C01_f10_well_scoped", "C01_f10_call_keeps_caller_stack", "C01_f10_no_return_is_nil"]},
        n_quick=240, n_thorough=3000,
        gen_timeout=3000,
        gates=["ok", "globals>16", "shadowing_loop_variable", "return_in_loop", "nested_loops", "call.fn_argument", "dyncall.variable",
               "closure.depth2", "closure.depth3", "closure.arity3", "closure.in_loop", "closure.in_submodule",
               "closure.returned", "closure.in_array", "closure.writes_captured", "closure.loop_idiom",
               "closure.siblings", "table.alias", "std.callback", "std.key_function", "native.call1",
               "value.native_function", "call.via_import", "reals", "compare.int_vs_near_real", "while", "for_each", "array",
               "corpus.R-1a", "corpus.R-1b", "corpus.R-2a", "corpus.R-2b", "corpus.R-3", "corpus.R-4", "corpus.R-5"],
        rule="the seven witness programs of findings/C01 (repaired findings R-1..R-5) first, then random WELL-SCOPED programs (RefScope.well_scoped, re-checked per case in Coq) from a kind- and "
             "rank-directed generator: 1-5 functions plus leaf functions of arity 0-3 spread over up to four "
             "(sub)modules with function / module / super imports, 2-24 globals, locals, if / else, while, repeat "
             "and for-each nested to depth 2, early return from loops, function values and closures (nested <= 3, "
             "0-3 parameters, created in loops / submodules / called functions, stored in tables, returned, passed, "
             "called after the creating scope ended, sibling closures over one variable), tables with aliasing and "
             "the property shorthand, arrays, the natives log1 / add2 / fail0 / call1 (re-entrant) also as native "
             "function values, std.map / filter / any / min / max / sorted / to_array / *_by_key with script "
             "callbacks, reals in a quarter of the programs; each program is compiled and run by the real crate in "
             "a child process (value stack 16384, call stack 400, 400000 instructions); success or error kind, the "
             "final globals by name as trees and the log of native calls are compared with "
             "RefSem.eval_program; resource errors (Timeout, Stackoverflow, CallStackOverflow, OutOfMemory) are "
             "skipped and counted; non-trivial = the program has >= 6 of the counted features; distinct = distinct "
             "case term",
        trusted_base=COMMON_TB + [
            "the reference semantics RefSem.v is the specification here: a hand-written big-step evaluator over "
            "names and cells (no stack, no indices, no bytecode); there is no model of the compiler or VM in this check",
            "Coq's Floats.SpecFloat (SFadd, SFsub, SFmul, SFdiv, SFcompare, SFeqb) at binary64 for real arithmetic; "
            "sf_of_Z / sf_to_i64 / Z_cmp_sf of Value.v (tied to the crate by C19)",
            "StdlibGen.std_module: the card text of the std module as printed by the harness from "
            "cao_lang::stdlib::standard_library() (generated file, shared with the compiler model)",
            "the harness printer from cao_lang::compiler::Module to CardAst terms (harness/src/c16.rs) and the "
            "conversion of run-time values to trees (harness/src/c01.rs)",
        ],
        assumptions=[
            "the claim is for well_scoped programs: every operand slot holds a card yielding exactly one value; "
            "new locals (and Array, which needs a hidden local) only directly in function / closure / Repeat / "
            "ForEach bodies; static calls and menu natives get exactly their arity; main does not Return",
            "globals are compared by name as sets, nil entries included (Vm::read_var_by_name answers None for a "
            "never-assigned global wherever its slot lies, a526e90)",
            "error KINDS are compared (the outermost variant), not payloads or traces (C15)",
            "NaN payloads and signs are not compared (every NaN is printed as one canonical NaN)",
            "table keys are nil, integers, strings and non-zero non-NaN reals; deeper than 6 levels a table is "
            "printed as a cut mark on both sides",
            "std.min / max / sorted(_by_key) work on the entries (keys and values) the table had when they were "
            "called, whatever the key function does to the table meanwhile (662697a; was code 10)",
            "no known classes: the former labels 10-14 (R-1..R-5) were repaired in the crate and are ordinary "
            "violations (code 2) now; their witnesses run first in every check and must agree with RefSem",
            "the simulation theorem compile_correct against the compiler and VM models (Compiler.compile, then Vm.run "
            "on its output, against RefSem.eval_program) is proved for eight nested fragments only (C01_compile_correct_f1: main "
            "alone, global assignments of integer / nil expressions over + - * < <= == != and or xor not and reads "
            "of globals, VarNotFound included; C01_compile_correct_f2: the same plus IfTrue / IfFalse / IfElse with "
            "one statement per branch, nested; C01_compile_correct_f3: the same plus While loops at the top level of "
            "main with such a statement as body, in the form 'there is a budget from which on'; C01_compile_correct_f4: "
            "the while-language - assignment, If*, While, Composite nested at will; C01_compile_correct_f5: the same with "
            "local variables of main (declared by SetVar cards directly in main, slot i = i-th local, popped before Exit); "
            "C01_compile_correct_f6r: the same plus Repeat without a loop variable - the count any expression of the "
            "fragment, evaluated once, the body a statement that declares no local, two hidden locals for count and round "
            "counter; C01_compile_correct_f6_partial: the same plus the loop variable (Repeat i n body: a scope per round with "
            "the variable in the slot above the hidden locals, initialised from the counter, popped at the end of the round; "
            "RefSem allocates a fresh cell per round, the proof relates visible locals to cells by a map); partial with respect "
            "to the planned fragment: a Repeat body that declares locals of its own, and ForEach, are not covered by it; "
            "C01_compile_correct_f8: the same plus declarations in scopes - a SetVar of a new name directly in main, directly as "
            "the body of a Repeat, or inside Composite cards in such a position, nested at will; the locals a Repeat body "
            "declares live above the hidden locals and the loop variable and are popped with it at the end of every round "
            "(the while-language with globals, locals of main, nested Repeat loops with loop variables and body-local variables); "
            "hypotheses: compile returns Ok "
            "(which since ce07816 implies that no two global names share their FNV handle; globals are observed "
            "under the names that do not collide with a name of the program), expression depth + 1 < 256, fewer than 2^32 variable "
            "ids, bytecode shorter than 2^31 bytes, for f1 / f2 budget >= instructions of main + 2; for f8 possible declarations + "
            "temporaries of the deepest path + 1 < 256); static calls are covered end to end for fragment F9 (C01SimDefs9.in_f9: "
            "several functions, Call with parameters to functions declared later in the module - no recursion -, Return, "
            "If*, locals): C01_compile_correct_f9 (hypotheses: depth_ok9 - the frames of one chain of calls fit the value "
            "stack and the call stack -, label keys pairwise distinct, bytecode shorter than 2^31, budget), assembled from "
            "C01_f9_reference_meaning (eval_program computes the direct fuel-free meaning run_main9), "
            "C01_f9_compile_shape_code / C01_f9_compile_labels (the emitted code code_all9 and the function labels) and the VM "
            "simulation by induction over the function list; C01_f9_call_keeps_caller_stack: at the Return of a callee the "
            "caller's part of the stack and the frames below are intact; C01_f9_well_scoped puts the fragment inside well_scoped; for everything "
            "else (reals, ForEach, recursion / dynamic calls / calls outside F9, tables, closures, natives) its statement "
            "at the top of Properties/C01.v is carried by the differential check only",
        ],
    ),
    "C09": dict(
        prop_file="Properties/C09.v",
        check_module="C09Check",
        theorems={t: [] for t in [
            "C09_sorted_permutation", "C09_sorted_ordered", "C09_sorted_stable", "C09_sort_order_is_strict_weak",
            "C09_min_order_is_strict_weak", "C09_max_order_is_strict_weak", "C09_best_none", "C09_best_is_an_entry",
            "C09_best_is_first_best", "C09_best_is_optimal", "C09_filter_is_filter", "C09_map_keys", "C09_map_nth",
            "C09_any_some", "C09_any_none", "C09_to_array_keys", "C09_to_array_values",
            "C09_native_sorted", "C09_native_min_max", "C09_native_to_array", "C09_native_passthrough",
            "C09_sorted_by_key_contract", "C09_min_max_by_key_contract", "C09_sorts_agree", "C09_std_filter", "C09_std_map", "C09_std_any", "C09_std_inputs_unchanged",
            "C09_std_to_array", "C09_std_sorted_by_key", "C09_std_min_max_by_key", "C09_row_to_value_pure",
            "C09_std_sorted", "C09_std_min_max", "C09_std_passthrough",
            "C09_tree_orderings_agree_on_samples"]},
        n_quick=300, n_thorough=4000,
        gen_timeout=3000,
        gates=["fn.filter", "fn.map", "fn.any", "fn.min", "fn.max", "fn.min_by_key", "fn.max_by_key", "fn.sorted",
               "fn.sorted_by_key", "fn.to_array", "size.0", "size.1", "size.2", "size.3-10", "size.11-40",
               "val.int", "val.real", "val.string", "val.nil", "val.table", "key.int", "key.real", "key.string",
               "key.nil", "dup_values", "ties", "mixed_int_real_equal", "nan_key", "negzero_key",
               "cb.script_fn", "cb.closure_counter", "cb.allocates", "cb.nested_std", "cb.mutates_input",
               "cb.arity1", "cb.arity2", "cb.arity3", "input.non_table", "input.host_built", "input.host_rooted",
               "input.insert_value", "lowmem.host_rooted", "lowmem.insert_value", "corpus.F-1a", "corpus.F-1b",
               "stream.lowmem", "lowmem.ok", "lowmem.gc", "obs.ok", "predict", "spec_only"],
        rule="the two witnesses of the repaired finding F-1 (findings/C09) first, then one generated SCRIPT per case "
             "that calls ONE std function (filter, map, any, min, max, min_by_key, "
             "max_by_key, sorted, sorted_by_key, to_array) ONCE on one input: tables of 0, 1, 2 .. 40 entries built by "
             "the script or by the host (through a native: Vm::insert_value, or init_table / init_string / insert with "
             "the guards held; the host's table travels in the case and the script must receive exactly it), integer / real / string / nil keys, "
             "integer / real (NaN, -0.0, infinities, 2^53+1 next to 2^53 as a real) / string / nil / nested-table "
             "values from small pools (duplicates, ties, numerically equal keys of different kinds), non-table inputs; "
             "callbacks from a menu of script functions of arity 1-3 (truthiness, comparisons, constants, arithmetic "
             "keys, int-or-equal-real keys), closures that capture and count, callbacks that allocate strings and "
             "tables, callbacks that call the library again, key functions that append to / pop from / overwrite the "
             "input table (min/max/sorted_by_key only: the natives work on the entries present at call time); the "
             "callback given to the library is a wrapper that calls the real one and logs arguments and result "
             "through the native log1; the input is logged just before the call; result and input are read back as "
             "owned trees after the run; every third script and every script with a host-built input runs a second "
             "time under a memory limit of 50-200 % of what the first run allocated (collections inside the "
             "callbacks and inside the host's table construction); every run in a child process (a crash is an observation). "
             "Code 2: the result differs from StdSpec applied to the logged input with cb = the logged calls, or "
             "the sequence of callback invocations is not 'every entry once, in table order' (any: up to the first "
             "truthy one), or the input changed though the callback does not touch it, or the script did not receive "
             "the table the host built, or the run crashed; no known classes (F-1, Vm::insert_value unrooted, was "
             "repaired by a1ac5c5 and is an ordinary violation if it comes back); "
             "code 1: the whole run (kind, globals, log) differs from RefSem.eval_program (scripts with script-built "
             "tables and callbacks that do not modify the input). Resource errors are skipped and counted. "
             "non-trivial = input with >= 2 entries; distinct = distinct case term",
        trusted_base=COMMON_TB + [
            "the specification StdSpec.v is a hand-written reading of the documented contract of stdlib.rs "
            "(sort_key_cmp for the order of sorted; < and > of the language, first strict best, for min / max)",
            "the reference semantics RefSem.v (eval_native for __min/__max/__sort/__to_array; ForEach, DynamicCall, "
            "SetProperty, Return for the card programs) and StdlibGen.std_module, the card text of std as printed by "
            "the harness from cao_lang::stdlib::standard_library()",
            "the tree orderings tr_cmp / tr_sort_lt of C09Check.v are a transcription of v_cmp / sort_lt to owned "
            "trees (not proved equal to them); Coq's Floats.SpecFloat (SFcompare, SFeqb) and Z_cmp_sf of Value.v",
            "the script protocol: the wrapper functions built by harness/src/c09.rs log every invocation (arguments, "
            "result) through the native log1 and the checker reads the flat log back positionally",
            "the harness printer from cao_lang::compiler::Module to CardAst terms (harness/src/c16.rs) and the "
            "conversion of run-time values to trees (harness/src/c01.rs)",
        ],
        assumptions=[
            "callbacks in the theorems are PURE: called with any arguments in any state they return the oracle's "
            "value and leave heap, globals and host log unchanged (they may create variables and closures); the "
            "check (cb = the logged calls) also covers callbacks with state, allocation and re-entry",
            "theorems C09_std_* and C09_native_* are about the reference semantics and the card text of std; the "
            "compiler and VM are tied to the reference semantics by C01's check and to the specification by this "
            "check, not by a proof",
            "ordered / stable / first-best are stated for comparisons that are strict weak orders on the keys that "
            "occur: proved for sorted's order on all keys whose reals are valid binary64 values and for < / > on "
            "numbers (non-NaN); min / max over keys that mix nil, strings and tables use a partial order and only "
            "'an entry of the table, chosen as the first strict improvement' holds",
            "table keys are nil, integers, strings and non-zero non-NaN reals; trees deeper than 6 levels are cut on "
            "both sides; NaN payloads are not compared; function values compare as one opaque mark",
            "key functions that modify the table being processed: the specification is applied to the entries "
            "present at call time (behaviour since 662697a, which RefSem now models too); the comparison with RefSem "
            "is still restricted to key functions that do not modify the input",
        ],
    ),
    "C06": dict(
        prop_file="Properties/C06.v",
        check_module="C06Check",
        theorems={t: [] for t in [
            "C06_stores_only_grow", "C06_capture_by_reference", "C06_write_seen_through_shared_cell",
            "C06_iteration_cells_distinct_repeat", "C06_iteration_cells_distinct_foreach",
            "C06_return_keeps_store", "C06_repeat_scope_exit", "C06_foreach_scope_exit",
            "C06_reachable_states_well_formed", "C06_cell_outlives_scope", "C06_closure_body_identity",
            # the VM half (Vm.v): the open-upvalue list and what capture means on single instructions
            "C06_vm_ok_meaning", "C06_fresh_state_vm_ok", "C06_open_upvalues_preserved",
            "C06_open_upvalues_preserved_next", "C06_open_upvalues_preserved_run", "C06_open_slot_may_be_dead",
            "C06_vm_register_shares", "C06_vm_quiet_instructions", "C06_vm_quiet_instructions_same_objects",
            "C06_vm_second_capture_shares", "C06_vm_heap_mono_meaning", "C06_vm_objects_stable",
            "C06_vm_objects_stable_run", "C06_vm_closures_closed",
            "C06_vm_read_write_open", "C06_vm_close_keeps_value",
            "C06_vm_return_closes", "C06_vm_closed_upvalue_is_private", "C06_vm_closure_body",
            # the refinement: representation relation reference cells <-> stack slots / upvalue objects, one-step
            # preservation (C06SimDefs.v, C06SimVm*.v)
            "C06_rep_read_upvalue", "C06_rep_write_upvalue", "C06_rep_read_local", "C06_rep_write_local",
            "C06_rep_close_upvalue", "C06_rep_register_upvalue", "C06_rep_return",
            # refinement through the compiler, fragment FC: the reference half (C06SimFc*.v)
            "C06_fc_reference_meaning", "C06_fc_well_scoped"]},
        n_quick=200, n_thorough=3000,
        gen_timeout=3000,
        release=False,
        # Value.v (the float conversions RefSem uses) loads Flocq, whose real-number axioms are then in the
        # context coqchk reports; no theorem of C06 depends on them (Print Assumptions: closed)
        coqchk_axioms=REALS_AXIOMS,
        gates=["ok", "corpus.S-1", "corpus.S-2", "corpus.S-3", "identity.sites", "identity.same_position_twins",
               # nesting and non-local upvalues
               "closure.depth2", "closure.depth3", "closure.depth4", "upvalue.nonlocal2", "upvalue.nonlocal3",
               "closure.returns_closure", "closure.returned_by_closure_kept",
               # frames: arguments, extra locals, call depth
               "closure.frame_args0", "closure.frame_args1", "closure.frame_args2", "closure.frame_args3",
               "closure.frame_args4", "closure.locals_before1", "closure.locals_before4",
               "closure.calldepth1", "closure.calldepth2", "closure.calldepth3", "closure.calldepth4",
               "closure.calldepth5", "closure.in_submodule",
               # loops
               "closure.in_repeat", "closure.in_foreach", "closure.in_while", "closure.in_nested_loop",
               "capture.loopvar_i", "capture.loopvar_k", "capture.loopvar_v", "capture.while_counter",
               "closure.loop_table", "call.all_of_table_after_loop",
               # sharing
               "siblings.idiom", "siblings.shared_written_var", "enclosing_write_after_capture",
               "closure.writes_captured",
               # storing, returning, passing
               "closure.appended_to_table", "closure.in_array", "closure.in_record", "closure.stored_in_global",
               "call.closure_in_table", "call.closure_in_record", "call.closure_in_global",
               "closure.returned", "closure.returned_from_function", "closure.table_returned",
               "closure.record_returned", "closure.table_returned_from_function",
               "call.closure_argument_of_function", "call.closure_parameter",
               "std.map", "std.filter", "std.any", "std.min_by_key", "std.sorted_by_key", "native.call1",
               "call.late", "closure.called_on_the_spot", "dyncall", "dyncall.surplus_argument",
               # what is captured
               "capture.param", "shadow.loop_variable", "shadow.param", "capture.shadowing_variable",
               "capture.many2", "capture.many3", "capture.many4", "capture.many5", "capture.many6",
               "capture.many7", "capture.many8",
               "statement_level_value", "junk_above_captured", "junk_above_captured_in_loop_body", "return_in_loop",
               "closure.arity0", "closure.arity1", "closure.arity2", "closure.arity3"],
        rule="the three witness programs of findings/C06 first, then random WELL-SCOPED programs (RefScope.well_scoped, re-checked per case in Coq) from a generator dedicated to "
             "closures (harness/src/c06.rs): a chain of 1-5 functions with 0-4 parameters (main calls the last, each calls "
             "the one below: closures are created at call depth 0-5 in frames with arguments and extra locals), apply "
             "templates that call a callable parameter, twin functions with the same text shape in two modules, up to four "
             "(sub)modules with function imports; closures nested to depth 4 (non-local upvalues of the grandparent and "
             "great-grandparent function), with 0-3 parameters (some shadowing a visible variable), returning integers "
             "or closures, created in Repeat / ForEach / While bodies (loop variables i / k / v and body locals "
             "captured, tables of per-iteration closures called after the loop), sibling closures over one variable "
             "interleaved with writes of the enclosing scope, 2-8 captured variables in one scope, statement-level "
             "values above captured locals, closures in arrays / records / globals, returned from functions and "
             "closures, passed to script functions, to std.map / filter / any / min_by_key / sorted_by_key and to the "
             "re-entrant native call1, called 0-3 times in any order after the creating frame is gone; all values are "
             "integers, integer tables, closures and tables of closures, so programs run to the end; each program runs "
             "in a child process (60000 instructions; longer runs are skipped as resource errors and counted). "
             "Oracle A: outcome kind, globals by name and native log against RefSem.eval_program. Oracle B "
             "(independent of RefSem): every closure body logs its own tag first, every call site whose callee's "
             "creating expression the generator knows logs a site marker just before the call, and the tag entry after "
             "a marker in the observed log must be the tag the generator expects (pairs printed with the case); "
             "non-trivial = the program has >= 12 of the counted features and was not skipped; distinct = distinct "
             "case term",
        trusted_base=COMMON_TB + [
            "the reference semantics RefSem.v is the specification of oracle A: a hand-written big-step evaluator over "
            "names and cells (no stack, no indices, no bytecode); the first eleven theorems of Properties/C06.v are "
            "about it. The C06_vm_* / C06_open_* theorems are about the VM model Vm.v (hand transcription of /repo HEAD, "
            "tied to the code by the VM / C03 / C17 / C18 correspondence checks, not by this check); the compiled "
            "witnesses of VmUpvalueWitness.v are printed by the harness (vm-witness) from findings/C06/S-*.json",
            "oracle B trusts the generator's bookkeeping of which closure expression reaches which call site; the "
            "checker first requires the reference semantics itself to meet it (else code 3: generator defect)",
            "StdlibGen.std_module: the card text of the std module as printed by the harness (generated file)",
            "the harness printer from cao_lang::compiler::Module to CardAst terms (harness/src/c16.rs) and the "
            "conversion of run-time values to trees (harness/src/c01.rs)",
        ],
        assumptions=[
            "the claim is for well_scoped programs (see C01)",
            "globals are compared by name with nil entries dropped on both sides; error KINDS are compared, not payloads",
            "runs that end in Timeout / Stackoverflow / CallStackOverflow / OutOfMemory are skipped and counted",
            "the refinement theorem that ties Vm.v's upvalue objects to RefSem's cells through the compiler "
            "(cell_rel / closure_refinement) is stated in a comment of Properties/C06.v and not proved; proved on the VM "
            "side: the open-upvalue list invariant vm_ok is kept by every instruction (all opcodes, all natives, "
            "re-entry) and by `run`, and the single-instruction capture semantics (register / read / write / close / "
            "return / call)",
            "vm_ok bounds an open upvalue's slot by the CAPACITY of the stack array, not by the stack height: the VM "
            "does not keep `slot < height` for arbitrary bytecode (C06_open_slot_may_be_dead); for compiled programs "
            "that bound would follow from the compiler emitting CloseUpvalue before a scope's pops, which is not proved",
            "vm_ok says nothing about the state of a model abort (panic / UB / crash / divergence outcomes of Vm.v)",
            "the iteration theorems speak about the unrolling relations repeat_iter / foreach_iter, which follow the "
            "clauses of RefSem.F (tied to F by C06_repeat_scope_exit / C06_foreach_scope_exit)",
        ],
    ),
    "C15": dict(
        prop_file="Properties/C15.v",
        check_module="C15Check",
        theorems={
            "C15_card_run_list_is_all_positions": [],
            "C15_run_list_complete": [],
            "C15_get_card_has_run": [],
            "C15_compile_trace_classified": [],
            "C15_plain_entry_names_owner": [],
            "C15_epilogue_resolution": [],
            "C15_error_trace_classified": [],
            "C15_example_nested_table": [],
            "C15_example_nested_abort_has_run": [],
            "C15_emit_index_sound": [],
            "C15_compile_error_loc": [],
            "C15_repeat_count_index_resolves": [],
            "C15_loop_error_at": [],
            "C15_step_frames_ok": [],
            "C15_error_trace_shape": [],
            "C15_nested_error_keeps_payload_only": [],
            "C15_reported_head_is_compiler_entry": [],
            "C15_error_head_resolves": [],
            "C15_card_owns_its_instructions": [],
            "C15_ir_stream_in_tree": [],
            "C15_compile_trace_resolves": [],
            "C15_call_entry_is_call_card": [],
            "C15_error_trace_resolves": [],
            "C15_example_call_chain": [],
            "C15_while_jump_names_body": [],
        },
        n_quick=300, n_thorough=3000,
        gen_timeout=3000,
        gates=["stream.scenario", "stream.planted", "stream.unplanted", "stream.compile", "scenario.thin",
               "fault.setprop_nontable", "fault.dyncall_nonfunction", "fault.missing_native", "fault.missing_global",
               "fault.native_error", "fault.native_conversion", "fault.value_stack", "fault.call_stack",
               "fault.timeout_loop", "fault.foreach_nontable",
               "hop.call_absolute", "hop.call_bare", "hop.call_imported_function", "hop.call_imported_module",
               "hop.dyncall_function_value", "hop.dyncall_variable", "hop.closure_inline", "hop.closure_variable",
               "hop.std_map", "hop.native_call1", "hop.native_rb1", "hop.std_sorted_by_key",
               "wrap.repeat.body", "wrap.while.body", "wrap.foreach.body", "wrap.if_else.else", "wrap.array.item",
               "planted.in_submodule", "planted.in_called_function", "planted.depth.6", "head.in_submodule",
               "head.in_std", "trace.ns_depth>=2", "trace.through_std", "trace.len.>20", "trace.len.4-6",
               "base.kind.vmgen", "base.kind.corpus", "base.kind.progs", "base.kind.chain",
               "unplanted.timeout", "unplanted.own_error",
               "cfault.EmptySetVar", "cfault.EmptyClosureArg", "cfault.BadCall", "cfault.BadImportedCall",
               "cfault.TooManySuper", "cfault.TooManyLocals", "cfault.TooManyUpvalues", "cfault.BadImport",
               "cplanted.in_submodule", "witness.nested_trace_dropped", "witness.function_level_head"],
        rule="four streams, every case run on the real crate (compile + Vm::run with the native menu of the VM "
             "stream), every trace entry resolved through the crate's own Module::get_card (namespace -> submodule "
             "path, `std` -> stdlib::standard_library(), then CardIndex) and cards identified by CardId tags: "
             "(scenario, 40%) generated module trees (submodules to depth 3, function / module imports, shuffled "
             "function tables) with a call chain main -> f1 .. fk, k <= 5, hops = Call by absolute / bare / imported "
             "name, DynamicCall of a function value / variable, inline and stored closures, std.map / filter / any, "
             "native callbacks call0 / call1 / rb1 / std.sorted_by_key / std.min_by_key; every hop and the fault nested "
             "0-3 levels in 24 kinds of control-flow / expression wrappers; exactly one fault (15 kinds: wrong-type "
             "operand x7, missing native, missing global, native error, native conversion error, value-stack "
             "exhaustion x2, unbounded recursion, endless loop under a small budget); the whole expected trace is "
             "known. (planted, 30%) programs that run to completion (VM corpus, progs.rs, vmgen, modgen, fault-free "
             "chains) with Composite[marker, fault, original] planted at a random card position; the marker in the host "
             "log tells whether the position was reached; chain checked for consistency. (unplanted, 12%) programs that "
             "fail by themselves or under budgets 1..300. (compile, 18%) modules with one planted compile error (empty "
             "variable in SetVar / ReadVar / SetGlobalVar / closure argument / ForEach / Repeat, unresolvable Call / "
             "Function / imported name, too many `super.`, 256th local, 256th upvalue, bad import). Code 1: "
             "Compiler.compile + Vm.run on the module term predict another payload or trace, or CardEdit.get_card "
             "another card kind, or a trace entry of the model's own output does not resolve / keys not increasing. "
             "Code 2 (observations + planted data only): trace[0] resolves to the planted card (by position and by "
             "CardId), later entries are the expected call cards innermost first (scenario) or call cards that call "
             "the function of the entry before (others), optional final entry in main; compile error loc = planted card. "
             "Non-trivial = trace of >= 2 entries or a compile case; distinct = distinct case term",
        trusted_base=COMMON_TB + [
            "modelled, not verified: compiler.rs (trace bookkeeping), vm.rs (_run, payload_to_error, run_function), "
            "vm/instr_execution.rs, compiler/module.rs (get_card), compiler/card.rs (get_child); the models are "
            "Compiler.v, Vm.v, CardEdit.v; C15Link.to_vm numbers the Trace values by their position in the sorted trace list",
            "the harness's resolver (namespace -> submodule by first name match, `std` -> stdlib) and its CardId tags; "
            "Flocq binary64 (VmFloat.v) is used by the checker only",
        ],
        assumptions=[
            "C15_error_trace_resolves joins the run-time shape theorem with the compiler model: for compile M o = COk B "
            "(below 2^32 bytes: push_instruction records `len as u32`) trace[0] is the entry of the failing address and "
            "resolves, in M's tree with `std` injected (namespace -> submodule by first name match, then "
            "CardEdit.get_card), to the card whose process_card run is the INNERMOST one containing that address; "
            "every frame whose source is a CallFunction byte resolves to the Call / DynamicCall card that emitted it, "
            "under that card's namespace. 'Emitted by' is a ghost of the proof: a list of process_card runs (card, "
            "index, byte range), existentially quantified, each anchored to a real execution of process_card on that "
            "card at that index whose recorded trace is a suffix of the program's trace in emission order (run_ok), "
            "ranges nested or disjoint by construction; that the list contains EVERY "
            "nested process_card call is true of the construction but not part of the statement",
            "carve-outs kept explicit in entry_resolves: N-C15-3 (an address in no process_card run: scope-end Pop / "
            "CloseUpvalue, ScalarNil, Return, Exit of the function epilogues; for a non-main function WITH cards the "
            "epilogue carries the index of its last card - it resolves, but to a card that did not emit it; not a "
            "CallFunction, so the call chain is unaffected) and N-C15-4 (NEW, reported: the GotoIfFalse / GotoIfTrue / "
            "Goto of While, IfTrue, IfFalse, IfElse are pushed while sub-index 1 is current - compiler.rs "
            "push_subindex(1) before encode_if_then - so a Timeout there names the body / then-branch instead of "
            "the loop / conditional card; witness C15_while_jump_names_body; the correspondence check compares exact "
            "traces, so the crate agrees with the model here)",
            "frame sources: 0 (frame of Vm::run: entry of address 0, the program entry) and label positions (frames "
            "of Vm::run_function) are listed, not resolved to call cards; that a frame source with a trace entry "
            "and byte 11 is an instruction start follows from 'trace keys are instruction starts' (proved, addrs); "
            "N-C15-2 is outside the statement: a nested run's error reaches the outer run as the failure of the "
            "CallNative instruction, which is the address the theorem speaks about",
            "natives are the fixed menu of Vm.v; errors raised inside a nested run (native callbacks) surface at the "
            "native's call site (known class 12); OutOfMemory is not in the stream (no allocator in Vm.v)",
        ],
    ),
    "C04": dict(
        prop_file="Properties/C04.v",
        check_module="C04Check",
        theorems={t: [] for t in [
            "C04_compile_total", "C04_compile_never_diverges", "C04_super_depth_total", "C04_patch_code_complete",
            "C04_zero_name_repaired", "C04_zero_path_repaired", "C04_zero_label_repaired",
            "C04_run_total", "C04_step_no_abort_partial", "C04_step_pre_entry_state", "C04_invalid_opcode_aborts",
            "C04_empty_call_stack_aborts", "C04_full_value_stack_is_stackoverflow", "C04_full_value_stack_scalar_nil",
            "C04_full_call_stack_is_callstackoverflow", "C04_full_call_stack_call_function",
            "C04_call_non_function_is_invalid_argument", "C04_get_property_wrong_type", "C04_set_property_wrong_type",
            "C04_integer_overflow_wraps", "C04_integer_overflow_witness", "C04_budget_zero_is_timeout",
            "C04_budget_zero_dispatches_nothing",
            "C04_equality_total", "C04_append_probe_terminates", "C04_step_no_abort_no_native", "C04_native_call_ok",
            "C04_native_call_ok0", "C04_step_no_abort", "C04_step_preserves", "C04_loop_no_abort", "C04_run_no_abort_partial",
            "C04_fresh_state_inv", "C04_cyclic_table_aborts", "C04_cyclic_heap_not_acyclic",
            "C04_step_keeps_acyclic", "C04_set_property_ranked", "C04_append_table_ranked",
            "C04_wellformed_code_ok", "C04_compiled_run_no_abort",
            "C04_step_keeps_natives_simple", "C04_nested_run_contract", "C04_checked_run_no_abort", "C04_run_agrees",
            "C04_run_no_abort_unless_check", "C04_run_no_abort_flat_tables",
            "C04_checked_run_nested_ok", "C04_checked_run_cyclic_stops",
            "C04_return_in_main_is_bad_return", "C04_return_one_frame_is_error",
            "C04_foreach_counter_needs_well_scoped", "C04_foreach_counter_neighbours",
        ]},
        n_quick=200, n_thorough=2000,
        gen_timeout=3000,
        gates=["sweep.stack", "sweep.foreach_in_callee", "fmt.json", "fmt.yaml", "fmt.deep", "parse.ok", "parse.err", "compile.ok", "model.applies",
               "compile.err.ENoMain", "compile.err.EBadFunctionName", "compile.err.EBadImport", "compile.err.EInvalidJump",
               "compile.err.EEmptyVariable", "compile.err.ETooManyLocals",
               "compile.err.ERecursionLimitReached", "compile.err.ESuperLimitReached",
               "run.ok", "run.err.Timeout", "run.err.Stackoverflow", "run.err.CallStackOverflow", "run.err.OutOfMemory",
               "run.err.MissingArgument", "run.err.InvalidArgument", "run.err.ProcedureNotFound",
               "cfg.stack=1", "cfg.stack=2", "cfg.calls=1", "cfg.calls=2", "cfg.mem<=64", "cfg.budget=0", "cfg.budget=1",
               "cfg.budget=2", "cfg.twice", "cyclic", "cyclic.build_only", "deep.built", "deep.loader.json",
               "deep.loader.yaml", "text.deep_brackets", "text.deep_cards", "text.yaml_special", "text.mut.truncate",
               "text.mut.byte", "text.mut.name", "text.mut.number", "text.soup", "text.skeleton",
               "front.arity_mismatch", "front.import_self", "front.import_cycle", "front.name.function",
               "front.name.variable", "front.no_main", "front.empty_main", "extreme.many_cards", "extreme.long_string",
               "extreme.many_locals", "extreme.many_globals", "extreme.upvalues_over", "extreme.many_functions",
               "extreme.module_depth", "find.zero_name.global", "find.zero_path.card", "find.zero_label.closure",
               "prog.vmgen", "prog.progs", "prog.modgen"],
        rule="totality stream; EVERY implementation run (loader, compile, VM construction, run, second run, drop) happens in a "
             "child process `cao-verif-harness c04-worker <case file>` of the same build profile (debug in the quick tier, "
             "debug and release in the thorough tier), at most 12 at a time, wall-clock limit 60 s per child; the observation is "
             "the last stage entered, the value each finished stage returned, and how the child ended (exit 0 / panic exit "
             "101 / signal / watchdog). Inputs: (a) texts through serde_json::from_str::<Module> and serde_yaml::from_str: "
             "serialisations of random modules, mutated (truncation, byte flips, deleted / duplicated spans, names replaced by "
             "empty / dotted / `super` / `std` / non-ASCII / NUL / 10 000-byte names, numbers replaced by out-of-range ones), "
             "random token soup over the format's vocabulary, module skeletons with random content, brackets and cards "
             "nested 10 .. 2 000 000 deep (YAML: 10 000), YAML anchors / aliases / merge keys / tags; every card kind nested "
             "30 .. 1000 levels through both loaders (they refuse between 55 and 62 levels) and, built inside the worker, 150 "
             ".. 100 000 levels (outside the domain, class 14); 26 strange names in 7 positions; arities that do not match, "
             "empty functions, missing main, self-referencing and cyclic imports; 66 000 cards, 1 500 (6 000) locals / "
             "globals / functions / submodules / imports / arguments, 255+ locals and upvalues, 1 MiB strings, 5 000-step "
             "property chains, module depth around the recursion limit, recursion limits 0 .. u32::MAX; the zero-handle "
             "witnesses. (b) compiled programs of vmgen's corpus, progs.rs, random vmgen and modgen modules under "
             "RuntimeData::new(memory_limit in 0 .. 1 GiB incl. 64, stack_size in 0 .. 1024 incl. 1 and 2, call_stack_size in "
             "0 .. 1024 incl. 1 and 2) with budgets 0, 1, 2, 3, .. 200 000, optionally run twice on the same VM; programs that "
             "build self-referencing tables and compare / hash them (A-37) run only in children. Code 2 = the child did not "
             "end normally, or budget 0 did not give Timeout / call-stack size 0 did not give CallStackOverflow; code 1 = "
             "Compiler.compile predicts another outcome (Ok, or error payload with fields and location) for the module the "
             "loader returned (ASCII function names, literals in range, printed term <= 40 000 characters); non-trivial = "
             "the loader accepted the input; distinct = distinct case term",
        trusted_base=COMMON_TB + [
            "modelled, not verified: compiler.rs, compiler/module.rs (Compiler.v, as for C10), vm.rs, vm/instr_execution.rs "
            "(Vm.v, as for VM / C03); the VM model has fixed stack sizes 256 / 256 and no allocator, so configurations are "
            "judged by the process-level oracle only",
            "the operating system's process isolation, exit statuses and signals; rustc's panic = exit code 101 and "
            "stack-overflow handler (SIGABRT); serde_json / serde_yaml as the loaders",
        ],
        assumptions=[
            "compile_total holds on C04Proofs.module_in_domain (decidable): estimated output below 2^32 bytes (the former "
            "conditions on zero handles went with 3f22e7c: N-C04-1..3 repaired, C04_zero_*_repaired)",
            "run_no_abort: one step of every opcode and every native (C04_step_no_abort) and the dispatch loop / Vm::run "
            "(C04_loop_no_abort, C04_run_no_abort_partial) do not abort under the structural invariant vm_inv (proved "
            "to be preserved: C04_step_preserves) and the per-instruction conditions [side]: the heap is ranked "
            "(acyclic and nested less than eq_fuel - 1 = 23 tables deep; a cyclic table aborts: C04_cyclic_table_aborts, "
            "A-37), no native function value names a native that calls back, ForEach's counter is >= 0 in Debug "
            "builds, RegisterUpvalue's captured variable exists. [side] is a hypothesis on the instructions the "
            "loop dispatches (heap_acyclic is not preserved by SetProperty / AppendTable of a table into a table). "
            "(C04_step_keeps_acyclic: every other instruction keeps it; C04_set_property_ranked / "
            "C04_append_table_ranked: the condition for those two; the stdlib natives __min / __max / __sort are not "
            "shown to keep it). Nested runs enter through the contract reenter_ok (a hypothesis, not discharged by induction over "
            "the nesting depth); code_ok (instruction starts, operands inside, jump targets and labels at starts) "
            "follows from C10 wellformed (C04_wellformed_code_ok, C04_compiled_run_no_abort). The model's == has a "
            "recursion fuel of 24: tables nested 23 or more levels deep count as an abort in the model although the "
            "crate only overflows its native stack at a much larger depth (the model is pessimistic there). "
                        "HYPOTHESIS-FREE FORM (C04VmChecked.v, C04VmAgree.v, C04VmFinal.v): the CHECKED VM = Vm.v plus runtime "
            "checks that stop a run with OAbort AUnmodelled (chk_store: SetProperty / AppendTable never store a table as "
            "key or value; chk_foreach: ForEach counter >= 0 in Debug; chk_reg: a captured enclosing upvalue exists; "
            "chk_native: CallNative is not __min / __max / __sort; chk_return: Return runs with >= 2 frames; nesting of "
            "runs < 130). C04_nested_run_contract proves the contract of nested runs (reenter_ok) by induction over the "
            "nesting depth; C04_checked_run_no_abort: the checked VM aborts in no other way, with NO hypothesis about "
            "intermediate states; C04_run_agrees: a run on which no check fails is the checked run; together "
            "C04_run_no_abort_flat_tables: Vm::run of a compiled program (static condition native_pointers_simple: no "
            "NativeFunctionPointer names a native that calls back; natives_simple is then an invariant, "
            "C04_step_keeps_natives_simple) never aborts on a run on which no check fails. Left as checks, not proved: "
            "that compiled programs never fail chk_foreach / chk_reg, that nested runs never fail chk_return and that "
            "the call stack (256 frames) keeps the nesting below 130; __min / __max / __sort are not shown to keep the "
            "heap acyclic",
"C04VmProofs.v's header lists every abort site of Vm.v with its final status",
            "native stack exhaustion and aborts are runtime behaviour: observed per child process, not derivable from the "
            "models (DESIGN section 9); card nesting deeper than the loaders admit is outside the property (class 14)",
            "serde_yaml needs time quadratic in the nesting depth before it reports its recursion limit (100 000 open "
            "brackets: about a minute); the stream keeps YAML nesting at or below 10 000",
        ],
    ),
    "C14": dict(
        prop_file="Properties/C14.v",
        check_module="C14Check",
        theorems={
            "C14_value_stack_refines": [],
            "C14_bounded_stack_refines": [],
            "C14_bounded_stack_conservation": [],
            "C14_legacy_pop_refuted": [],
        },
        n_quick=400, n_thorough=6000,
        gates=["vs.saw_full", "vs.pop_on_empty", "bs.saw_full", "vs.cap=1", "bs.cap=0", "vs.cap=big"],
        rule="random operation histories (10-70 ops, some 600) over ValueStack (capacities 1..32 and 256) and "
             "BoundedStack<drop-logging> (capacities 0..40); after every operation the result (and the drop log) is "
             "compared with the Coq model and with the list specification; non-trivial = history uses >= 4 (value "
             "stack) / >= 3 (bounded stack) distinct operation kinds; distinct = distinct case term",
        trusted_base=COMMON_TB + [
            "modelled, not verified: value_stack.rs (push/pop/pop_n/pop_w_offset/set/get/last/peek_last/clear/"
            "clear_until/len/iter/as_slice/top_location) and bounded_stack.rs (push/pop/last/clear/len/iter/"
            "iter_backwards/Drop)"],
        assumptions=[
            "clear_until(h) is only issued with h <= current height (the property's stated precondition)",
            "memory safety of the MaybeUninit storage is not derived from the model beyond slot states and the drop log",
        ],
    ),
    "C16": dict(
        prop_file="Properties/C16.v",
        check_module="C16Check",
        theorems={t: [] for t in [
            "C16_children_agree",
            "C16_abstraction_injective",
            "C16_step_refines",
            "C16_run_refines",
            "C16_swap_cards_refines",
            "C16_get_card_get_card_mut",
            "C16_walk_complete_unique",
            "C16_visit_children_unfold",
            "C16_replace_back",
            "C16_remove_insert",
            "C16_remove_insert_top_level",
            "C16_remove_insert_fixed_refuted",
            "C16_swap_involutive",
            "C16_swap_ancestor_fails_unchanged",
            "C16_swap_fail_unchanged",
            "C16_failed_edit_unchanged",
            "C16_replace_local",
            "C16_swap_local",
            "C16_insert_local",
            "C16_remove_local",
            "C16_swap_same_legacy_refuted",
            "C16_call_insert_legacy_refuted",
            "C16_get_depth_legacy_refuted",
        ]},
        n_quick=150, n_thorough=1500,
        gates=["kinds.all43", "op.get", "op.get_mut", "op.insert", "op.remove", "op.replace", "op.swap", "op.walk",
               "op.kids", "op.replace_child", "err.CardNotFound", "err.FunctionNotFound", "err.InvalidIndex",
               "err.ChildErr", "swap.InvalidSwap", "swap.FetchError", "edge.swap_same", "edge.call_insert_oor",
               "edge.get_nested_miss", "random"],
        rule="bounded-exhaustive: each of the 43 card kinds (list kinds with 0-3 children) x every child index "
             "0..arity+1 x {kids, get, get_mut, replace+replace back, insert, remove, swap twice with a card of the "
             "same and of another function, swap with the own ancestor in both orders, replace_child, walk, swap "
             "with itself}, once as a top-level card and once nested in a host card; malformed indices (empty, "
             "function out of range, card out of range); plus n random modules (depth <= 4, thorough <= 6) with "
             "random histories of 8-16 calls on valid, perturbed and invalid indices. After every call the result "
             "(incl. error variant and depth) and the whole module are compared with the kind-by-kind model and "
             "with the rose-tree specification. Calls of the three repaired classes (swap(i,i), insert past the end of a call, get_card "
             "below a miss) are issued inside the histories and also as cases of their own. non-trivial = history uses >= 3 operation kinds or contains a failing call; distinct = "
             "distinct case term",
        trusted_base=COMMON_TB + [
            "modelled, not verified: card.rs num_children/iter_children/get_child/get_child_mut/remove_child/"
            "insert_child/replace_child and module.rs CardIndex::cmp, get_card/get_card_mut/remove_card/"
            "replace_card/insert_card/swap_cards/walk_cards(_mut)/visit_children; the abstraction to_rose "
            "(which children a card has, in which order) is part of the specification",
            "the harness printer from cao_lang::compiler::{Card, Module} to CardAst terms (harness/src/c16.rs)",
            "wasm/src/lib.rs forwards to the same five functions; read, not modelled, not built"],
        assumptions=[
            "CardId (random, skipped by serde) is not modelled or compared",
            "indices are u32 in the implementation and nat in the model; the harness only issues small indices",
            "after a caught panic the module is not compared further (no panic occurs; C16_step_refines shows "
            "the unwraps and slice operations of the modelled paths cannot fail)",
        ],
    ),
    "C12": dict(
        prop_file="Properties/C12.v",
        check_module="C12Check",
        theorems={t: [] for t in [
            "C12_every_history", "C12_get", "C12_insert", "C12_insert_other_keys", "C12_remove",
            "C12_remove_other_keys", "C12_get_mut", "C12_entry", "C12_adjust_capacity", "C12_iter_len",
            "C12_alloc_failure_unchanged", "C12_load_leaves_free_slot", "C12_conservation",
            "C12_step_conserves"]},
        n_quick=300, n_thorough=4000,
        gates=["hm.grew>2", "hm.removed_present", "hm.alloc_failed", "hm.mode=hint", "hm.mode=hash",
               "hm.zero_hash_key_in_universe", "hm.get_mut_written"],
        rule="random histories (20-300 ops) over CaoHashMap<drop-logging key, drop-logging value, fault-injecting "
             "allocator>: insert / remove / get / contains / get_mut-write / entry(+or_insert_with) / reserve / clear / "
             "clone / len / capacity / iter, initial capacity 0..19, small key universes (collisions, replacement), "
             "keys whose FNV hash is 0, a second mode driving the *_with_hint API with 1-4 distinct hashes "
             "(dense collisions, wrap-around), 1 in 8 allocating operations fails; after every operation result and "
             "drop log are compared with the Coq model and with a reference map + drop accounting; non-trivial = "
             ">= 4 operation kinds and at least one growth; distinct = distinct case term",
        trusted_base=COMMON_TB + [
            "modelled, not verified: collections/hash_map.rs (find_ind, insert_with_hint, grow/adjust_capacity, "
            "remove_with_hint, get/contains/get_mut, entry/or_insert_with, reserve, clear/Drop, clone, iter, hash()) "
            "and the f32 load test as integer round-to-nearest-even (exact for capacity < 2^24)",
            "tools/gen_consts.py regenerates MAX_LOAD, the growth rule and the FNV / fibonacci constants from /repo; "
            "the side conditions (MAX_LOAD < 1 by more than an ulp, growth strictly grows) are re-proved against them"],
        assumptions=[
            "K's Eq is Leibniz equality in the theorems (the correspondence instance uses keys with an instance id "
            "that Eq ignores, only to identify objects in the drop log)",
            "usize is 64 bits; capacities stay below 2^24 (above, `usize as f32` is inexact and the integer model of "
            "the load test is no longer the f32 computation)",
            "exactly-once dropping is checked by the reference-map oracle on the implementation's drop log and "
            "stated per operation in the theorems (drop lists); the global multiset conservation theorem is not proved",
        ],
    ),
    "C19": dict(
        prop_file="Properties/C19.v",
        check_module="C19Check",
        theorems=dict(
            [(t, []) for t in (
                "C19_eq_refl", "C19_eq_self", "C19_eq_sym", "C19_eq_trans", "C19_eq_hash_bytes", "C19_eq_hash",
                "C19_hasher_writes_concatenate", "C19_cmp_eq_coherent", "C19_cmp_swap", "C19_lt_asym",
                "C19_cmp_int_int", "C19_cmp_real_real", "C19_cmp_nil_as_zero", "C19_cmp_obj_as_len",
                "C19_cmp_obj_obj", "C19_cmp_str_by_len", "C19_signed_zero_hash_refuted", "C19_nan_not_reflexive",
                "C19_nan_key_eq_hash_refuted", "C19_eq_trans_nan_refuted", "C19_fn_not_reflexive_legacy",
                "C19_fn_key_eq_hash_legacy_refuted", "C19_eq_trans_legacy_refuted", "C19_fn_key_repaired",
                "C19_coherentb_correct", "C19_cmp_int_real_exact")] +
            # statements about real numbers (Flocq B2R / Rcompare): the axioms of Coq's Reals library.
            [(t, REALS_AXIOMS) for t in (
                "C19_cmp_real_real_numeric", "C19_eq_real_real_numeric", "C19_cmp_mixed", "C19_cmp_mixed_any",
                "C19_cmp_mixed_legacy_refuted", "C19_oracle_Z_cmp_sf_correct")]),
        n_quick=1500, n_thorough=12000,
        gates=["pair", "triple", "eq.true.tables_built_differently", "pair.table_with_grown_history", "table_table.permuted", "table.depth>=3",
               "mixed.int_real", "mixed.int_beyond_2^53", "zero_vs_negzero", "has_nan", "has_nan_key",
               "has_function", "has_function_key", "eq.true.with_function_key", "fn_fn.equal",
               "closure.same_object", "closure.other_object_same_function", "hash0_remapped", "str_str.same_len_differ", "nil_vs_number",
               "object_vs_number", "triple.eq_eq", "cmp.none", "cmp.eq_but_not_equal"],
        rule="pairs (3/4) and triples (1/4) of values built through the host API of a fresh Vm (init_string, "
             "init_table + insert bottom-up, nested up to 3 deep, init_function / init_native_function / "
             "init_closure; the same closure description within a case is the same object, closure objects are numbered in first-seen order in the terms), drawn from pools biased to boundaries (0, +-1, 2^53+-1, 2^53..2^62 +-3, i64 min/max, "
             "the i64 keys whose FNV hash is 0, +-0.0, NaNs, +-inf, subnormals, neighbours by one ulp, strings of "
             "equal length, multi-byte strings) and from variants of the first value (same content in other "
             "objects, other insertion order, one key/value changed, numeric twin under the coercions, other "
             "zero); every value is read back from the real objects into a Coq term; observed: ==, both "
             "directions, v == v, hash (CaoHashMap::insert's return value), partial_cmp both directions, <, <=, "
             "as_bool, i64::try_from, f64::try_from; compared with the model and with the laws stated on the "
             "observations; non-trivial = some == is true or some partial_cmp is Some or a table is involved; "
             "distinct = distinct case term",
        trusted_base=COMMON_TB + [
            "Flocq 4.1.0 (binary64, B2SF, Bcompare, binary_round, b64_of_bits) and Coq's Floats.SpecFloat (SFcompare, SFeqb)",
            "axioms of Coq's Reals library, only under the five theorems that mention real numbers: "
            "ClassicalDedekindReals.sig_not_dec, ClassicalDedekindReals.sig_forall_dec, "
            "FunctionalExtensionality.functional_extensionality_dep, Classical_Prop.classic",
            "modelled, not verified: value.rs (PartialEq, Hash, PartialOrd, try_cast_match, as_bool, TryFrom<Value> "
            "for i64/f64), cao_lang_object.rs (Hash, PartialEq, PartialOrd, len, is_empty), cao_lang_table.rs "
            "(len, iter), CaoHasher and hash() of hash_map.rs, std's Hash for u8/i64/u64/u32/str",
            "rustc's f64 ==, partial_cmp and `as` casts are IEEE 754 / saturating as documented",
        ],
        assumptions=[
            "values are acyclic and built bottom-up: a table is not changed after it became a key of another "
            "table (a self-referencing table overflows the native stack: A-37, outside this property)",
            "native stack depth for deeply nested values is not modelled",
            "upvalue objects are not values a script can compare and are left out",
            "a closure id in a case names one object (checked per case: code 3 otherwise); eq -> same hash is proved under that coherence",
            "the Equals/Less/LessOrEq cards are observed as the closures they run (a == b, a < b, a <= b), not "
            "through compiled scripts",
        ],
    ),

    "C13": dict(
        prop_file="Properties/C13.v",
        check_module="C13Check",
        theorems={t: [] for t in [
            "C13_every_history", "C13_get", "C13_insert", "C13_entry", "C13_remove",
            "C13_other_handles_after_remove", "C13_iter_len", "C13_mask_is_mod", "C13_conservation",
            "C13_step_conserves", "C13_constructed_handles_nonzero"]},
        n_quick=300, n_thorough=4000,
        gates=["ht.grew>1", "ht.removed_present", "ht.alloc_failed", "ht.entry_new>16", "ht.index_absent",
               "ht.cap0_not_pow2", "ht.keys=colliding", "ht.keys=small", "ht.keys=random"],
        rule="random histories (20-300 ops) over HandleTable<drop-logging value, fault-injecting allocator>: insert "
             "(incl. the invalid handle 0) / entry(+or_insert_with) / entry dropped / remove / get / contains / "
             "get_mut-write / index / reserve / clear / clone / len / capacity / iter; requested initial capacity "
             "0..40 incl. non powers of two; handle universes: sets sharing one home bucket under every mask "
             "(computed with the inverse of the fibonacci multiplier), small integers, random 32-bit; 1 in 8 "
             "allocating operations fails (first or second allocation); result and drop log after every operation "
             "compared with the Coq model and with a reference map + drop accounting; non-trivial = >= 4 operation "
             "kinds and at least one growth; distinct = distinct case term",
        trusted_base=COMMON_TB + [
            "modelled, not verified: collections/handle_table.rs (with_capacity, pad_pot, find_ind, insert/_insert, "
            "grow/adjust_capacity, reserve with its f32 factor, entry/or_insert_with, remove, get/get_mut/contains, "
            "clear/Drop, clone, iter); Index/IndexMut are exercised through get + the same assertion because they are "
            "only implemented for the default allocator",
            "the masked probe `& (capacity-1)` is modelled as `mod capacity`; C13_mask_is_mod + the power-of-two "
            "capacity invariant in C13_every_history justify it; the capacity itself is compared on every run",
            "tools/gen_consts.py regenerates MAX_LOAD, 1.0+MAX_LOAD, growth rule, minimum capacity, fibonacci "
            "multiplier from /repo; the side conditions are re-proved against them"],
        assumptions=[
            "handles passed to entry() are non-zero (the property's domain); insert(0) is modelled (InvalidHandle)",
            "capacities stay below 2^24 (f32 exactness of the load test / reserve factor)",
            "each value dropped exactly once: checked by the oracle on the implementation's drop log and visible "
            "per operation in the theorems' drop lists; no global multiset theorem",
        ],
    ),

    "C07": dict(
        prop_file="Properties/C07.v",
        check_module="C07Check",
        theorems={t: [] for t in ["C07_table_refines", "C07_append_key_least", "C07_set_then_get",
                                  "C07_key_equality_is_value_equality",
                                  "C07_vm_table_object", "C07_vm_set_in_place_or_append", "C07_vm_set_then_get", "C07_vm_table_append",
                                  "C07_vm_key_equality", "C07_vm_init_table", "C07_vm_get_property",
                                  "C07_vm_set_property", "C07_vm_len", "C07_vm_append_table",
                                  "C07_vm_pop_table", "C07_vm_nth_row", "C07_vm_for_each",
                                  "C07_vm_reference_sharing", "C07_vm_tables_wf_preserved",
                                  "C07_vm_tables_wf_initial",
                                  "C07_vm_key_checked_run_tables_wf", "C07_vm_run_agrees_key_checked",
                                  "C07_vm_tables_wf_run", "C07_vm_tables_wf_nested_run",
                                  "C07_vm_nested_runs_entered_with_invariant",
                                  "C07_vm_run_set_property_in_order", "C07_vm_key_is_value",
                                  "C07_vm_table_user_view", "C07_vm_run_fresh_user_view",
                                  "C07_vm_nan_key_table", "C07_vm_set_property_nan"]},
        n_quick=150, n_thorough=2500,
        gates=["tb.pop_then_append", "tb.more_than_8_entries", "tb.string_keys", "tb.removed_present"],
        rule="random histories (15-250 ops) on a CaoLangTable obtained from a Vm: insert / remove / append / pop / "
             "get / nth_key / len / iter / keys with nil, integer, finite non-zero real and string keys (every use of "
             "a string key is a fresh string object, so equality must be by content), key universes of 3-14 keys so "
             "that overwrite / remove / pop-then-append / growth past 8 slots are frequent; results compared with "
             "the Coq model and with the insertion-ordered association list; non-trivial = >= 5 operation kinds; "
             "distinct = distinct case term",
        trusted_base=COMMON_TB + [
            "modelled, not verified: vm/runtime/cao_lang_table.rs (insert, remove, append, pop, nth_key, iter, keys, "
            "len, get); the hash part is the abstract map of Table.v, licensed by the C12 refinement theorems and "
            "by C19 (equal keys hash equally)"],
        assumptions=[
            "keys are nil, integers, strings, finite non-zero reals (the property's key domain); NaN and signed "
            "zero keys are outside",
            "the table instructions of the VM (InitTable, Get/SetProperty, AppendTable, PopTable, NthRow, Len, "
            "ForEach) and sharing of one table through several references are under the C07_vm_* theorems about "
            "the VM model Vm.v (tied to the code by the VM / C03 / C17 / C18 correspondence runs), not under this "
            "host-API stream: the VM's table representation (map part + key vector) refines the ordered "
            "association list for every key equality that answers and is reflexive on the key domain; the VM's == "
            "is such an equality on nil, integers, non-NaN reals and live non-table objects (strings by content), "
            "stable under heap growth",
            "C07_vm_tables_wf_preserved (every opcode and every native keeps the invariant of every table of the "
            "heap) is a one-step theorem with two hypotheses: the key of a SetProperty lies in the key domain (a "
            "NaN key, a table used as key or a dangling address breaks the alignment of map part and key vector - "
            "the code has no guard), and nested runs started by natives keep the invariant (the same statement one "
            "level down)",
            "run level (C07_vm_tables_wf_run, C07_vm_tables_wf_nested_run, C07_vm_key_checked_run_tables_wf, "
            "C07_vm_run_agrees_key_checked): by induction over the nesting depth of run_function re-entry, every "
            "state the dispatch loops of a run pass through and its final state satisfy the table invariant, for "
            "arbitrary bytecode, budget, build and any start state with the invariant, PROVIDED no executed "
            "SetProperty has a key outside the key domain; the proviso is stated through the key-checked VM run_k "
            "(the VM with that single run-time check, stopping with AUnmodelled): run_k keeps the invariant "
            "unconditionally and a run on which the check never fails is the key-checked run; the state list of "
            "a run is that of its own dispatch loop: its nested runs are covered through "
            "C07_vm_nested_runs_entered_with_invariant (natives enter nested runs only in states with the "
            "invariant) plus the nested-run theorem, states inside a native by the native lemmas only; "
            "the legacy budget rule (run_legacy) is not covered",
            "NaN keys: only the behaviour of the table operations is stated (C07_vm_nan_key_table, "
            "C07_vm_set_property_nan: every insert adds a row, reads find nothing, iteration skips the row, len "
            "counts it, pop leaves the row in the map part); no invariant is proved for runs that use NaN keys",
            "remove deletes every entry whose key is == to the argument (for reals: also the other zero), which is "
            "what keys.retain does; it coincides with deleting the entry that get finds when == and the hash test "
            "agree on the table's keys (VmTableProofs.al_remove_single)",
            "table keys that are tables (compared by content, mutable) and NaN keys are outside the VM-level "
            "theorems",
            "i64 overflow of the append index (2^63 entries) is not modelled",
        ],
    ),

    "C05": dict(
        prop_file="Properties/C05.v",
        check_module="C05Check",
        theorems={t: [] for t in ["C05_ledger_invariant", "C05_oom_only_when_full", "C05_bounded_live_never_oom",
                                  "C05_refused_not_charged", "C05_clear_is_fresh", "C05_gc_complete", "C05_oom_only_when_reachable_full", "C05_reachable_fits_never_oom", "C05_live_bytes_counts"]},
        n_quick=60, n_thorough=600,
        gates=["trace.alloc_refused", "trace.run_ended_OutOfMemory", "trace.collected>2",
               "trace.collection_released_something", "gc_case.mid_run", "prog=string_churn", "prog=closures", "strings.empty"],
        rule="hand-written churn programs (garbage strings, garbage tables, growing table, closures with captured "
             "locals, nested/shared tables with for-each, inline and dropped closures, stdlib callbacks that "
             "allocate) scaled by n in {5,30,120,400} and string length in {0,4,32,200} (0 = the empty string, a zero-sized character buffer), run 1-3 times with clear in "
             "between under memory limits 900 B .. 400 KiB; every alloc / dealloc / nested collection is recorded "
             "through the verif-hooks event log with the counters after it and compared with the allocator model "
             "and with a shadow ledger of outstanding allocations; collections inside programs (gc_probe native) "
             "are dumped as object graphs before/after and compared with the collector model and with a naive "
             "reachability closure; non-trivial = the trace contains a collection / every collection case; "
             "distinct = distinct case term",
        trusted_base=COMMON_TB + [
            "modelled, not verified: alloc/caolang_alloc.rs (alloc, dealloc, thresholds), RuntimeData::gc / clear "
            "(vm/runtime.rs) as mark-from-roots-and-guards + sweep over an abstract object graph",
            "the verif-hooks event log, heap dump and counters accessors in /repo (cfg feature, additive)"],
        assumptions=[
            "memory the crate takes outside its allocator (Vec of table keys, closure upvalue vectors, the object "
            "list) is not 'accounted' by the property's own definition and is not checked",
            "the object graph handed to the collector model is the one the hook dumps (table entries via iter, "
            "closure upvalues, upvalue cells)",
        ],
    ),
    "C02": dict(
        prop_file="Properties/C02.v",
        check_module="C02Check",
        theorems={t: [] for t in ["C02_gc_preserves_reachable", "C02_mark_sound", "C02_mark_terminates",
                                  "C02_vm_initial_states_closed", "C02_vm_step_keeps_closed",
                                  "C02_vm_run_keeps_closed", "C02_collection_between_instructions",
                                  "C02_collection_after_run", "C02_operands_reachable",
                                  "C02_alloc_point_temporaries_rooted", "C02_collection_with_guards",
                                  "C02_collection_at_alloc_point", "C02_register_upvalue_after_copylast",
                                  "C02_alloc_points_match_step"]},
        n_quick=420, n_thorough=3000,
        gates=["prog=host_table_6", "prog=host_table_13", "prog=host_table_29", "sched=every", "sched=single", "sched=subset", "gc_case", "prog=closures", "prog=stdlib_object_keys",
               "prog=inline_closure", "prog=overwrite_equal_keys", "alloc_points.segments", "alloc_points.grow",
               "alloc_points.observed.AObject", "alloc_points.observed.ASecond", "alloc_points.observed.AGrow"],
        rule="for each program of the library (see C05, plus key functions returning fresh objects): a baseline run, "
             "then runs with a collection forced at every allocation, at each single allocation index (quick: all "
             "when <= 16 allocations, else 16 sampled; thorough: all) and at random subsets; freed objects are "
             "quarantined and poisoned (verif-hooks), the heap is audited after every collection and at the end "
             "(every object reachable from value stack, globals, call-frame closures, open-upvalue list and "
             "guarded objects must be live), outcome and final globals (deep) must equal the baseline; collections "
             "are also dumped as object graphs and compared with the collector model; allocation points "
             "(alloc_points.segments, appended after the schedule cases, the same in both tiers): eight straight-line "
             "programs (StringLiteral, InitTable, SetProperty with fresh / existing / equal keys incl. the growth of "
             "the hash part at the 6th, 9th, 13th entry, AppendTable, NthRow, ForEach, Closure + RegisterUpvalue with "
             "a new and an already open upvalue, FunctionPointer, NativeFunctionPointer, __to_array as a native call "
             "and through a native function value) with a call of the native log1 as a mark between the "
             "instructions of interest; every call of CaoLangAllocator::alloc is recorded (verif-hooks events), "
             "classified by its layout (object header = AObject, character buffer or hash part of capacity 8 = "
             "ASecond, larger hash part = AGrow) and attributed to the segment between two marks; the checker runs "
             "Vm.v over the compiled program and compares per segment with map ap_kind (alloc_points ...) of the "
             "dispatched instructions, equal after removing AGrow points that did not fire (AGrow is conditional in "
             "the model); alloc_points.grow: the sizes and positions of the growth steps of one table against "
             "capacity 8, then * 3 / 2 when count + 1 > 0.7 * capacity, independent of Vm.v; non-trivial = the "
             "program allocates; distinct = distinct case term",
        trusted_base=COMMON_TB + [
            "modelled, not verified: RuntimeData::gc as mark + sweep over an abstract object graph (Gc.v)",
            "the verif-hooks in /repo: forced collections, quarantine + poisoning of freed objects, heap audit, "
            "heap dump (cfg feature, additive); the audit and the outcome comparison are computed natively by the "
            "harness and reported through the checker as schedule cases",
            "allocation-point segments: the classification of an allocation call by its layout (harness), the "
            "allocation events of the verif-hooks, and Vm.v itself (tied to the code by the VM correspondence stream)"],
        assumptions=[
            "that every temporary an instruction or native function holds is rooted at every allocation point "
            "(collections in the MIDDLE of an instruction) is checked by the schedules on the program library, not "
            "proved; proved at the VM level: a collection at any instruction BOUNDARY of any execution keeps "
            "everything reachable from the VM's roots, and every operand of the next instruction is reachable "
            "(VmGcRoots/VmGcClosed/VmGcReach/VmGcLink.v)",
            "the consequences of a use after free in the real address space are not modelled; the audit stops at "
            "the first dangling reference, poisoning makes stale uses change the outcome",
        ],
    ),

    "C11": dict(
        prop_file="Properties/C11.v",
        check_module="C11Check",
        theorems={t: [] for t in ["C11_hash_map_roundtrip", "C11_handle_table_roundtrip", "C11_owned_roundtrip",
                                  "C11_value_roundtrip", "C11_owned_fuel", "C11_owned_fuel_stable",
                                  "C11_insert_keeps_tables",
                                  "C11_nan_key_row_lost"]},
        n_quick=160, n_thorough=1500,
        gates=["hm.Json", "hm.Cbor", "hm.Bincode", "ht.Json", "ht.Cbor", "ht.Bincode", "rt.module.Json",
               "rt.module.Yaml", "rt.program.Json", "rt.program.Cbor", "rt.program.Bincode", "rt.value.Json",
               "rt.value.Cbor", "rt.value.Bincode", "ow.plain", "ow.wild", "ow.table", "module.random",
               "module.random.empty_function", "module.random.submodules"],
        rule="(a) CaoHashMap<i64,i64> and HandleTable<i64> with 0..130 entries (sizes around powers of two and the "
             "load thresholds, some after removals) through JSON / CBOR / bincode: the entries in serialization "
             "order, the size hint the format reports, and the decoded map's iteration order and capacity are "
             "compared with the Coq model of the deserializer, and decoded = original as maps; (b) every program "
             "of the library: source module through JSON and YAML then compiled = compiled original (bytecode, "
             "data, sorted labels / variables / trace); compiled program through JSON / CBOR / bincode: fields "
             "equal and same outcome and globals when run; (b') 60 / 600 random module trees of the module generator "
             "(submodules, imports, closures, functions without cards, real literals with random bits, planted faults): "
             "the same source and compiled-program round trips, fields only (modules with a non-finite real literal "
             "skip the source round trip: A-28); the harness uses serde_json with the float_roundtrip feature iff "
             "every manifest of the repository does (tools/harness_features.py); (c) random values (nil, boundary ints, reals incl. "
             "-0.0 / subnormal / max, unicode and escaped strings, nested ordered tables) VM -> owned -> format -> "
             "owned -> second VM -> owned: deep equal with table order; (d) the same values and 'wild' ones (nil / real / "
             "-0.0 / NaN / repeated keys) as OwnedValue terms: try_from(insert_value(o)) of the crate = the Coq model "
             "(Owned.insert_owned into the empty heap, then owned_of) [code 1]; o of the class owned_ok comes back "
             "bit for bit, and what try_from answered survives the format and the second VM [code 2]; "
             "non-trivial = map cases with > 1 entry, all round-trip cases; distinct = distinct case term",
        trusted_base=COMMON_TB + [
            "serde derive output and the format crates (serde_json, serde_yaml, ciborium, bincode) are treated as "
            "an identity on the serde data model: exercised by the round-trip stream, not modelled",
            "modelled, not verified: collections/hash_map/serde_impl.rs and collections/handle_table/serde_impl.rs "
            "(serialize in slot order; deserialize = with_capacity(power of two from the size hint or 128) + insert)"],
        assumptions=[
            "round trips (b) and (c) are judged natively by the harness (field-wise comparison, run outcome) and "
            "passed through the checker as verdict cases; there is no theorem about program equivalence",
            "the OwnedValue theorems are about the VM model's heap (no allocation failure, no collection during "
            "insert_value) and exclude tables used as keys and NaN keys (C11_nan_key_row_lost shows why)",
            "the program stream is the hand-written library until the random module generator is merged",
        ],
    ),
    "C03": dict(
        prop_file="Properties/C03.v",
        check_module="C03Check",
        theorems={
            "C03_budget_bound": [],
            "C03_run_total": [],
            "C03_timeout_reported": [],
            "C03_budget_monotone": [],
            "C03_sufficient_budgets_agree": [],
            "C03_timeout_reported_run": [],
            "C03_budget_bound_legacy_refuted": [],
            "C03_dispatch_fuel_irrelevant": [],
            "C03_budget_monotone_reentry": [],
            "C03_sufficient_budgets_agree_reentry": [],
        },
        n_quick=200, n_thorough=2000,
        gates=["feature.reentry", "feature.stdlib", "feature.while", "feature.call", "outcome.ETimeout",
               "outcome.ECallStackOverflow", "need.found", "need.timeout_at_generous", "budget.zero",
               "corpus.nested_budget", "corpus.nested_budget_native_value", "corpus.nested_budget_mixed_paths",
               "corpus.nested_budget_sort_value", "corpus.stdlib_key_function_loops", "corpus.infinite_loop",
               "corpus.infinite_recursion"],
        rule="the VM stream (tools/props.py 'VM'): compiled corpus and random programs incl. While(1), unbounded "
             "recursion, re-entrant natives and std.*_by_key with looping key functions, each run with budgets "
             "{20000, need-1, need, need+1, 2*need, random < need, 1, 2, 3, 10^4, sometimes 0} (need = least budget "
             "without Timeout, by bisection); observed: outcome, globals, host log, stack shape and Vm::remaining_iters "
             "after the run; code 1: the model's remaining budget must equal the implementation's (dispatched = N - "
             "remaining compared exactly); code 2 (oracle on the observations alone): remaining <= N, Timeout -> "
             "remaining = 0, Ok -> remaining >= 1, no run ends in a Rust panic (errors are values; e.g. an overflow of the "
             "budget counter in a debug build), and all runs of a program that end with remaining >= 1 agree on "
             "outcome, trace, globals, log, stack shape and number of dispatched instructions; non-trivial = at least one run completes or more than 3 runs; distinct = distinct case term",
        trusted_base=COMMON_TB + [
            "modelled, not verified: vm.rs (_run, run, run_function), vm/instr_execution.rs, stdlib.rs natives, "
            "traits.rs; no GC in the model (1 GiB limit in the harness)",
            "the instruction counter is a ghost field of the model; on the implementation side it is derived from the "
            "public field Vm::remaining_iters (dispatched = max_instr - remaining_iters while no Timeout occurred)",
        ],
        assumptions=[
            "budget_monotone / sufficient_budgets_agree / timeout_reported_run are proved for runs without re-entry "
            "(run_flat) under the hypothesis 'the outcome is not Timeout'; with re-entry a native may swallow a nested "
            "Timeout (try1), so the hypothesis of budget_monotone_reentry / sufficient_budgets_agree_reentry (proved "
            "for `run` with every native of the menu at any nesting depth) is 'the run ends with remaining >= 1', "
            "which is what the code-2 oracle uses too; timeout_reported_run with re-entry is not proved",
            "natives are the fixed menu of Vm.v plus the stdlib natives; an arbitrary host function is outside the theorem",
        ],
    ),
    "C17": dict(
        prop_file="Properties/C17.v",
        check_module="C17Check",
        theorems={
            "C17_clear_is_fresh": [],
            "C17_run_resets_budget": [],
            "C17_run_leaves_no_frames": [],
            "C17_next_run_can_start": [],
            "C17_deterministic": [],
            "C17_stack_ops_agree": [],
            "C17_step_after_clear": [],
            "C17_run_after_clear": [],
            "C17_sim_readable": [],
        },
        n_quick=90, n_thorough=900,
        gates=["step.clear", "step.no_clear", "history.300_steps", "outcome.ETimeout", "outcome.EStackoverflow",
               "outcome.ECallStackOverflow", "outcome.ETaskFailure", "outcome.Ok", "prog.random",
               # histories under a small memory limit: an OutOfMemory step at every kind of allocation site,
               # a clear after an OutOfMemory, the other error kinds in between, sweeps
               "history.limited_memory", "oom.string_header", "oom.string_chars", "oom.table_header",
               "oom.table_storage_initial", "oom.table_storage_growth", "oom.closure", "oom.upvalue",
               "oom.function_object", "oom.native_function_object", "oom.owned_value_string",
               "oom.owned_value_table", "mem.clear_after_OutOfMemory", "mem.step.sweep", "mem.step.insert_value",
               "mem.outcome.ETimeout", "mem.outcome.EStackoverflow", "mem.outcome.ETaskFailure", "mem.outcome.Ok"],
        rule="every third case is a history under a SMALL MEMORY LIMIT (HistMem): one Vm with "
             "runtime_data.set_memory_limit(L), L from 300 bytes to 64 KiB taken from a plan (every allocation "
             "template is first run on new Vms under a ladder of limits with the allocation events recorded, which "
             "gives for every kind of allocation site - string header, string characters, table header, initial "
             "table storage, table storage growth, closure, upvalue, function object, native function object - the "
             "limits at which a run is refused exactly there; history k aims at site k mod 9), 5-18 steps over the "
             "targeted template, other templates, error-path corpus programs (Timeout, stack overflow, call stack "
             "overflow, native error, conversion error) and random modules; a step is a run (budget as below, clear "
             "before it with probability 1/2), a host insertion Vm::insert_value(OwnedValue string / table), or a "
             "sweep (clear, then bisection for the longest string that init_string accepts, clear after every "
             "probe); every history ends with clear + sweep. The model Vm.v has no allocator and no collector, so "
             "for these cases the model comparison (code 1) is SKIPPED; only oracles that are independent of the "
             "model apply (code 2): a step that starts with clear (or is the first) equals the same step on a new Vm "
             "with the same limit (outcome, trace, globals, host log, heights, objects, remaining budget; for an "
             "insertion Ok/OutOfMemory, allocated bytes, live objects); right after every clear (allocated, next_gc, "
             "limit, heights, objects, globals) equal those of a new Vm with that limit; the longest string that "
             "fits after the history equals the longest that fits into a new Vm. The other cases (Hist) are "
             "histories of 4-27 (one in ten: 300) steps on ONE Vm over 1-4 compiled programs (corpus and random "
             "modules): each step = (program, budget in {1..60, 1..400, 20000}, clear before the run with "
             "probability 1/2, run); the host log is emptied before every step; every step is also run on a NEW Vm. "
             "Code 1: the model (state threaded through the history, Vm.clear_state) predicts outcome, trace, "
             "globals, log, stack heights, object count, globals length, remaining budget of the long-lived Vm. "
             "Code 2 (observations only): a step that starts with clear (or the first step) equals the new-Vm step "
             "in all of these; right after clear (allocated, next_gc, heights, objects, globals) equal those of a "
             "new Vm. Non-trivial = at least two different outcome kinds or >= 10 steps; distinct = distinct case term",
        trusted_base=COMMON_TB + [
            "modelled, not verified: vm.rs (run, clear), vm/runtime.rs (RuntimeData::clear), the rest of Vm.v as for VM",
            "allocator counters are read through cao_lang::verif_hooks::alloc_counters; the allocator itself is the "
            "subject of C05 (Alloc.v), not of this model",
        ],
        assumptions=[
            "`run P (clear s) = run P fresh` is proved for the model (C17_run_after_clear: same outcome, final states "
            "equal in everything readable, i.e. up to dead stack slots above the high-water mark of the run) for all "
            "programs, budgets and natives of the menu; the allocator and the collector are not part of that model: "
            "the accounted memory after clear is claimed by the counter / sweep oracles and by C05's allocator model",
            "histories under a small memory limit (runs ending in OutOfMemory, collections) are judged by the "
            "fresh-Vm oracle and the allocator-counter oracle only: the model has no allocator, code 1 is skipped "
            "for them; in the modelled histories the harness gives the VM a 1 GiB limit so that no collection runs",
            "host insertions use OwnedValue strings and tables with integer keys and real values only (a nested "
            "OwnedValue is not rooted by insert_value while the next one is allocated: outside this property)",
            "determinism of the implementation across processes (std::HashMap iteration order in the compiler) is "
            "not probed by this stream",
        ],
    ),
    "C18": dict(
        prop_file="Properties/C18.v",
        check_module="C18Check",
        theorems={
            "C18_native_args_sub2": [],
            "C18_conversion_error_str1": [],
            "C18_native_error_wrapped": [],
            "C18_fail0_is_task_failure": [],
            "C18_native_unknown": [],
            "C18_native_args_str1": [],
            "C18_native_args_nil1": [],
            "C18_native_args_mix3": [],
            "C18_native_args_t4": [],
            "C18_conversion_error_t4": [],
            "C18_reentry_balanced_partial": [],
            "C18_native_wrapper_generic": [],
            "C18_native_args_menu": [],
            "C18_conversion_error_menu": [],
            "C18_native_args_menu_simple": [],
            "C18_native_args_cat2": [],
            "C18_conversion_error_cat2": [],
            "C18_native_args_tab1": [],
            "C18_native_args_log1": [],
            "C18_reentrant_args": [],
            "C18_reentrant_args_call0": [],
            "C18_run_function_enters": [],
            "C18_registry_history": [],
            "C18_registry_answers": [],
            "C18_std_names_rejected": [],
            "C18_std_natives_kept": [],
            "C18_colliding_name_rejected": [],
            "C18_registry_name_stable": [],
            "C18_registration_replaces": [],
            "C18_menu_registry_is_find_native": [],
            "C18_reentry_balanced_straightline": [],
        },
        n_quick=200, n_thorough=2000,
        gates=["feature.native", "feature.native_arity4", "feature.native_value_call", "feature.native_value_reentry", "feature.reentry",
               "outcome.conversion_error", "outcome.ETaskFailure", "outcome.EProcedureNotFound",
               "rb1.callee_ok", "rb1.callee_failed", "reserved_names", "registration_history", "corpus.reentry",
               "corpus.natives"],
        rule="the VM stream with native-heavy programs: natives fail0() / log1(Value) / str1(&str) / nil1(Nilable<i64>) / "
             "tab1(&CaoLangTable) / sub2(i64,i64) / cat2(&str,&str) / mix3(f64,i64,Value) / t4(i64,f64,bool,&str) and the "
             "re-entrant call0 / call1 / try1 / rb1, called through CallNative and through native function values "
             "(DynamicCall, sometimes with a wrong number of arguments), from main and from nested functions / "
             "closures / callbacks, with arguments of every value kind; every native records the converted arguments "
             "it received in the host log (log1 and rb1 also the stack heights). Code 1: model vs implementation on "
             "outcome (TaskFailure name, number of the parameter whose conversion failed), globals, host log, stack "
             "shape, remaining budget. Code 2 (independent of Vm.v): ARGUMENT CONVERSION - the harness registers every "
             "menu native behind a plain wrapper that records the k topmost stack values (the values the script "
             "supplied, parameter 1 deepest) before the typed wrapper of traits.rs converts them, and how the call "
             "ended; every native body records the parameters it received (host-log entries starting with TDeep, "
             "removed before the model comparison). C18Check.conv_spec : param_type -> value -> converted value / "
             "failure is written from the documented conversions of value.rs (i64: integer, real truncated with "
             "saturation and NaN -> 0, nil -> 0, object -> its length; f64 likewise; bool = as_bool; &str only from "
             "strings; &CaoLangTable only from tables; Value = anything; Nilable<T> = None exactly for nil, otherwise "
             "T's conversion). For every recorded invocation: either every conv_spec succeeds and the body received "
             "exactly [conv_spec T_i v_i] in declaration order, or the call ended with InvalidArgument 'Failed to "
             "convert function input #n' with n the first parameter in conversion order (last to first) whose "
             "conv_spec fails, and the body did not run. Also code 2: rb1 entries (heights after a successful "
             "run_function equal the heights before; call depth also after a failed one), reserved names rejected, no "
             "run ends in a Rust panic. REGISTRATION: one fixed history of register_native_function calls on a new VM "
             "after the menu (reserved names, repeated names, a menu name, '_' and '__', and the four ordinary names that "
             "have the handle of __min / __max / __sort / __to_array), then CallNative(name) for a list of probe names, "
             "then a program using std.min / max / sorted / to_array: which registrations were accepted, which "
             "function ran under which name, and whether the library still works as on a VM without the history, "
             "compared with the registry model VmRegistry.v (code 1) and with a by-name specification (code 2: a "
             "library native is never replaced and an accepted registration is callable under its name - names "
             "starting with '__' and the four colliding names are rejected, every other name is accepted; the last "
             "accepted registration of a name wins). "
             "Non-trivial / distinct as for VM",
        trusted_base=COMMON_TB + [
            "modelled, not verified: traits.rs (VmFunction impls), vm/instr_execution.rs (call_native), vm.rs "
            "(run_function), value.rs (TryFrom conversions), the natives registered by harness/src/vmrun.rs",
        ],
        assumptions=[
            "PARTIAL. Argument passing is proved generically for every native of the menu (Vm.all_natives incl. the "
            "library's __min / __max / __sort / __to_array): Vm.native_body = the typed wrapper of traits.rs over the "
            "signature table VmNativeMenu.native_sig with the conversions VmNativeMenu.conv (i64 / f64 / bool / &str / "
            "&CaoLangTable / Value / Nilable<T>), arguments in declaration order, conversion errors last-to-first, k "
            "values consumed, TaskFailure{name}; that the bodies VmNativeMenu.native_fn and the signature table are "
            "the Rust functions registered by vmrun.rs / stdlib.rs is claimed by the correspondence run (host log, "
            "conv_spec oracle) only",
            "re-entrant natives: proved what call1 / try1 / rb1 / call0 hand to run_function and what run_function "
            "hands to the nested _run (entry point, stack, two frames with the offset below the arguments); "
            "reentry_balanced is proved from the point where the callee reaches its Return with the caller's stack "
            "part and frames intact (C18_reentry_balanced_partial), and outright for callees whose body is "
            "straight-line ScalarNil / CopyLast / Pop code that stays above its frame base "
            "(C18_reentry_balanced_straightline); that ALL compiled callee bodies keep them intact (frame discipline) "
            "is claimed by the rb1 oracle only",
            "registration: VmRegistry.v models the table of callables as handle -> (name, function); a registration "
            "under an occupied handle replaces the entry when the names are equal and is rejected otherwise (vm.rs "
            "after d80a79a); HandleTable's own behaviour is C07's; the allocation failure of HandleTable::grow during "
            "a registration is not modelled. Finding N-C18-1 (library natives were protected by NAME only: a name with "
            "the 32-bit FNV-1a handle of a reserved one, 'tuewgsg' vs '__min', was accepted and replaced the library's "
            "native) is repaired by d80a79a: C18_std_natives_kept holds for every history without a hash hypothesis, "
            "C18_colliding_name_rejected; the correspondence run uses one fixed registration history that contains "
            "the four colliding names",
        ],
    ),
    "VM": dict(
        prop_file="Properties/VM.v",
        check_module="VmCheck",
        theorems={
            "VM_run_total": [],
            "VM_run_deterministic": [],
            "VM_budget_bound": [],
            "VM_timeout_reported": [],
            "VM_budget_bound_flat": [],
            "VM_budget_monotone": [],
            "VM_timeout_reported_run": [],
            "VM_step_count_rel": [],
            "VM_budget_bound_legacy_refuted": [],
            "VM_witness_is_cut_off_now": [],
            "VM_dispatch_fuel_irrelevant": [],
        },
        n_quick=200, n_thorough=2000,
        gates=["feature.closure", "feature.reentry", "feature.foreach", "feature.call", "feature.real",
               "outcome.ETimeout", "outcome.ETaskFailure", "outcome.ECallStackOverflow",
               "mode.history", "budget.zero", "need.found"],
        rule="development aid (not a registered property): the crate's own compile output of a hand-written corpus and "
             "of randomly generated card programs (arithmetic, locals/globals, if/while/repeat/for-each, tables, calls, "
             "recursion, dynamic calls, closures, natives incl. re-entry through run_function) is run on the real VM "
             "with budgets {generous, need-1, need, need+1, random, 1, sometimes 0} (need = least budget without "
             "Timeout, found by bisection) on fresh VMs, or repeatedly on one VM; outcome variant with payload fields "
             "and error trace, every global by name as a canonical tree, and the host log are compared with Vm.v; a Rust "
             "panic of the implementation during a run is code 2 whatever the model predicts; "
             "non-trivial = at least one run completes or more than 3 runs; distinct = distinct case term",
        trusted_base=COMMON_TB + [
            "modelled, not verified: vm.rs, vm/instr_execution.rs, vm/runtime.rs (no GC: the harness gives the VM a "
            "1 GiB limit so that no collection runs), cao_lang_table.rs over an abstract map, value.rs, traits.rs",
            "Flocq binary64 (VmFloat.v) is used by the checker only; the theorems are generic in the float instance",
        ],
        assumptions=[
            "theorems about `run_flat` concern runs whose natives do not re-enter the interpreter (VmCheck reports code 5 "
            "if run_flat and run ever disagree on such a run); the budget bound is proved for `run` with re-entry, and "
            "refuted for the budget rule of the pinned tree (`run_legacy`, A-11)",
            "32-bit FNV collisions between unequal table keys, table keys mutated after insertion, UTF-8 validity of "
            "string data and garbage collection are outside the model",
        ],
    ),
}
