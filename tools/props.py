"""Per-property configuration of the checks."""

COMMON_TB = [
    "Coq 8.16.1 kernel (coqc, full .vo compilation); vm_compute is used to evaluate the model on the cases; native_compute is not used",
    "no axioms declared by the development; allowlist per theorem enforced from Print Assumptions on every run",
    "hand-written Gallina model of the anchored Rust code; tied to /repo's working tree by the correspondence run (Rust harness built against /repo, observations evaluated against model and specification inside Coq)",
    "Rust harness (generator, printer of Coq terms), rustc/LLVM, the Python driver tools/checklib.py",
]

PROPS = {
    "C14": dict(
        prop_file="Properties/C14.v",
        check_module="C14Check",
        theorems={
            "C14_value_stack_refines": [],
            "C14_bounded_stack_refines": [],
            "C14_bounded_stack_conservation": [],
            "C14_legacy_pop_refuted": [],
        },
        n_quick=400, n_thorough=6000,
        gates=["vs.saw_full", "vs.pop_on_empty", "bs.saw_full", "vs.cap=1", "bs.cap=0", "vs.cap=big"],
        rule="random operation histories (10-70 ops, some 600) over ValueStack (capacities 1..32 and 256) and "
             "BoundedStack<drop-logging> (capacities 0..40); after every operation the result (and the drop log) is "
             "compared with the Coq model and with the list specification; non-trivial = history uses >= 4 (value "
             "stack) / >= 3 (bounded stack) distinct operation kinds; distinct = distinct case term",
        trusted_base=COMMON_TB + [
            "modelled, not verified: value_stack.rs (push/pop/pop_n/pop_w_offset/set/get/last/peek_last/clear/"
            "clear_until/len/iter/as_slice/top_location) and bounded_stack.rs (push/pop/last/clear/len/iter/"
            "iter_backwards/Drop)"],
        assumptions=[
            "clear_until(h) is only issued with h <= current height (the property's stated precondition)",
            "memory safety of the MaybeUninit storage is not derived from the model beyond slot states and the drop log",
        ],
    ),

    "C12": dict(
        prop_file="Properties/C12.v",
        check_module="C12Check",
        theorems={t: [] for t in [
            "C12_every_history", "C12_get", "C12_insert", "C12_insert_other_keys", "C12_remove",
            "C12_remove_other_keys", "C12_get_mut", "C12_entry", "C12_adjust_capacity", "C12_iter_len",
            "C12_alloc_failure_unchanged", "C12_load_leaves_free_slot"]},
        n_quick=300, n_thorough=4000,
        gates=["hm.grew>2", "hm.removed_present", "hm.alloc_failed", "hm.mode=hint", "hm.mode=hash",
               "hm.zero_hash_key_in_universe", "hm.get_mut_written"],
        rule="random histories (20-300 ops) over CaoHashMap<drop-logging key, drop-logging value, fault-injecting "
             "allocator>: insert / remove / get / contains / get_mut-write / entry(+or_insert_with) / reserve / clear / "
             "clone / len / capacity / iter, initial capacity 0..19, small key universes (collisions, replacement), "
             "keys whose FNV hash is 0, a second mode driving the *_with_hint API with 1-4 distinct hashes "
             "(dense collisions, wrap-around), 1 in 8 allocating operations fails; after every operation result and "
             "drop log are compared with the Coq model and with a reference map + drop accounting; non-trivial = "
             ">= 4 operation kinds and at least one growth; distinct = distinct case term",
        trusted_base=COMMON_TB + [
            "modelled, not verified: collections/hash_map.rs (find_ind, insert_with_hint, grow/adjust_capacity, "
            "remove_with_hint, get/contains/get_mut, entry/or_insert_with, reserve, clear/Drop, clone, iter, hash()) "
            "and the f32 load test as integer round-to-nearest-even (exact for capacity < 2^24)",
            "tools/gen_consts.py regenerates MAX_LOAD, the growth rule and the FNV / fibonacci constants from /repo; "
            "the side conditions (MAX_LOAD < 1 by more than an ulp, growth strictly grows) are re-proved against them"],
        assumptions=[
            "K's Eq is Leibniz equality in the theorems (the correspondence instance uses keys with an instance id "
            "that Eq ignores, only to identify objects in the drop log)",
            "usize is 64 bits; capacities stay below 2^24 (above, `usize as f32` is inexact and the integer model of "
            "the load test is no longer the f32 computation)",
            "exactly-once dropping is checked by the reference-map oracle on the implementation's drop log and "
            "stated per operation in the theorems (drop lists); the global multiset conservation theorem is not proved",
        ],
    ),
}
