"""Per-property configuration of the checks."""

COMMON_TB = [
    "Coq 8.16.1 kernel (coqc, full .vo compilation); vm_compute is used to evaluate the model on the cases; native_compute is not used",
    "no axioms declared by the development; allowlist per theorem enforced from Print Assumptions on every run",
    "hand-written Gallina model of the anchored Rust code; tied to /repo's working tree by the correspondence run (Rust harness built against /repo, observations evaluated against model and specification inside Coq)",
    "Rust harness (generator, printer of Coq terms), rustc/LLVM, the Python driver tools/checklib.py",
]

PROPS = {
    "C14": dict(
        prop_file="Properties/C14.v",
        check_module="C14Check",
        theorems={
            "C14_value_stack_refines": [],
            "C14_bounded_stack_refines": [],
            "C14_bounded_stack_conservation": [],
            "C14_legacy_pop_refuted": [],
        },
        n_quick=400, n_thorough=6000,
        gates=["vs.saw_full", "vs.pop_on_empty", "bs.saw_full", "vs.cap=1", "bs.cap=0", "vs.cap=big"],
        rule="random operation histories (10-70 ops, some 600) over ValueStack (capacities 1..32 and 256) and "
             "BoundedStack<drop-logging> (capacities 0..40); after every operation the result (and the drop log) is "
             "compared with the Coq model and with the list specification; non-trivial = history uses >= 4 (value "
             "stack) / >= 3 (bounded stack) distinct operation kinds; distinct = distinct case term",
        trusted_base=COMMON_TB + [
            "modelled, not verified: value_stack.rs (push/pop/pop_n/pop_w_offset/set/get/last/peek_last/clear/"
            "clear_until/len/iter/as_slice/top_location) and bounded_stack.rs (push/pop/last/clear/len/iter/"
            "iter_backwards/Drop)"],
        assumptions=[
            "clear_until(h) is only issued with h <= current height (the property's stated precondition)",
            "memory safety of the MaybeUninit storage is not derived from the model beyond slot states and the drop log",
        ],
    ),
}
