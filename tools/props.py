"""Per-property configuration of the checks."""

COMMON_TB = [
    "Coq 8.16.1 kernel (coqc, full .vo compilation); vm_compute is used to evaluate the model on the cases; native_compute is not used",
    "no axioms declared by the development; allowlist per theorem enforced from Print Assumptions on every run",
    "hand-written Gallina model of the anchored Rust code; tied to /repo's working tree by the correspondence run (Rust harness built against /repo, observations evaluated against model and specification inside Coq)",
    "Rust harness (generator, printer of Coq terms), rustc/LLVM, the Python driver tools/checklib.py",
]

PROPS = {
    "C10": dict(
        prop_file="Properties/C10.v",
        check_module="C10Check",
        theorems={
            "C10_decode_encode": [],
            "C10_wf_check_sound": [],
            "C10_wf_check_gen_sound": [],
            "C10_trace_complete_check_sound": [],
            "C10_span_table_vs_vm": [],
            "C10_compile_wellformed_partial": [],
            "C10_compile_wellformed_partial_strong": [],
            "C10_A23_legacy_window_refuted": [],
            "C10_A24_repaired": [],
        },
        n_quick=320, n_thorough=4000,
        gates=["obs.ok", "obs.panic", "obs.err.EInvalidJump", "obs.err.EDuplicateName", "obs.err.EEmptyVariable",
               "obs.err.ERecursionLimitReached", "card.closure.nested", "card.foreach", "card.repeat", "card.while",
               "card.array", "import.super", "import.module", "import.std", "main.not_first", "module.submodules",
               "str.len>252", "str.unicode", "disasm.compared", "globals.17+", "corpus.a23", "corpus.a24", "corpus.huge_upvalues",
               "corpus.globals17", "obs.err.ETooManyLocals", "obs.err.EBadImport", "obs.err.EAmbigousImport", "obs.err.ENoMain",
               "obs.err.EDuplicateModule", "obs.err.EBadFunctionName"],
        rule="random modules (all 43 card kinds, nesting depth <= 4 (6), 0-4 functions per module, submodule trees of "
             "depth <= 3 with function / module / std / super imports, closures with upvalues, globals and locals, "
             "string literals up to 1000 bytes, planted faults: bad names, bad imports, empty variables, missing main, "
             "duplicate names, too many `super.`, > 255 locals, > 255 upvalues) compiled by the crate inside catch_unwind "
             "with recursion limits 0..4 and 64; the model's compile must return the same bytecode, data, sorted labels, "
             "variables (ids, names) and sorted trace, or the same error variant + fields + location, or Panic; wf_check "
             "(proved sound) is run on the crate's output; non-trivial = module with >= 3 cards; distinct = distinct case term",
        trusted_base=COMMON_TB + [
            "modelled, not verified: compiler.rs, compiler/module.rs (into_ir_stream .. is_name_valid), function_ir.rs, "
            "instruction.rs, bytecode.rs, compiled_program.rs; stdlib.rs enters as the generated term StdlibGen.std_module "
            "(printed by the harness from cao_lang::stdlib::standard_library() on every run); the instruction table "
            "CompilerGen.gen_span_table is parsed from instruction.rs on every run and compared with Bytecode.span_table",
            "operand widths of the decoder are the VM's decode_value::<T> calls, transcribed by hand (vm.rs, vm/instr_execution.rs)",
            "labels / variables / trace are compared as key-sorted association lists; slot order of the hash tables is not modelled"],
        assumptions=[
            "function names are ASCII (is_name_valid uses the Unicode-aware char::is_alphanumeric); other cases are reported as code 3",
            "programs with more than 16 distinct globals are generated unless VERIF_C10_MANY_GLOBALS=0 (before the fix of "
            "HandleTable::entry, A-5, the 17th global made compile hang; a hang is observed through the harness watchdog, exit code 42)",
            "bytecode shorter than 2^31 bytes, fewer than 2^32 cards per function",
        ],
    ),
    "C14": dict(
        prop_file="Properties/C14.v",
        check_module="C14Check",
        theorems={
            "C14_value_stack_refines": [],
            "C14_bounded_stack_refines": [],
            "C14_bounded_stack_conservation": [],
            "C14_legacy_pop_refuted": [],
        },
        n_quick=400, n_thorough=6000,
        gates=["vs.saw_full", "vs.pop_on_empty", "bs.saw_full", "vs.cap=1", "bs.cap=0", "vs.cap=big"],
        rule="random operation histories (10-70 ops, some 600) over ValueStack (capacities 1..32 and 256) and "
             "BoundedStack<drop-logging> (capacities 0..40); after every operation the result (and the drop log) is "
             "compared with the Coq model and with the list specification; non-trivial = history uses >= 4 (value "
             "stack) / >= 3 (bounded stack) distinct operation kinds; distinct = distinct case term",
        trusted_base=COMMON_TB + [
            "modelled, not verified: value_stack.rs (push/pop/pop_n/pop_w_offset/set/get/last/peek_last/clear/"
            "clear_until/len/iter/as_slice/top_location) and bounded_stack.rs (push/pop/last/clear/len/iter/"
            "iter_backwards/Drop)"],
        assumptions=[
            "clear_until(h) is only issued with h <= current height (the property's stated precondition)",
            "memory safety of the MaybeUninit storage is not derived from the model beyond slot states and the drop log",
        ],
    ),
}
