"""Per-property configuration of the checks."""

COMMON_TB = [
    "Coq 8.16.1 kernel (coqc, full .vo compilation); vm_compute is used to evaluate the model on the cases; native_compute is not used",
    "no axioms declared by the development; allowlist per theorem enforced from Print Assumptions on every run",
    "hand-written Gallina model of the anchored Rust code; tied to /repo's working tree by the correspondence run (Rust harness built against /repo, observations evaluated against model and specification inside Coq)",
    "Rust harness (generator, printer of Coq terms), rustc/LLVM, the Python driver tools/checklib.py",
]

PROPS = {
    "C14": dict(
        prop_file="Properties/C14.v",
        check_module="C14Check",
        theorems={
            "C14_value_stack_refines": [],
            "C14_bounded_stack_refines": [],
            "C14_bounded_stack_conservation": [],
            "C14_legacy_pop_refuted": [],
        },
        n_quick=400, n_thorough=6000,
        gates=["vs.saw_full", "vs.pop_on_empty", "bs.saw_full", "vs.cap=1", "bs.cap=0", "vs.cap=big"],
        rule="random operation histories (10-70 ops, some 600) over ValueStack (capacities 1..32 and 256) and "
             "BoundedStack<drop-logging> (capacities 0..40); after every operation the result (and the drop log) is "
             "compared with the Coq model and with the list specification; non-trivial = history uses >= 4 (value "
             "stack) / >= 3 (bounded stack) distinct operation kinds; distinct = distinct case term",
        trusted_base=COMMON_TB + [
            "modelled, not verified: value_stack.rs (push/pop/pop_n/pop_w_offset/set/get/last/peek_last/clear/"
            "clear_until/len/iter/as_slice/top_location) and bounded_stack.rs (push/pop/last/clear/len/iter/"
            "iter_backwards/Drop)"],
        assumptions=[
            "clear_until(h) is only issued with h <= current height (the property's stated precondition)",
            "memory safety of the MaybeUninit storage is not derived from the model beyond slot states and the drop log",
        ],
    ),
    "C16": dict(
        prop_file="Properties/C16.v",
        check_module="C16Check",
        theorems={
            "C16_children_agree": [],
            "C16_abstraction_injective": [],
            "C16_get_card_mut_refines": [],
            "C16_replace_card_refines": [],
            "C16_remove_card_refines": [],
            "C16_insert_card_refines": [],
            "C16_get_card_refines": [],
            "C16_step_refines_partial": [],
            "C16_replace_back": [],
            "C16_swap_fail_unchanged": [],
            "C16_failed_edit_unchanged": [],
            "C16_walk_complete_unique_partial": [],
            "C16_visit_children_unfold": [],
            "C16_swap_same_refuted": [],
            "C16_call_insert_refuted": [],
            "C16_get_depth_refuted": [],
            "C16_remove_insert_fixed_refuted": [],
        },
        n_quick=150, n_thorough=1500,
        gates=["kinds.all43", "op.get", "op.get_mut", "op.insert", "op.remove", "op.replace", "op.swap", "op.walk",
               "op.kids", "op.replace_child", "err.CardNotFound", "err.FunctionNotFound", "err.InvalidIndex",
               "err.ChildErr", "swap.InvalidSwap", "swap.FetchError", "known.swap_same", "known.call_insert",
               "known.get_depth", "random"],
        rule="bounded-exhaustive: each of the 43 card kinds (list kinds with 0-3 children) x every child index "
             "0..arity+1 x {kids, get, get_mut, replace+replace back, insert, remove, swap twice with a card of the "
             "same and of another function, swap with the own ancestor in both orders, replace_child, walk, swap "
             "with itself}, once as a top-level card and once nested in a host card; malformed indices (empty, "
             "function out of range, card out of range); plus n random modules (depth <= 4, thorough <= 6) with "
             "random histories of 8-16 calls on valid, perturbed and invalid indices. After every call the result "
             "(incl. error variant and depth) and the whole module are compared with the kind-by-kind model and "
             "with the rose-tree specification. Calls that fall into a known-finding class are issued as cases of "
             "their own. non-trivial = history uses >= 3 operation kinds or contains a failing call; distinct = "
             "distinct case term",
        trusted_base=COMMON_TB + [
            "modelled, not verified: card.rs num_children/iter_children/get_child/get_child_mut/remove_child/"
            "insert_child/replace_child and module.rs CardIndex::cmp, get_card/get_card_mut/remove_card/"
            "replace_card/insert_card/swap_cards/walk_cards(_mut)/visit_children; the abstraction to_rose "
            "(which children a card has, in which order) is part of the specification",
            "the harness printer from cao_lang::compiler::{Card, Module} to CardAst terms (harness/src/c16.rs)",
            "wasm/src/lib.rs forwards to the same five functions; read, not modelled, not built"],
        assumptions=[
            "CardId (random, skipped by serde) is not modelled or compared",
            "indices are u32 in the implementation and nat in the model; the harness only issues small indices",
            "after a caught panic the module is not compared further (no panic occurs on the pinned tree; "
            "the model proves the unwraps and slice operations of the modelled paths cannot fail)",
        ],
    ),
}
