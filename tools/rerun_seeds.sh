#!/bin/bash
# Re-applies every stored seeded change to a scratch worktree of /repo HEAD and runs the check of the
# property it breaks against that checkout (VERIF_REPO); prints one line per seed.  Development aid.
# usage: tools/rerun_seeds.sh [seed-id ...]
set -u
cd "$(dirname "$0")/.."
ids=("$@"); [ ${#ids[@]} -eq 0 ] && ids=($(ls seeded))
mkdir -p /tmp/seedrerun
for id in "${ids[@]}"; do
  prop=${id%-*}
  wt=/tmp/seedrerun/$id
  rm -rf "$wt"; git -C /repo worktree prune
  git -C /repo worktree add -q --detach "$wt" HEAD || { echo "$id: cannot create worktree"; continue; }
  if ! git -C "$wt" apply "$PWD/seeded/$id/patch.diff" 2>/dev/null; then
    if ! git -C "$wt" apply -3 "$PWD/seeded/$id/patch.diff" 2>/dev/null; then
      echo "$id: PATCH DOES NOT APPLY to $(git -C /repo rev-parse --short HEAD)"; git -C /repo worktree remove --force "$wt"; continue
    fi
  fi
  out=$(VERIF_REPO="$wt" ./check "$prop" --tier quick 2>&1 | grep -v "^KNOWN" | tail -3 | cut -c1-160 | tr '\n' ' ')
  echo "$id: $out"
  git -C /repo worktree remove --force "$wt"
done
rm -rf /tmp/seedrerun; git -C /repo worktree prune
