#!/usr/bin/env python3
"""usage: store_seed.py <prop> <srcdir> <needs text> <caught-by text>  - copies a verified seeded change into seeded/"""
import json, os, shutil, sys
prop, src, needs, caught = sys.argv[1:5]
root = os.path.dirname(os.path.dirname(os.path.abspath(__file__)))
n = 1
while os.path.exists(os.path.join(root, "seeded", "%s-%d" % (prop, n))):
    n += 1
d = os.path.join(root, "seeded", "%s-%d" % (prop, n))
os.makedirs(d)
shutil.copy(os.path.join(src, "SEEDED_PATCH.diff"), os.path.join(d, "patch.diff"))
shutil.copy(os.path.join(src, "cao-lang/tests/seeded_demo.rs"), os.path.join(d, "seeded_demo.rs"))
if os.path.exists(os.path.join(src, "SEEDED_NOTES.md")):
    shutil.copy(os.path.join(src, "SEEDED_NOTES.md"), os.path.join(d, "notes.md"))
log = "/tmp/seedcheck/%s.log" % prop
ran = open(log).read()[-6000:] if os.path.exists(log) else ""
json.dump({
    "property": prop,
    "breaks": prop,
    "needs_to_manifest": needs,
    "origin": "independent sub-agent given only the property text and a scratch worktree of /repo",
    "confirmed": "tools/verify_seed.sh: fresh worktree of /repo HEAD, patch applied: the existing suite passes, "
                 "cao-lang/tests/seeded_demo.rs fails; patch reverted: the demo passes",
    "check_result": caught,
    "how_to_rerun": "git -C /repo apply seeded/%s-%d/patch.diff; ./check %s --tier quick; git -C /repo checkout -- ." % (prop, n, prop),
    "verification_log_tail": ran,
}, open(os.path.join(d, "meta.json"), "w"), indent=1)
print(d)
