#!/usr/bin/env python3
"""resolve merge markers in coq/_CoqProject by keeping both sides, deduplicated, theories before Properties"""
import re, os
p=os.path.join(os.path.dirname(os.path.dirname(os.path.abspath(__file__))),'coq','_CoqProject')
s=open(p).read()
s=re.sub(r"<<<<<<< [^\n]*\n(.*?)=======\n(.*?)>>>>>>> [^\n]*\n", lambda m: m.group(1)+m.group(2), s, flags=re.S)
seen=set(); out=[]
for l in s.split("\n"):
    if l.startswith("theories/") or l.startswith("Properties/"):
        if l in seen: continue
        seen.add(l)
    out.append(l)
head=[l for l in out if l.strip() and not (l.startswith("theories/") or l.startswith("Properties/"))]
th=[l for l in out if l.startswith("theories/")]
pr=[l for l in out if l.startswith("Properties/")]
open(p,'w').write("\n".join(head+th+pr)+"\n")
