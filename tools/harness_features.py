#!/usr/bin/env python3
"""Prints the cargo arguments that make the harness use the JSON parser the repository's own crates are configured
with: `--features json-float-roundtrip` iff every serde_json dependency declared in the repository's manifests enables
serde_json's `float_roundtrip` feature (exact parsing of reals; the default parser may be one ULP off, which changes a
real literal of a module on its way through JSON - finding N-C11-1).  The harness is a separate build graph, so the
feature has to be mirrored; it is read from the manifests on every run."""
import os, re, sys

def repo_enables_float_roundtrip(repo):
    found = 0
    for d in ("cao-lang", "c", "py", "wasm", "disassembler"):
        p = os.path.join(repo, d, "Cargo.toml")
        if not os.path.exists(p):
            continue
        src = open(p).read()
        # inline form: serde_json = "..." | serde_json = { ... }
        for m in re.finditer(r"^serde_json\s*=\s*(.*)$", src, re.M):
            found += 1
            if "float_roundtrip" not in m.group(1):
                return False
        # table form: [dependencies.serde_json] / [dev-dependencies.serde_json]
        for m in re.finditer(r"^\[[\w.-]*dependencies\.serde_json\]\s*\n((?:(?!\[).*\n?)*)", src, re.M):
            found += 1
            if "float_roundtrip" not in m.group(1):
                return False
    return found > 0

def args(repo=None):
    repo = repo or os.environ.get("VERIF_REPO", "/repo")
    return ["--features", "json-float-roundtrip"] if repo_enables_float_roundtrip(repo) else []

if __name__ == "__main__":
    print(" ".join(args()))
