#!/bin/sh
# Development loop of the VM model: generate cases with the harness and evaluate every shard with coqc.
# usage: tools/vm_dev.sh SEED N [debug|release]
set -e
ROOT="$(cd "$(dirname "$0")/.." && pwd)"
SEED="${1:-1}"; N="${2:-200}"; PROFILE="${3:-debug}"
OUT="$ROOT/work/VM/$PROFILE-$SEED"
rm -rf "$OUT"; mkdir -p "$OUT"
"$ROOT/harness/target/$PROFILE/cao-verif-harness" gen VM --seed "$SEED" --n "$N" --out "$OUT"
cd "$OUT"
ls cases_*.v | xargs -P 16 -I{} sh -c 'timeout 1500 coqc -noglob -Q "$0/coq/theories" Cao {} > {}.out 2>&1 || echo "FAILED {}" >> {}.out' "$ROOT"
bad=0
for f in cases_*.v.out; do
  if ! grep -q "= \[\]" "$f"; then bad=1; echo "== $f"; head -c 1500 "$f"; echo; fi
done
[ $bad = 0 ] && echo "VM seed=$SEED n=$N profile=$PROFILE: all shards agree"
