#!/usr/bin/env python3
"""Development aid for C06: shrink a module while two builds of the harness OBSERVE DIFFERENT RUNS
(e.g. /repo against the checkout VERIF_REPO points to).  No Coq in the loop: the final module is
then judged once by `cao-verif-harness c06-case` + coqc.

  c06_reduce.py <module.json> <out.json> [harness_a] [harness_b]
"""
import json, os, re, subprocess, sys
sys.path.insert(0, os.path.dirname(os.path.abspath(__file__)))
import c01_reduce as R

ROOT = R.ROOT
A = sys.argv[3] if len(sys.argv) > 3 else os.path.join(ROOT, "harness", "target", "debug", "cao-verif-harness")
B = sys.argv[4] if len(sys.argv) > 4 else os.path.join(ROOT, "harness", "target-alt", "debug", "cao-verif-harness")
HOST = "log1,add2,fail0,call1"


def obs(h, p):
    r = subprocess.run([h, "c01-obs", p, HOST], stdout=subprocess.PIPE, stderr=subprocess.PIPE, text=True, timeout=60,
                       env=dict(os.environ, VERIF_MAX_ITER="60000"))
    if r.returncode != 0:
        return None
    cls, _, o = r.stdout.partition("\n")
    # the checker drops globals that hold nil (never assigned and nil look the same to the host)
    o = re.sub(r"\(\[[^\]]*\], trnil\);? ?", "", o.strip())
    return cls, o


def pred(m):
    p = os.path.join(R.tmpdir(), "m.json")
    json.dump(m, open(p, "w"))
    a, b = obs(A, p), obs(B, p)
    return a is not None and b is not None and b[0] == "ok" and a[1] != b[1]


def card_lists(node, acc):
    """every python list whose elements are cards (function / closure / composite bodies, arguments)"""
    if isinstance(node, dict):
        for v in node.values():
            card_lists(v, acc)
    elif isinstance(node, list):
        if node and all(R.looks_like_card(x) for x in node):
            acc.append(node)
        for v in node:
            card_lists(v, acc)


def ddmin_lists(m):
    """remove contiguous chunks of cards, biggest first, in place"""
    changed = False
    acc = []
    card_lists(m, acc)
    acc.sort(key=lambda l: -len(json.dumps(l)))
    for L in acc:
        chunk = max(1, len(L) // 2)
        while chunk >= 1 and L:
            start = 0
            while start < len(L):
                saved = L[start:start + chunk]
                del L[start:start + chunk]
                if pred(m):
                    changed = True
                    print("size", R.size(m), flush=True)
                else:
                    L[start:start] = saved
                    start += chunk
            chunk //= 2
    return changed


def drop_functions(m):
    changed = False
    def mods(mod):
        yield mod
        for _, sm in mod["submodules"]:
            yield from mods(sm)
    for mod in list(mods(m)):
        for key in ("functions", "submodules", "imports"):
            i = 0
            while i < len(mod[key]):
                if key == "functions" and mod[key][i][0] == "main" and mod is m:
                    i += 1
                    continue
                saved = mod[key][i]
                del mod[key][i]
                if pred(m):
                    changed = True
                    print("size", R.size(m), flush=True)
                else:
                    mod[key].insert(i, saved)
                    i += 1
    return changed


def main():
    src, dst = sys.argv[1:3]
    m = json.load(open(src))
    R.strip_ids(m)
    assert pred(m), "the two builds agree on the input"
    while True:
        a = ddmin_lists(m)
        b = drop_functions(m)
        json.dump(m, open(dst, "w"), indent=1)
        if not (a or b):
            break
    # polish: replace cards by their children / by 0 (generic candidates of c01_reduce)
    progress = True
    while progress and R.size(m) < 12000:
        progress = False
        for c in R.candidates(m):
            if R.size(c) < R.size(m) and pred(c):
                m = c
                progress = True
                print("size", R.size(m), flush=True)
                break
        json.dump(m, open(dst, "w"), indent=1)
    json.dump(m, open(dst, "w"), indent=1)


if __name__ == "__main__":
    main()
