(* C18 - host functions receive the right arguments and can safely re-enter scripts.  PARTIAL.
   Statements only; proofs are in Cao.VmProofs, Cao.VmNativeProofs, Cao.VmNativeMenuProofs, Cao.VmRegistryProofs
   (model Cao.Vm: traits.rs wrappers = peek k arguments, convert last-to-first, call, pop_n::<k>; call_native;
   run_function.  Cao.VmNativeMenu: the signature table [native_sig], the conversions [conv] = TryFrom<Value> for
   i64 / f64 / bool / &str / &CaoLangTable / Value / Nilable<T>, the host functions [native_fn] as functions of the
   parameters they receive.  Cao.VmRegistry: register_native_function / _register_native_function /
   register_native_stdlib on the table of callables).
   Proved for the model:
   * GENERIC, for EVERY native n of the menu (Vm.all_natives: log1 sub2 fail0 str1 mix3 call1 try1 call0 t4 nil1 tab1
     cat2 rb1 and the library's __min __max __sort __to_array), arity k = 0..4, stack  l ++ [v1..vk]:
     Vm.native_body n IS the typed wrapper of traits.rs over the signature table (C18_native_wrapper_generic);
     if every conversion succeeds the function is called with (conv T1 v1 .. conv Tk vk) in declaration order, then
     exactly k values are popped and the result pushed / the error wrapped as TaskFailure{name}
     (C18_native_args_menu); if a conversion fails the error names the LAST parameter that fails (conversion is
     last-to-first), the function does not run and all k arguments are consumed (C18_conversion_error_menu); for
     the natives that do not re-enter the VM the result, the log entry and the whole final state
     (C18_native_args_menu_simple).  The per-native theorems below (sub2, str1, nil1, mix3, t4, and the new cat2,
     tab1, log1) are instances.
   * re-entrant natives: call1 / try1 / rb1 hand run_function the callee they received, on the stack
     l ++ [f; x; x] (C18_reentrant_args), call0 on the unchanged stack (C18_reentrant_args_call0); run_function on
     a script function / closure enters the nested `_run` at the callee's label with two frames whose offset is
     the height below the arguments (C18_run_function_enters).
   * error wrapping as TaskFailure{registered name} for every native (C18_native_error_wrapped), unknown names;
     run_function restores the caller's stack and frames once the callee reaches its Return with them intact
     (C18_reentry_balanced_partial); for a RESTRICTED class of callees - body = straight-line ScalarNil / CopyLast /
     Pop that never pops below its frame base, then Return - the callee provably gets there, so run_function is
     balanced outright (C18_reentry_balanced_straightline).
   * registration (model of vm.rs after d80a79a): the table after ANY history of public registrations = per handle
     the last registration answered Ok(()) (C18_registry_history); a registration is rejected exactly when the name
     starts with "__" or its handle is held by an entry registered under another name (C18_registry_answers,
     C18_std_names_rejected); the name under a handle never changes (C18_registry_name_stable); the same name
     replaces name and function, another name with the same handle is rejected and changes nothing
     (C18_registration_replaces); after ANY history on a new VM the four library natives are still registered under
     their own names with their own functions - no hypothesis on hashes (C18_std_natives_kept).  Finding N-C18-1
     (the reservation was by name, the table keyed by the 32-bit FNV-1a hash: "tuewgsg" has the handle of "__min",
     was accepted and replaced the library's native) is REPAIRED by d80a79a: the colliding names are rejected at
     any point of any history (C18_colliding_name_rejected; `cao-verif-harness c18-witness` shows the rejection on
     the crate).  Vm::new + the registrations of the harness give exactly the lookup Vm.find_native that
     call_native uses (C18_menu_registry_is_find_native).
   Witnesses (hypotheses satisfiable, concrete runs): Cao.VmNativeMenuWitness.
   NOT proved, claimed by the correspondence run only: the missing half of reentry_balanced for callees outside that
   class (the body of ANY compiled callee keeps the caller's part of the stack and the frames below its own intact
   up to its Return: frame discipline of compiled code; checked by the rb1 oracle, code 2); that the bodies [native_fn] / the menu are the Rust functions
   of vmrun.rs / stdlib.rs (code 1 on the host log, conv_spec oracle code 2 on the recorded invocations); the
   allocation failure of HandleTable::grow during a registration is outside the registry model. *)
From Coq Require Import NArith ZArith List Lia.
From Cao Require Import Stacks Bits Vm VmProofs VmNativeProofs VmNativeMenu VmNativeMenuProofs VmRegistry VmRegistryProofs VmReentryPushes.
Import ListNotations.

(* sub2(a: i64, b: i64) called with the stack l ++ [v1; v2]: a = conv v1 (declared first), b = conv v2; exactly
   two values are consumed, the result is pushed, frames / globals / heap are untouched *)
Theorem C18_native_args_sub2 : forall F P re fuel s l v1 v2 a b,
  stack_ok s -> stack_of s = l ++ [v1; v2] ->
  to_i64 F (st_heap s) v1 = Some a -> to_i64 F (st_heap s) v2 = Some b ->
  exists s',
    call_native_fuel F P re (S fuel) (handle_of_bytes name_sub2) s = NOk (VInt (wrap_i64 (a - b))) s' /\
    stack_of s' = l ++ [VInt (wrap_i64 (a - b))] /\
    st_log s' = st_log s ++ [[TInt a; TInt b]] /\
    st_calls s' = st_calls s /\ st_globals s' = st_globals s /\ st_heap s' = st_heap s.
Proof. exact native_args_sub2. Qed.
Print Assumptions C18_native_args_sub2.

(* str1(s: &str) called with a non-string: InvalidArgument naming parameter 1, wrapped as TaskFailure{"str1"};
   the argument is consumed *)
Theorem C18_conversion_error_str1 : forall F P re fuel s l v,
  stack_ok s -> stack_of s = l ++ [v] -> as_str (st_heap s) v = SNot ->
  exists s',
    call_native_fuel F P re (S fuel) (handle_of_bytes name_str1) s
      = NErr (ETaskFailure name_str1 (EConversion 1)) s' /\
    stack_of s' = l /\ st_calls s' = st_calls s /\ st_globals s' = st_globals s /\ st_heap s' = st_heap s /\
    st_log s' = st_log s.
Proof. exact native_conversion_error_str1. Qed.
Print Assumptions C18_conversion_error_str1.

(* an error returned by any native of the menu surfaces as TaskFailure carrying the registered name *)
Theorem C18_native_error_wrapped : forall F P re fuel h n s e s1,
  find_native h all_natives = Some n ->
  native_body F P re (call_native_fuel F P re fuel) n s = NErr e s1 ->
  call_native_fuel F P re (S fuel) h s = NErr (ETaskFailure (native_name n) e) (spop_n s1 (native_arity n)).
Proof. exact native_error_wrapped. Qed.
Print Assumptions C18_native_error_wrapped.

Theorem C18_fail0_is_task_failure : forall F P re fuel s,
  call_native_fuel F P re (S fuel) (handle_of_bytes name_fail0) s = NErr (ETaskFailure name_fail0 EUnimplemented) s.
Proof. exact fail0_is_task_failure. Qed.
Print Assumptions C18_fail0_is_task_failure.

(* a name that is not registered: ProcedureNotFound, state untouched *)
Theorem C18_native_unknown : forall F P re fuel h s,
  find_native h all_natives = None ->
  call_native_fuel F P re (S fuel) h s = NErr (EProcedureNotFound h) s.
Proof. exact native_unknown. Qed.
Print Assumptions C18_native_unknown.

(* arity 1, &str: the string is received as it is, its argument is consumed, the result pushed *)
Theorem C18_native_args_str1 : forall F P re fuel s l v b,
  stack_ok s -> stack_of s = l ++ [v] -> as_str (st_heap s) v = SIs b ->
  exists s',
    call_native_fuel F P re (S fuel) (handle_of_bytes name_str1) s = NOk (VInt (Z.of_nat (length b))) s' /\
    stack_of s' = l ++ [VInt (Z.of_nat (length b))] /\
    st_log s' = st_log s ++ [[TStr b]] /\
    st_calls s' = st_calls s /\ st_globals s' = st_globals s /\ st_heap s' = st_heap s.
Proof. exact native_args_str1. Qed.
Print Assumptions C18_native_args_str1.

(* arity 1, Nilable<i64>: nil1 logs what it received (TNil for None, TInt i for Some i) and returns -1 / i.
   None exactly for nil; any other value goes through the i64 conversion *)
Theorem C18_native_args_nil1 : forall F P re fuel s l v,
  stack_ok s -> stack_of s = l ++ [v] ->
  (v = VNil \/ exists i, v <> VNil /\ to_i64 F (st_heap s) v = Some i) ->
  exists s' res entry,
    call_native_fuel F P re (S fuel) (handle_of_bytes name_nil1) s = NOk res s' /\
    stack_of s' = l ++ [res] /\
    st_log s' = st_log s ++ [[entry]] /\
    (v = VNil -> res = VInt (-1) /\ entry = TNil) /\
    (forall i, v <> VNil -> to_i64 F (st_heap s) v = Some i -> res = VInt i /\ entry = TInt i) /\
    st_calls s' = st_calls s /\ st_globals s' = st_globals s /\ st_heap s' = st_heap s.
Proof. exact native_args_nil1. Qed.
Print Assumptions C18_native_args_nil1.

(* arity 3: mix3(a: f64, b: i64, c: Value) with the stack l ++ [v1; v2; v3] *)
Theorem C18_native_args_mix3 : forall F P re fuel s l v1 v2 v3 a b,
  stack_ok s -> stack_of s = l ++ [v1; v2; v3] ->
  to_f64 F (st_heap s) v1 = Some a -> to_i64 F (st_heap s) v2 = Some b ->
  exists s',
    call_native_fuel F P re (S fuel) (handle_of_bytes name_mix3) s = NOk VNil s' /\
    stack_of s' = l ++ [VNil] /\
    st_log s' = st_log s ++ [[TReal (canon_real F a); TInt b; tree_of F (st_heap s) v3]] /\
    st_calls s' = st_calls s /\ st_globals s' = st_globals s /\ st_heap s' = st_heap s.
Proof. exact native_args_mix3. Qed.
Print Assumptions C18_native_args_mix3.

(* arity 4: t4(a: i64, b: f64, c: bool, d: &str) with the stack l ++ [v1; v2; v3; v4] *)
Theorem C18_native_args_t4 : forall F P re fuel s l v1 v2 v3 v4 a b c d,
  stack_ok s -> stack_of s = l ++ [v1; v2; v3; v4] ->
  to_i64 F (st_heap s) v1 = Some a -> to_f64 F (st_heap s) v2 = Some b ->
  as_bool F (st_heap s) v3 = Some c -> as_str (st_heap s) v4 = SIs d ->
  exists s',
    call_native_fuel F P re (S fuel) (handle_of_bytes name_t4) s = NOk VNil s' /\
    stack_of s' = l ++ [VNil] /\
    st_log s' = st_log s ++ [[TInt a; TReal (canon_real F b); TInt (if c then 1 else 0); TStr d]] /\
    st_calls s' = st_calls s /\ st_globals s' = st_globals s /\ st_heap s' = st_heap s.
Proof. exact native_args_t4. Qed.
Print Assumptions C18_native_args_t4.

(* arity 4, the last parameter is converted first: a non-string there is InvalidArgument naming parameter 4
   whatever the other three are; all four arguments are consumed, the body does not run *)
Theorem C18_conversion_error_t4 : forall F P re fuel s l v1 v2 v3 v4,
  stack_ok s -> stack_of s = l ++ [v1; v2; v3; v4] -> as_str (st_heap s) v4 = SNot ->
  exists s',
    call_native_fuel F P re (S fuel) (handle_of_bytes name_t4) s
      = NErr (ETaskFailure name_t4 (EConversion 4)) s' /\
    stack_of s' = l /\ st_calls s' = st_calls s /\ st_globals s' = st_globals s /\ st_heap s' = st_heap s /\
    st_log s' = st_log s.
Proof. exact native_conversion_error_t4. Qed.
Print Assumptions C18_conversion_error_t4.

(* reentry_balanced, PARTIAL. A host function calls run_function on a script function / closure of arity |args|
   with the stack  l ++ args  (the values it pushed on top of its caller's l). If the nested `_run` (the real
   dispatch loop [loop], with any nesting [re0] below it) reaches the callee's Return at [ipr] in a state [x] in
   which the two trap frames and the caller's frames are still in place and the caller's part  l  of the value
   stack is unchanged, then run_function hands back the callee's return value and leaves exactly  l  on the value
   stack (the caller's locals are slots of l) and exactly the caller's frames on the call stack.
   MISSING for the full statement: that the body of a compiled callee keeps  l  and the frames below its own
   intact up to its Return (no instruction of a compiled function pops below its frame offset): it needs the
   compiler's invariants and a per-instruction analysis; the rb1 oracle of C18Check.v checks it on every run. *)
Theorem C18_reentry_balanced_partial :
  forall F bld P re0 cn (a : N) (s : state) (l args : list value) h ar ups (is_clo : bool) src fuel1 fuel2 ipr
         (x : state),
  let re := fun ip st => loop F bld P re0 fuel1 ip st in
  let f := mkFrame src (last_pos P) (N.of_nat (length l)) (if is_clo then Some a else None) in
  stack_ok s -> stack_of s = l ++ args -> length args = N.to_nat ar ->
  hget (st_heap s) a = Some (callee_obj is_clo h ar ups) ->
  assoc h (p_labels P) = Some src ->
  S (length (st_calls s)) < call_stack_size ->
  (code_len P <> 0)%N ->
  nth (N.to_nat (last_pos P)) (p_code P) 255%N = 10%N ->
  loop F bld P re0 fuel1 src (set_calls s (f :: f :: st_calls s)) = loop F bld P re0 (S (S fuel2)) ipr x ->
  (ipr < code_len P)%N -> nth (N.to_nat ipr) (p_code P) 255%N = 22%N ->
  (3 <= st_rem x)%N ->
  st_calls x = f :: f :: st_calls s -> stack_ok x ->
  firstn (length l) (stack_of x) = l -> length l < length (stack_of x) ->
  (exists xc, close_upvalues_from (length l)
                (set_calls (tick (set_rem x (N.pred (st_rem x)))) (f :: st_calls s)) = ClOk xc) ->
  exists s',
    run_function P re cn (VObj a) s = NOk (last (stack_of x) VNil) s' /\
    stack_ok s' /\ stack_of s' = l /\ st_calls s' = st_calls s.
Proof. exact reentry_balanced_partial. Qed.
Print Assumptions C18_reentry_balanced_partial.

(* ------------------------------------------------------------------ *)
(* The whole menu, generically                                         *)
(* ------------------------------------------------------------------ *)

(* for every native of the menu the model's body is the typed wrapper of traits.rs (peek the k arguments, convert
   them last-to-first according to the signature table, call the host function with the converted parameters) *)
Theorem C18_native_wrapper_generic : forall F P re self n s l vs,
  stack_ok s -> stack_of s = l ++ vs -> length vs = native_arity n ->
  native_body F P re self n s =
  match conv_args F (native_sig n) vs 1 (st_heap s) with
  | CaOk args => native_fn F P re self n args s
  | CaFail i => NErr (EConversion (N.of_nat i)) s
  | CaUb => NStop AUB s
  end.
Proof. exact native_wrapper_generic. Qed.
Print Assumptions C18_native_wrapper_generic.

(* native_args, every native n of the menu, arity k, stack  l ++ [v1..vk]: when conv T_j v_j = args_j for every
   parameter, the host function receives exactly  args  (declaration order); what it answers is then finished by
   pop_n::<k> and push of the result / TaskFailure{name} around the error *)
Theorem C18_native_args_menu : forall F P re fuel n s l vs args,
  stack_ok s -> stack_of s = l ++ vs -> length vs = native_arity n -> length args = native_arity n ->
  (forall j, j < native_arity n ->
             conv F (nth j (native_sig n) TyValue) (st_heap s) (nth j vs VNil) = CvOk (nth j args ANone)) ->
  call_native_fuel F P re (S fuel) (handle_of_bytes (native_name n)) s
  = native_finish n (native_fn F P re (call_native_fuel F P re fuel) n args s).
Proof. exact native_args_menu. Qed.
Print Assumptions C18_native_args_menu.

(* parameter j+1 does not convert and every later one does: InvalidArgument naming parameter j+1 whatever the
   earlier parameters are, wrapped as TaskFailure{name}; the function does not run; all k arguments are consumed *)
Theorem C18_conversion_error_menu : forall F P re fuel n s l vs j,
  stack_ok s -> stack_of s = l ++ vs -> length vs = native_arity n ->
  j < native_arity n ->
  conv F (nth j (native_sig n) TyValue) (st_heap s) (nth j vs VNil) = CvFail ->
  (forall j', j < j' -> j' < native_arity n ->
              exists a, conv F (nth j' (native_sig n) TyValue) (st_heap s) (nth j' vs VNil) = CvOk a) ->
  exists s',
    call_native_fuel F P re (S fuel) (handle_of_bytes (native_name n)) s
      = NErr (ETaskFailure (native_name n) (EConversion (N.of_nat (S j)))) s' /\
    stack_ok s' /\ stack_of s' = l /\ st_calls s' = st_calls s /\ st_globals s' = st_globals s /\
    st_heap s' = st_heap s /\ st_log s' = st_log s.
Proof. exact native_conversion_error_menu. Qed.
Print Assumptions C18_conversion_error_menu.

(* the natives that do not re-enter the VM (log1 sub2 str1 mix3 t4 nil1 tab1 cat2): result and log entry are
   [simple_result] of the received parameters; the k arguments are replaced by the result, nothing else changes *)
Theorem C18_native_args_menu_simple : forall F P re fuel n s l vs args,
  simple_native n = true ->
  stack_ok s -> stack_of s = l ++ vs -> length vs = native_arity n -> length args = native_arity n ->
  (forall j, j < native_arity n ->
             conv F (nth j (native_sig n) TyValue) (st_heap s) (nth j vs VNil) = CvOk (nth j args ANone)) ->
  exists v e s',
    simple_result F n args (length l + native_arity n) (length (st_calls s)) (st_heap s) = Some (v, e) /\
    call_native_fuel F P re (S fuel) (handle_of_bytes (native_name n)) s = NOk v s' /\
    stack_ok s' /\ stack_of s' = l ++ [v] /\ st_log s' = st_log s ++ [e] /\
    st_calls s' = st_calls s /\ st_globals s' = st_globals s /\ st_heap s' = st_heap s.
Proof. exact native_args_menu_simple. Qed.
Print Assumptions C18_native_args_menu_simple.

(* instances for natives that had no theorem before *)
Theorem C18_native_args_cat2 : forall F P re fuel s l v1 v2 a b,
  stack_ok s -> stack_of s = l ++ [v1; v2] ->
  as_str (st_heap s) v1 = SIs a -> as_str (st_heap s) v2 = SIs b ->
  exists s',
    call_native_fuel F P re (S fuel) (handle_of_bytes name_cat2) s = NOk (VInt (Z.of_nat (length a + length b))) s' /\
    stack_of s' = l ++ [VInt (Z.of_nat (length a + length b))] /\
    st_log s' = st_log s ++ [[TStr a; TStr b]] /\
    st_calls s' = st_calls s /\ st_globals s' = st_globals s /\ st_heap s' = st_heap s.
Proof. exact native_args_cat2. Qed.
Print Assumptions C18_native_args_cat2.

(* cat2(a: &str, b: &str): b is converted first: #2 when b is not a string (whatever a is), #1 only when b is *)
Theorem C18_conversion_error_cat2 : forall F P re fuel s l v1 v2,
  stack_ok s -> stack_of s = l ++ [v1; v2] ->
  (as_str (st_heap s) v2 = SNot \/ (as_str (st_heap s) v1 = SNot /\ exists b, as_str (st_heap s) v2 = SIs b)) ->
  exists s',
    call_native_fuel F P re (S fuel) (handle_of_bytes name_cat2) s
      = NErr (ETaskFailure name_cat2
                (EConversion (match as_str (st_heap s) v2 with SNot => 2 | _ => 1 end))) s' /\
    stack_of s' = l /\ st_calls s' = st_calls s /\ st_globals s' = st_globals s /\ st_heap s' = st_heap s /\
    st_log s' = st_log s.
Proof. exact native_conversion_error_cat2. Qed.
Print Assumptions C18_conversion_error_cat2.

Theorem C18_native_args_tab1 : forall F P re fuel s l v a t,
  stack_ok s -> stack_of s = l ++ [v] -> get_table (st_heap s) v = TblOk a t ->
  exists s',
    call_native_fuel F P re (S fuel) (handle_of_bytes name_tab1) s = NOk (VInt (Z.of_nat (length (tkeys t)))) s' /\
    stack_of s' = l ++ [VInt (Z.of_nat (length (tkeys t)))] /\
    st_log s' = st_log s ++ [[TInt (Z.of_nat (length (tkeys t)))]] /\
    st_calls s' = st_calls s /\ st_globals s' = st_globals s /\ st_heap s' = st_heap s.
Proof. exact native_args_tab1. Qed.
Print Assumptions C18_native_args_tab1.

Theorem C18_native_args_log1 : forall F P re fuel s l v,
  stack_ok s -> stack_of s = l ++ [v] ->
  exists s',
    call_native_fuel F P re (S fuel) (handle_of_bytes name_log1) s = NOk VNil s' /\
    stack_of s' = l ++ [VNil] /\
    st_log s' = st_log s ++ [[TInt (Z.of_nat (length l + 1)); TInt (Z.of_nat (length (st_calls s)));
                              tree_of F (st_heap s) v]] /\
    st_calls s' = st_calls s /\ st_globals s' = st_globals s /\ st_heap s' = st_heap s.
Proof. exact native_args_log1. Qed.
Print Assumptions C18_native_args_log1.

(* ------------------------------------------------------------------ *)
(* Re-entrant natives                                                  *)
(* ------------------------------------------------------------------ *)

(* call1 / try1 / rb1 (f: Value, x: Value) with the stack  l ++ [f; x]: run_function is called with the received
   callee f on the stack  l ++ [f; x; x]  (x pushed once more: the callee's argument); its answer is handed back
   (call1), an error swallowed (try1), the heights logged (rb1) - [reentrant_post] -, then pop_n::<2> *)
Theorem C18_reentrant_args : forall F P re fuel n s l f x,
  pushes_arg n = true ->
  stack_ok s -> stack_of s = l ++ [f; x] ->
  S (length l + 2) < length (vdata (st_stack s)) ->
  let self := call_native_fuel F P re fuel in
  exists s1,
    stack_ok s1 /\ stack_of s1 = l ++ [f; x; x] /\
    st_calls s1 = st_calls s /\ st_globals s1 = st_globals s /\ st_heap s1 = st_heap s /\ st_log s1 = st_log s /\
    call_native_fuel F P re (S fuel) (handle_of_bytes (native_name n)) s
    = native_finish n (reentrant_post n s f (run_function P re self f s1)).
Proof. exact reentrant_args. Qed.
Print Assumptions C18_reentrant_args.

Theorem C18_reentrant_args_call0 : forall F P re fuel s l f,
  stack_ok s -> stack_of s = l ++ [f] ->
  call_native_fuel F P re (S fuel) (handle_of_bytes name_call0) s
  = native_finish NCall0 (run_function P re (call_native_fuel F P re fuel) f s).
Proof. exact reentrant_args_call0. Qed.
Print Assumptions C18_reentrant_args_call0.

(* run_function on a script function / closure of arity |args|, stack  l ++ args: the nested `_run` [re] is entered
   at the callee's label with the value stack as it is and two frames (trap frame + callee frame) returning to the
   final Exit, whose stack offset |l| makes args the callee's parameters; [after_reenter]: the frames are unwound
   to the depth before, the result popped *)
Theorem C18_run_function_enters :
  forall P re cn (a : N) (s : state) (l args : list value) h ar ups (is_clo : bool) src,
  let fr := mkFrame src (last_pos P) (N.of_nat (length l)) (if is_clo then Some a else None) in
  stack_ok s -> stack_of s = l ++ args -> length args = N.to_nat ar ->
  hget (st_heap s) a = Some (callee_obj is_clo h ar ups) ->
  assoc h (p_labels P) = Some src ->
  S (length (st_calls s)) < call_stack_size ->
  (code_len P <> 0)%N ->
  run_function P re cn (VObj a) s
  = after_reenter (length (st_calls s)) (re src (set_calls s (fr :: fr :: st_calls s))).
Proof. exact run_function_enters. Qed.
Print Assumptions C18_run_function_enters.

(* ------------------------------------------------------------------ *)
(* Registration                                                        *)
(* ------------------------------------------------------------------ *)

(* the table of callables after any history of register_native_function calls: under every handle the name and
   function of the last registration that was answered Ok(()) and whose name has that handle ([last_ok]), otherwise
   the entry from before *)
Theorem C18_registry_history : forall ops r h,
  reg_get (fst (run_public r ops)) h
  = match last_ok ops (snd (run_public r ops)) h with
    | Some (name, f) => Some (mkProc name f)
    | None => reg_get r h
    end.
Proof. exact registry_history. Qed.
Print Assumptions C18_registry_history.

(* ... and which registrations are answered Ok(()): [register_answer] on the table left by the registrations before -
   rejected exactly when the name starts with "__" (RegRejected) or its handle is held by an entry registered
   under ANOTHER name (RegCollides, d80a79a) *)
Theorem C18_registry_answers : forall pre name f post r,
  nth (length pre) (snd (run_public r (pre ++ (name, f) :: post))) RegOk
  = register_answer (fst (run_public r pre)) name.
Proof. exact registry_answers. Qed.
Print Assumptions C18_registry_answers.

(* the name under a handle never changes *)
Theorem C18_registry_name_stable : forall ops r h p,
  reg_get r h = Some p ->
  exists f, reg_get (fst (run_public r ops)) h = Some (mkProc (pr_name p) f).
Proof. exact registry_name_stable. Qed.
Print Assumptions C18_registry_name_stable.

(* reserved_names: the names of the library's natives cannot be registered, whatever the table holds *)
Theorem C18_std_names_rejected : forall r n f,
  In n std_natives -> register_public r (native_name n) f = (r, RegRejected).
Proof. exact std_names_rejected. Qed.
Print Assumptions C18_std_names_rejected.

(* after ANY history of public registrations on a new VM each of the four library natives is still registered under
   its own name with its own function (no hypothesis on hashes any more) *)
Theorem C18_std_natives_kept : forall ops n,
  In n std_natives ->
  reg_get (fst (run_public vm_new_registry ops)) (handle_of_bytes (native_name n))
  = Some (mkProc (native_name n) (StdFn n)).
Proof. exact std_natives_kept. Qed.
Print Assumptions C18_std_natives_kept.

(* finding N-C18-1, REPAIRED by d80a79a: "tuewgsg" / "zjyliqo" / "catpprn" / "hcsvhfo" are ordinary names with the
   handles of __min / __max / __sort / __to_array; at any point of any history on a new VM they are rejected, the
   table is unchanged and the handle still yields the library native *)
Theorem C18_colliding_name_rejected : forall ops c n f,
  In (c, n) collisions ->
  let r := fst (run_public vm_new_registry ops) in
  starts_reserved c = false /\
  handle_of_bytes c = handle_of_bytes (native_name n) /\
  register_public r c f = (r, RegCollides) /\
  reg_get r (handle_of_bytes c) = Some (mkProc (native_name n) (StdFn n)).
Proof. exact colliding_name_rejected. Qed.
Print Assumptions C18_colliding_name_rejected.

(* a later registration of a non-reserved name: it replaces name and function when its handle is free or held by
   the same name; when the handle is held by another name the answer is RegCollides and the table is unchanged *)
Theorem C18_registration_replaces : forall ops r name g,
  starts_reserved name = false ->
  let r1 := fst (run_public r ops) in
  ((forall p, reg_get r1 (handle_of_bytes name) = Some p -> pr_name p = name) ->
   reg_get (fst (run_public r (ops ++ [(name, g)]))) (handle_of_bytes name) = Some (mkProc name g) /\
   snd (run_public r (ops ++ [(name, g)])) = snd (run_public r ops) ++ [RegOk]) /\
  (forall p, reg_get r1 (handle_of_bytes name) = Some p -> pr_name p <> name ->
   run_public r (ops ++ [(name, g)]) = (r1, snd (run_public r ops) ++ [RegCollides])).
Proof. exact registration_replaces. Qed.
Print Assumptions C18_registration_replaces.

(* Vm::new + the registrations of harness/src/vmrun.rs new_vm: call_native's lookup is Vm.find_native *)
Theorem C18_menu_registry_is_find_native : forall h,
  reg_get menu_registry h
  = match find_native h all_natives with
    | Some n => Some (mkProc (native_name n) (StdFn n))
    | None => None
    end.
Proof. exact menu_registry_is_find_native. Qed.
Print Assumptions C18_menu_registry_is_find_native.

(* reentry_balanced for a restricted class of callees: the body is [body] = ScalarNil (7) / CopyLast (9) / Pop (16)
   in any order such that no Pop goes below the frame base ([body_height] from the |args| values above it) and at
   least one value is above the base at the end, followed by Return (22); budget (|body| + 3) and stack room
   suffice and no upvalue is open.  Then run_function (nested `_run` = the real dispatch loop with enough fuel)
   returns a value, leaves exactly the caller's  l  on the value stack and exactly the caller's frames. *)
Theorem C18_reentry_balanced_straightline :
  forall F bld P re0 cn (a : N) (s : state) (l args : list value) h ar ups (is_clo : bool) src
         (body : list N) (hh fuel : nat),
  let re := fun ip st => loop F bld P re0 (length body + S (S fuel)) ip st in
  stack_ok s -> stack_of s = l ++ args -> length args = N.to_nat ar ->
  hget (st_heap s) a = Some (callee_obj is_clo h ar ups) ->
  assoc h (p_labels P) = Some src ->
  S (length (st_calls s)) < call_stack_size ->
  (code_len P <> 0)%N ->
  nth (N.to_nat (last_pos P)) (p_code P) 255%N = 10%N ->
  st_open s = None ->
  body_height body (length args) = Some (S hh) ->
  (forall i, i < length body -> nth (N.to_nat src + i) (p_code P) 255%N = nth i body 255%N) ->
  nth (N.to_nat src + length body) (p_code P) 255%N = 22%N ->
  N.to_nat src + length body < length (p_code P) ->
  (N.of_nat (length body) + 3 <= st_rem s)%N ->
  length l + length args + length body + 1 < cap s ->
  exists v s',
    run_function P re cn (VObj a) s = NOk v s' /\
    stack_ok s' /\ stack_of s' = l /\ st_calls s' = st_calls s.
Proof. exact reentry_balanced_straightline. Qed.
Print Assumptions C18_reentry_balanced_straightline.
