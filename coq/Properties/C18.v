(* C18 - host functions receive the right arguments and can safely re-enter scripts.  PARTIAL.
   Statements only; proofs are in Cao.VmProofs and Cao.VmNativeProofs (model Cao.Vm: traits.rs wrappers = peek k
   arguments, convert last-to-first, call, pop_n::<k>; call_native; run_function).
   Proved for the model: argument order / conversion / consumption / result for one wrapper of every arity:
   arity 1 (C18_native_args_str1, C18_native_args_nil1 = Nilable<i64>: None exactly for nil), arity 2
   (C18_native_args_sub2), arity 3 (C18_native_args_mix3), arity 4 (C18_native_args_t4); conversion failure naming
   the parameter and still consuming every argument (C18_conversion_error_str1, C18_conversion_error_t4: the last
   parameter is converted first); error wrapping as TaskFailure{registered name} for EVERY native of the menu
   (C18_native_error_wrapped), unknown names; run_function restores the caller's stack and frames once the callee
   reaches its Return with them intact (C18_reentry_balanced_partial).
   NOT proved, claimed by the correspondence run only: the same for the remaining natives of the menu (checked
   by code 1 of C18Check.v on the host log, and by the conv_spec oracle, code 2, on the recorded invocations);
   the missing half of reentry_balanced (the callee's body keeps the caller's part of the stack and the frames
   below its own intact up to its Return: frame discipline of compiled code; checked by the rb1 oracle, code 2);
   `register_native_function` rejecting names that start with "__" (harness-level check, code 2). *)
From Coq Require Import NArith ZArith List Lia.
From Cao Require Import Stacks Bits Vm VmProofs VmNativeProofs.
Import ListNotations.

(* sub2(a: i64, b: i64) called with the stack l ++ [v1; v2]: a = conv v1 (declared first), b = conv v2; exactly
   two values are consumed, the result is pushed, frames / globals / heap are untouched *)
Theorem C18_native_args_sub2 : forall F P re fuel s l v1 v2 a b,
  stack_ok s -> stack_of s = l ++ [v1; v2] ->
  to_i64 F (st_heap s) v1 = Some a -> to_i64 F (st_heap s) v2 = Some b ->
  exists s',
    call_native_fuel F P re (S fuel) (handle_of_bytes name_sub2) s = NOk (VInt (wrap_i64 (a - b))) s' /\
    stack_of s' = l ++ [VInt (wrap_i64 (a - b))] /\
    st_log s' = st_log s ++ [[TInt a; TInt b]] /\
    st_calls s' = st_calls s /\ st_globals s' = st_globals s /\ st_heap s' = st_heap s.
Proof. exact native_args_sub2. Qed.
Print Assumptions C18_native_args_sub2.

(* str1(s: &str) called with a non-string: InvalidArgument naming parameter 1, wrapped as TaskFailure{"str1"};
   the argument is consumed *)
Theorem C18_conversion_error_str1 : forall F P re fuel s l v,
  stack_ok s -> stack_of s = l ++ [v] -> as_str (st_heap s) v = SNot ->
  exists s',
    call_native_fuel F P re (S fuel) (handle_of_bytes name_str1) s
      = NErr (ETaskFailure name_str1 (EConversion 1)) s' /\
    stack_of s' = l /\ st_calls s' = st_calls s /\ st_globals s' = st_globals s /\ st_heap s' = st_heap s /\
    st_log s' = st_log s.
Proof. exact native_conversion_error_str1. Qed.
Print Assumptions C18_conversion_error_str1.

(* an error returned by any native of the menu surfaces as TaskFailure carrying the registered name *)
Theorem C18_native_error_wrapped : forall F P re fuel h n s e s1,
  find_native h all_natives = Some n ->
  native_body F P re (call_native_fuel F P re fuel) n s = NErr e s1 ->
  call_native_fuel F P re (S fuel) h s = NErr (ETaskFailure (native_name n) e) (spop_n s1 (native_arity n)).
Proof. exact native_error_wrapped. Qed.
Print Assumptions C18_native_error_wrapped.

Theorem C18_fail0_is_task_failure : forall F P re fuel s,
  call_native_fuel F P re (S fuel) (handle_of_bytes name_fail0) s = NErr (ETaskFailure name_fail0 EUnimplemented) s.
Proof. exact fail0_is_task_failure. Qed.
Print Assumptions C18_fail0_is_task_failure.

(* a name that is not registered: ProcedureNotFound, state untouched *)
Theorem C18_native_unknown : forall F P re fuel h s,
  find_native h all_natives = None ->
  call_native_fuel F P re (S fuel) h s = NErr (EProcedureNotFound h) s.
Proof. exact native_unknown. Qed.
Print Assumptions C18_native_unknown.

(* arity 1, &str: the string is received as it is, its argument is consumed, the result pushed *)
Theorem C18_native_args_str1 : forall F P re fuel s l v b,
  stack_ok s -> stack_of s = l ++ [v] -> as_str (st_heap s) v = SIs b ->
  exists s',
    call_native_fuel F P re (S fuel) (handle_of_bytes name_str1) s = NOk (VInt (Z.of_nat (length b))) s' /\
    stack_of s' = l ++ [VInt (Z.of_nat (length b))] /\
    st_log s' = st_log s ++ [[TStr b]] /\
    st_calls s' = st_calls s /\ st_globals s' = st_globals s /\ st_heap s' = st_heap s.
Proof. exact native_args_str1. Qed.
Print Assumptions C18_native_args_str1.

(* arity 1, Nilable<i64>: nil1 logs what it received (TNil for None, TInt i for Some i) and returns -1 / i.
   None exactly for nil; any other value goes through the i64 conversion *)
Theorem C18_native_args_nil1 : forall F P re fuel s l v,
  stack_ok s -> stack_of s = l ++ [v] ->
  (v = VNil \/ exists i, v <> VNil /\ to_i64 F (st_heap s) v = Some i) ->
  exists s' res entry,
    call_native_fuel F P re (S fuel) (handle_of_bytes name_nil1) s = NOk res s' /\
    stack_of s' = l ++ [res] /\
    st_log s' = st_log s ++ [[entry]] /\
    (v = VNil -> res = VInt (-1) /\ entry = TNil) /\
    (forall i, v <> VNil -> to_i64 F (st_heap s) v = Some i -> res = VInt i /\ entry = TInt i) /\
    st_calls s' = st_calls s /\ st_globals s' = st_globals s /\ st_heap s' = st_heap s.
Proof. exact native_args_nil1. Qed.
Print Assumptions C18_native_args_nil1.

(* arity 3: mix3(a: f64, b: i64, c: Value) with the stack l ++ [v1; v2; v3] *)
Theorem C18_native_args_mix3 : forall F P re fuel s l v1 v2 v3 a b,
  stack_ok s -> stack_of s = l ++ [v1; v2; v3] ->
  to_f64 F (st_heap s) v1 = Some a -> to_i64 F (st_heap s) v2 = Some b ->
  exists s',
    call_native_fuel F P re (S fuel) (handle_of_bytes name_mix3) s = NOk VNil s' /\
    stack_of s' = l ++ [VNil] /\
    st_log s' = st_log s ++ [[TReal (canon_real F a); TInt b; tree_of F (st_heap s) v3]] /\
    st_calls s' = st_calls s /\ st_globals s' = st_globals s /\ st_heap s' = st_heap s.
Proof. exact native_args_mix3. Qed.
Print Assumptions C18_native_args_mix3.

(* arity 4: t4(a: i64, b: f64, c: bool, d: &str) with the stack l ++ [v1; v2; v3; v4] *)
Theorem C18_native_args_t4 : forall F P re fuel s l v1 v2 v3 v4 a b c d,
  stack_ok s -> stack_of s = l ++ [v1; v2; v3; v4] ->
  to_i64 F (st_heap s) v1 = Some a -> to_f64 F (st_heap s) v2 = Some b ->
  as_bool F (st_heap s) v3 = Some c -> as_str (st_heap s) v4 = SIs d ->
  exists s',
    call_native_fuel F P re (S fuel) (handle_of_bytes name_t4) s = NOk VNil s' /\
    stack_of s' = l ++ [VNil] /\
    st_log s' = st_log s ++ [[TInt a; TReal (canon_real F b); TInt (if c then 1 else 0); TStr d]] /\
    st_calls s' = st_calls s /\ st_globals s' = st_globals s /\ st_heap s' = st_heap s.
Proof. exact native_args_t4. Qed.
Print Assumptions C18_native_args_t4.

(* arity 4, the last parameter is converted first: a non-string there is InvalidArgument naming parameter 4
   whatever the other three are; all four arguments are consumed, the body does not run *)
Theorem C18_conversion_error_t4 : forall F P re fuel s l v1 v2 v3 v4,
  stack_ok s -> stack_of s = l ++ [v1; v2; v3; v4] -> as_str (st_heap s) v4 = SNot ->
  exists s',
    call_native_fuel F P re (S fuel) (handle_of_bytes name_t4) s
      = NErr (ETaskFailure name_t4 (EConversion 4)) s' /\
    stack_of s' = l /\ st_calls s' = st_calls s /\ st_globals s' = st_globals s /\ st_heap s' = st_heap s /\
    st_log s' = st_log s.
Proof. exact native_conversion_error_t4. Qed.
Print Assumptions C18_conversion_error_t4.

(* reentry_balanced, PARTIAL. A host function calls run_function on a script function / closure of arity |args|
   with the stack  l ++ args  (the values it pushed on top of its caller's l). If the nested `_run` (the real
   dispatch loop [loop], with any nesting [re0] below it) reaches the callee's Return at [ipr] in a state [x] in
   which the two trap frames and the caller's frames are still in place and the caller's part  l  of the value
   stack is unchanged, then run_function hands back the callee's return value and leaves exactly  l  on the value
   stack (the caller's locals are slots of l) and exactly the caller's frames on the call stack.
   MISSING for the full statement: that the body of a compiled callee keeps  l  and the frames below its own
   intact up to its Return (no instruction of a compiled function pops below its frame offset): it needs the
   compiler's invariants and a per-instruction analysis; the rb1 oracle of C18Check.v checks it on every run. *)
Theorem C18_reentry_balanced_partial :
  forall F bld P re0 cn (a : N) (s : state) (l args : list value) h ar ups (is_clo : bool) src fuel1 fuel2 ipr
         (x : state),
  let re := fun ip st => loop F bld P re0 fuel1 ip st in
  let f := mkFrame src (last_pos P) (N.of_nat (length l)) (if is_clo then Some a else None) in
  stack_ok s -> stack_of s = l ++ args -> length args = N.to_nat ar ->
  hget (st_heap s) a = Some (callee_obj is_clo h ar ups) ->
  assoc h (p_labels P) = Some src ->
  S (length (st_calls s)) < call_stack_size ->
  (code_len P <> 0)%N ->
  nth (N.to_nat (last_pos P)) (p_code P) 255%N = 10%N ->
  loop F bld P re0 fuel1 src (set_calls s (f :: f :: st_calls s)) = loop F bld P re0 (S (S fuel2)) ipr x ->
  (ipr < code_len P)%N -> nth (N.to_nat ipr) (p_code P) 255%N = 22%N ->
  (3 <= st_rem x)%N ->
  st_calls x = f :: f :: st_calls s -> stack_ok x ->
  firstn (length l) (stack_of x) = l -> length l < length (stack_of x) ->
  (exists xc, close_upvalues_from (length l)
                (set_calls (tick (set_rem x (N.pred (st_rem x)))) (f :: st_calls s)) = ClOk xc) ->
  exists s',
    run_function P re cn (VObj a) s = NOk (last (stack_of x) VNil) s' /\
    stack_ok s' /\ stack_of s' = l /\ st_calls s' = st_calls s.
Proof. exact reentry_balanced_partial. Qed.
Print Assumptions C18_reentry_balanced_partial.
