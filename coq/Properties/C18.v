(* C18 - host functions receive the right arguments and can safely re-enter scripts.  PARTIAL.
   Statements only; proofs are in Cao.VmProofs (model Cao.Vm: traits.rs wrappers = peek k arguments, convert
   last-to-first, call, pop_n::<k>; call_native; run_function).
   Proved for the model: argument order / conversion / consumption / result for the two-parameter wrapper
   (C18_native_args_sub2), conversion failure naming the parameter and still consuming it
   (C18_conversion_error_str1), error wrapping as TaskFailure{registered name} for EVERY native of the menu
   (C18_native_error_wrapped), unknown names.
   NOT proved, claimed by the correspondence run only: the same for the wrappers of arity 1, 3, 4 and the other
   conversions (checked by code 1 of C18Check.v on the host log = the converted arguments each native received);
   reentry_balanced (checked by the rb1 oracle, code 2: heights before = heights after run_function);
   `register_native_function` rejecting names that start with "__" (harness-level check, code 2). *)
From Coq Require Import NArith ZArith List Lia.
From Cao Require Import Stacks Bits Vm VmProofs.
Import ListNotations.

(* sub2(a: i64, b: i64) called with the stack l ++ [v1; v2]: a = conv v1 (declared first), b = conv v2; exactly
   two values are consumed, the result is pushed, frames / globals / heap are untouched *)
Theorem C18_native_args_sub2 : forall F P re fuel s l v1 v2 a b,
  stack_ok s -> stack_of s = l ++ [v1; v2] ->
  to_i64 F (st_heap s) v1 = Some a -> to_i64 F (st_heap s) v2 = Some b ->
  exists s',
    call_native_fuel F P re (S fuel) (handle_of_bytes name_sub2) s = NOk (VInt (wrap_i64 (a - b))) s' /\
    stack_of s' = l ++ [VInt (wrap_i64 (a - b))] /\
    st_log s' = st_log s ++ [[TInt a; TInt b]] /\
    st_calls s' = st_calls s /\ st_globals s' = st_globals s /\ st_heap s' = st_heap s.
Proof. exact native_args_sub2. Qed.
Print Assumptions C18_native_args_sub2.

(* str1(s: &str) called with a non-string: InvalidArgument naming parameter 1, wrapped as TaskFailure{"str1"};
   the argument is consumed *)
Theorem C18_conversion_error_str1 : forall F P re fuel s l v,
  stack_ok s -> stack_of s = l ++ [v] -> as_str (st_heap s) v = SNot ->
  exists s',
    call_native_fuel F P re (S fuel) (handle_of_bytes name_str1) s
      = NErr (ETaskFailure name_str1 (EConversion 1)) s' /\
    stack_of s' = l /\ st_calls s' = st_calls s /\ st_globals s' = st_globals s /\ st_heap s' = st_heap s /\
    st_log s' = st_log s.
Proof. exact native_conversion_error_str1. Qed.
Print Assumptions C18_conversion_error_str1.

(* an error returned by any native of the menu surfaces as TaskFailure carrying the registered name *)
Theorem C18_native_error_wrapped : forall F P re fuel h n s e s1,
  find_native h all_natives = Some n ->
  native_body F P re (call_native_fuel F P re fuel) n s = NErr e s1 ->
  call_native_fuel F P re (S fuel) h s = NErr (ETaskFailure (native_name n) e) (spop_n s1 (native_arity n)).
Proof. exact native_error_wrapped. Qed.
Print Assumptions C18_native_error_wrapped.

Theorem C18_fail0_is_task_failure : forall F P re fuel s,
  call_native_fuel F P re (S fuel) (handle_of_bytes name_fail0) s = NErr (ETaskFailure name_fail0 EUnimplemented) s.
Proof. exact fail0_is_task_failure. Qed.
Print Assumptions C18_fail0_is_task_failure.

(* a name that is not registered: ProcedureNotFound, state untouched *)
Theorem C18_native_unknown : forall F P re fuel h s,
  find_native h all_natives = None ->
  call_native_fuel F P re (S fuel) h s = NErr (EProcedureNotFound h) s.
Proof. exact native_unknown. Qed.
Print Assumptions C18_native_unknown.
