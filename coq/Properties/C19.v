(* C19 — value equality, hashing and ordering are mutually coherent.
   Statements only; proofs are in Cao.ValueProofs (axiom-free) and Cao.ValueRealProofs (the
   statements that mention real numbers: Flocq's B2R / Rcompare, hence the axioms of Coq's Reals:
     ClassicalDedekindReals.sig_not_dec, ClassicalDedekindReals.sig_forall_dec,
     FunctionalExtensionality.functional_extensionality_dep, Classical_Prop.classic).
   Model: Cao.Value — acyclic values as trees; a table is the list of its keys in insertion
   order with the stored values; a closure carries the identity of its object.  [no_nan a]: no
   NaN anywhere inside a.  Function objects are ordinary members of the domain since the repair
   f13cfaa (finding A-40); the behaviour before it is kept as [teq_legacy] for the
   `..._legacy_refuted` witnesses.
   Termination without error of ==, hash, partial_cmp, as_bool on every acyclic value is the
   acceptance of teq / thash_bytes / tcmp / tbool as structural Fixpoints (total functions with
   no error outcome); the native stack depth needed for deep nesting is outside the model. *)
From Coq Require Import ZArith NArith List Bool Reals.
From Coq Require Import Floats.SpecFloat.
From Flocq Require Import Core.Raux IEEE754.Binary IEEE754.Bits.
From Cao Require Import CheckUtil Bits Value ValueProofs ValueRealProofs.
Import ListNotations.

(* ---- equality is an equivalence off NaN ---- *)
Theorem C19_eq_refl : forall a, no_nan a = true -> teq a a = true.
Proof. exact teq_refl. Qed.
Print Assumptions C19_eq_refl.

(* v == v is exactly the test that decides whether a table shows the entry keyed by v *)
Theorem C19_eq_self : forall a, teq a a = tself a.
Proof. exact teq_self. Qed.
Print Assumptions C19_eq_self.

Theorem C19_eq_sym : forall a b, teq a b = teq b a.
Proof. exact teq_sym. Qed.
Print Assumptions C19_eq_sym.

Theorem C19_eq_trans : forall a b c,
  no_nan b = true -> teq a b = true -> teq b c = true -> teq a c = true.
Proof. exact teq_trans. Qed.
Print Assumptions C19_eq_trans.

(* ---- equal values hash equally (signed zero excepted) ----
   [coherent (tclos a ++ tclos b)]: a closure id names one object, i.e. two closure nodes with
   the same id carry the same handle and arity (the checker tests it on every case). *)
Theorem C19_eq_hash_bytes : forall a b,
  teq a b = true -> no_nan a = true -> no_nan b = true -> no_zero_real a = true ->
  coherent (tclos a ++ tclos b) ->
  thash_bytes a = thash_bytes b.
Proof. exact teq_hash_bytes. Qed.
Print Assumptions C19_eq_hash_bytes.

Theorem C19_eq_hash : forall a b,
  teq a b = true -> no_nan a = true -> no_nan b = true -> no_zero_real a = true ->
  coherent (tclos a ++ tclos b) ->
  thash a = thash b.
Proof. exact teq_hash. Qed.
Print Assumptions C19_eq_hash.

(* the hasher: chained writes = one write of the concatenated stream *)
Theorem C19_hasher_writes_concatenate : forall h a b,
  fnv_bytes h (a ++ b) = fnv_write (fnv_write h a) b.
Proof. exact fnv_bytes_app. Qed.
Print Assumptions C19_hasher_writes_concatenate.

(* ---- the ordering never contradicts equality, and is asymmetric ---- *)
Theorem C19_cmp_eq_coherent : forall a b,
  teq a b = true -> tcmp a b <> Some Lt /\ tcmp a b <> Some Gt.
Proof. exact tcmp_eq_coherent. Qed.
Print Assumptions C19_cmp_eq_coherent.

Theorem C19_cmp_swap : forall a b,
  tcmp b a = match tcmp a b with Some c => Some (CompOpp c) | None => None end.
Proof. exact tcmp_swap. Qed.
Print Assumptions C19_cmp_swap.

Theorem C19_lt_asym : forall a b, tcmp a b = Some Lt -> tcmp b a = Some Gt.
Proof. exact tcmp_lt_asym. Qed.
Print Assumptions C19_lt_asym.

(* ---- numbers are ordered by numeric value ---- *)
Theorem C19_cmp_int_int : forall i j, tcmp (TInt i) (TInt j) = Some (Z.compare i j).
Proof. exact tcmp_int_int. Qed.
Print Assumptions C19_cmp_int_int.

Theorem C19_cmp_real_real : forall f g, tcmp (TReal f) (TReal g) = Bcompare 53 1024 f g.
Proof. exact tcmp_real_real. Qed.
Print Assumptions C19_cmp_real_real.

Theorem C19_cmp_real_real_numeric : forall f g,
  is_finite 53 1024 f = true -> is_finite 53 1024 g = true ->
  tcmp (TReal f) (TReal g) = Some (Rcompare (B2R 53 1024 f) (B2R 53 1024 g)).
Proof. exact tcmp_real_real_numeric. Qed.
Print Assumptions C19_cmp_real_real_numeric.

Theorem C19_eq_real_real_numeric : forall f g,
  is_finite 53 1024 f = true -> is_finite 53 1024 g = true ->
  teq (TReal f) (TReal g) = Req_bool (B2R 53 1024 f) (B2R 53 1024 g).
Proof. exact teq_real_real_numeric. Qed.
Print Assumptions C19_eq_real_real_numeric.

(* integer against real: the numeric order, for every i64 (repair d3f91fb of finding A-30) ... *)
Theorem C19_cmp_mixed : forall i r,
  (- two63 <= i < two63)%Z -> is_finite 53 1024 r = true ->
  tcmp (TInt i) (TReal r) = Some (Rcompare (IZR i) (B2R 53 1024 r)).
Proof. exact tcmp_mixed. Qed.
Print Assumptions C19_cmp_mixed.

(* ... and for whatever counts as an integer (nil: 0, string or table: its length), both ways *)
Theorem C19_cmp_mixed_any : forall a r,
  is_real a = false -> (- two63 <= to_i64 a < two63)%Z -> is_finite 53 1024 r = true ->
  tcmp a (TReal r) = Some (Rcompare (IZR (to_i64 a)) (B2R 53 1024 r)) /\
  tcmp (TReal r) a = Some (Rcompare (B2R 53 1024 r) (IZR (to_i64 a))).
Proof. exact tcmp_mixed_any. Qed.
Print Assumptions C19_cmp_mixed_any.

(* the implemented algorithm (truncate, tie by the fractional part, range guards) equals the
   exact comparison by cross-multiplication; integer arithmetic only *)
Theorem C19_cmp_int_real_exact : forall i x,
  (- two63 <= i < two63)%Z -> cmp_int_real i x = Z_cmp_sf i x.
Proof. exact cmp_int_real_exact. Qed.
Print Assumptions C19_cmp_int_real_exact.

(* before d3f91fb the integer was rounded first: 2^53+1 compared Equal to 2^53.0 (A-30) *)
Theorem C19_cmp_mixed_legacy_refuted :
  exists i r, is_finite 53 1024 r = true /\ (Z.abs i <= 2 ^ 53 + 1)%Z /\
    tcmp_legacy (TInt i) (TReal r) = Some Eq /\
    Rcompare (IZR i) (B2R 53 1024 r) = Gt /\
    tcmp (TInt i) (TReal r) = Some Gt.
Proof. exact tcmp_legacy_mixed_refuted. Qed.
Print Assumptions C19_cmp_mixed_legacy_refuted.

(* ---- nil counts as 0, a string or table as its length, against a number ---- *)
Theorem C19_cmp_nil_as_zero : forall b, ValueProofs.is_number b = true ->
  tcmp TNil b = tcmp (TInt 0) b /\ tcmp b TNil = tcmp b (TInt 0).
Proof. exact tcmp_nil_as_zero. Qed.
Print Assumptions C19_cmp_nil_as_zero.

Theorem C19_cmp_obj_as_len : forall a b, is_obj a = true -> ValueProofs.is_number b = true ->
  tcmp a b = tcmp (TInt (Z.of_nat (tlen a))) b /\ tcmp b a = tcmp b (TInt (Z.of_nat (tlen a))).
Proof. exact tcmp_obj_as_len. Qed.
Print Assumptions C19_cmp_obj_as_len.

(* two objects: Equal when ==, else by length, equal lengths being unordered *)
Theorem C19_cmp_obj_obj : forall a b, is_obj a = true -> is_obj b = true ->
  tcmp a b = if teq a b then Some Eq
             else match Nat.compare (tlen a) (tlen b) with Eq => None | c => Some c end.
Proof. exact tcmp_obj_obj. Qed.
Print Assumptions C19_cmp_obj_obj.

Theorem C19_cmp_str_by_len : forall x y, length x <> length y ->
  tcmp (TStr x) (TStr y) = Some (Nat.compare (length x) (length y)).
Proof. exact tcmp_str_by_len. Qed.
Print Assumptions C19_cmp_str_by_len.

(* ---- the exceptions and the refuted parts, as witnesses ---- *)
Theorem C19_signed_zero_hash_refuted :
  teq (TReal r_zero) (TReal r_negzero) = true /\ thash (TReal r_zero) <> thash (TReal r_negzero).
Proof. exact signed_zero_hash_refuted. Qed.
Print Assumptions C19_signed_zero_hash_refuted.

Theorem C19_nan_not_reflexive : teq (TReal r_nan) (TReal r_nan) = false.
Proof. exact nan_not_reflexive. Qed.
Print Assumptions C19_nan_not_reflexive.

(* a NaN key is skipped by iteration and counted by len(): {NaN: 1, 2: 3} == {2: 3, 4: 5} with
   different hashes, and == is not transitive through it (why no_nan is assumed above) *)
Theorem C19_nan_key_eq_hash_refuted :
  teq t_nankey t_23_45 = true /\ thash t_nankey <> thash t_23_45.
Proof. exact nan_key_eq_hash_refuted. Qed.
Print Assumptions C19_nan_key_eq_hash_refuted.

Theorem C19_eq_trans_nan_refuted :
  teq t_23_45 t_nankey = true /\ teq t_nankey t_23_67 = true /\ teq t_23_45 t_23_67 = false.
Proof. exact teq_trans_nan_refuted. Qed.
Print Assumptions C19_eq_trans_nan_refuted.

(* ---- before the repair f13cfaa (finding A-40): function objects were never equal ---- *)
Theorem C19_fn_not_reflexive_legacy : forall i h a,
  teq_legacy (TFn h a) (TFn h a) = false /\ teq_legacy (TNative h) (TNative h) = false /\
  teq_legacy (TClosure i h a) (TClosure i h a) = false.
Proof. exact fn_not_reflexive_legacy. Qed.
Print Assumptions C19_fn_not_reflexive_legacy.

(* {f: 1, 2: 3} == {2: 3, 4: 5} with different hashes; == was not transitive through it *)
Theorem C19_fn_key_eq_hash_legacy_refuted :
  teq_legacy t_fnkey t_23_45 = true /\ no_nan t_fnkey = true /\ no_zero_real t_fnkey = true /\
  thash_legacy t_fnkey <> thash_legacy t_23_45.
Proof. exact fn_key_eq_hash_legacy_refuted. Qed.
Print Assumptions C19_fn_key_eq_hash_legacy_refuted.

Theorem C19_eq_trans_legacy_refuted :
  teq_legacy t_23_45 t_fnkey = true /\ teq_legacy t_fnkey t_23_67 = true /\
  teq_legacy t_23_45 t_23_67 = false /\ no_nan t_fnkey = true.
Proof. exact teq_trans_legacy_refuted. Qed.
Print Assumptions C19_eq_trans_legacy_refuted.

(* the repaired code tells them apart *)
Theorem C19_fn_key_repaired :
  teq t_fnkey t_23_45 = false /\ teq t_fnkey t_fnkey = true /\ teq t_fnkey t_23_67 = false.
Proof. exact fn_key_repaired. Qed.
Print Assumptions C19_fn_key_repaired.

(* the checker's executable coherence test implies [coherent] *)
Theorem C19_coherentb_correct : forall c, coherentb c = true -> coherent c.
Proof. exact coherentb_correct. Qed.
Print Assumptions C19_coherentb_correct.

(* ---- the exact integer/real comparison (the checker's oracle, and by C19_cmp_int_real_exact
   the implemented one) is the numeric order ---- *)
Theorem C19_oracle_Z_cmp_sf_correct : forall i r, is_finite 53 1024 r = true ->
  Z_cmp_sf i (sf r) = Some (Rcompare (IZR i) (B2R 53 1024 r)).
Proof. exact Z_cmp_sf_correct. Qed.
Print Assumptions C19_oracle_Z_cmp_sf_correct.

(* non-vacuity *)
Example C19_domain_nonvacuous :
  no_nan (TTable [(TStr [97%N], TTable [(TInt 1, TReal r_zero)]); (TClosure 0 7 1, TFn 7 1)]) = true /\
  no_zero_real (TTable [(TStr [97%N], TInt 3)]) = true /\
  coherent (tclos (TTable [(TClosure 0 7 1, TNil)]) ++ tclos (TClosure 0 7 1)).
Proof. repeat split; try reflexivity. apply coherentb_correct. reflexivity. Qed.
