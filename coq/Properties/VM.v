(* VM (development aid, not a registered property): the cheap theorems about the executable VM model Vm.v.
   Statements only; proofs are in Cao.VmProofs. Every statement is generic in the binary64 instance [fops] and
   in the build profile, so nothing here depends on Flocq.
   `run_flat` is `Vm::run` with run_function cut off (natives cannot re-enter the interpreter);
   `run` is the full model (every nested `_run` takes a fresh budget, as the code does - A-11). *)
From Coq Require Import NArith List Lia.
From Cao Require Import Vm VmProofs.

(* `run` is total by construction, and a function *)
Theorem VM_run_total : forall F bld N P s, exists o s', run F bld N P s = (o, s').
Proof. exact run_total. Qed.
Print Assumptions VM_run_total.

Theorem VM_run_deterministic : forall F bld N P s r1 r2,
  run F bld N P s = r1 -> run F bld N P s = r2 -> r1 = r2.
Proof. exact run_deterministic. Qed.
Print Assumptions VM_run_deterministic.

(* for all programs and states: without re-entry a run with budget N >= 1 dispatches at most N - 1 instructions *)
Theorem VM_budget_bound : forall F bld P N s o s',
  1 <= N -> run_flat F bld N P s = (o, s') ->
  (st_count s <= st_count s' /\ st_count s' <= st_count s + N.of_nat (N - 1))%N.
Proof. exact budget_bound. Qed.
Print Assumptions VM_budget_bound.

(* with one unit left the dispatch loop executes nothing and reports Timeout *)
Theorem VM_timeout_reported : forall F bld P reenter ip s,
  (ip < code_len P)%N -> loop F bld P reenter 1 ip s = RErr ETimeout ip s.
Proof. exact timeout_reported. Qed.
Print Assumptions VM_timeout_reported.

(* a program that dispatches at least N instructions under some larger budget reports Timeout under budget N *)
Theorem VM_timeout_reported_run : forall F bld P N N' s o' s'',
  1 <= N -> N <= N' -> run_flat F bld N' P s = (o', s'') ->
  (st_count s + N.of_nat N <= st_count s'')%N ->
  is_timeout_outcome (fst (run_flat F bld N P s)).
Proof. exact timeout_reported_run. Qed.
Print Assumptions VM_timeout_reported_run.

(* a run that does not time out is not affected by a larger budget: outcome and final state are equal *)
Theorem VM_budget_monotone : forall F bld P N N' s o s',
  1 <= N -> N <= N' -> run_flat F bld N P s = (o, s') -> ~ is_timeout_outcome o ->
  run_flat F bld N' P s = (o, s').
Proof. exact budget_monotone. Qed.
Print Assumptions VM_budget_monotone.

(* the ghost counter never decreases, at any nesting depth *)
Theorem VM_count_monotone : forall F bld N P s, (st_count s <= st_count (snd (run F bld N P s)))%N.
Proof. exact count_monotone. Qed.
Print Assumptions VM_count_monotone.

(* one instruction changes the counter only through re-entry (R = eq or N.le) *)
Theorem VM_step_count_rel :
  forall (R : N -> N -> Prop), (forall x, R x x) -> (forall x y z, R x y -> R y z -> R x z) ->
  forall F bld P reenter,
    (forall ip s, rres_R R (st_count s) (reenter ip s)) ->
    forall ip s, sres_R R (st_count s) (step F bld P reenter ip s).
Proof. exact step_count_rel. Qed.
Print Assumptions VM_step_count_rel.

(* finding A-11: with re-entry the bound fails; witness = the crate's compile output of corpus program
   "nested_budget", budget 150, completes with 369 dispatched instructions *)
Theorem VM_budget_bound_nested_refuted :
  forall F bld,
  exists P N, 1 <= N /\
    fst (run F bld N P fresh_state) = OOk /\
    (N.of_nat N < st_count (snd (run F bld N P fresh_state)) - st_count fresh_state)%N.
Proof. exact budget_bound_nested_refuted. Qed.
Print Assumptions VM_budget_bound_nested_refuted.
