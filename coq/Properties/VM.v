(* VM (development aid, not a registered property): the cheap theorems about the executable VM model Vm.v.
   Statements only; proofs are in Cao.VmProofs. Every statement is generic in the binary64 instance [fops] and
   in the build profile, so nothing here depends on Flocq.
   `run` is the model of Vm::run at /repo HEAD (budget shared by nested runs);
   `run_flat` is Vm::run with run_function cut off (natives cannot re-enter) and the budget as the structural
   argument of the dispatch loop; VmCheck.v checks on every generated run without re-entry that both agree;
   `run_legacy` is `run` under the budget rule of the pinned tree (fresh budget per nested `_run`, A-11). *)
From Coq Require Import NArith List Lia.
From Cao Require Import Vm VmWitness VmProofs.

(* `run` is total by construction, and a function *)
Theorem VM_run_total : forall F bld N P s, exists o s', run F bld N P s = (o, s').
Proof. exact run_total. Qed.
Print Assumptions VM_run_total.

Theorem VM_run_deterministic : forall F bld N P s r1 r2,
  run F bld N P s = r1 -> run F bld N P s = r2 -> r1 = r2.
Proof. exact run_deterministic. Qed.
Print Assumptions VM_run_deterministic.

(* C03: for all programs, all start states and all budgets N, with every native of the menu including the
   re-entrant ones at any nesting depth: the run dispatches at most N instructions (ghost counter) *)
Theorem VM_budget_bound : forall F bld P N s,
  (st_count s <= st_count (snd (run F bld N P s)) /\
   st_count (snd (run F bld N P s)) <= st_count s + N.of_nat N)%N.
Proof. exact budget_bound. Qed.
Print Assumptions VM_budget_bound.

(* with at most one unit of budget left the dispatch loop executes nothing and reports Timeout *)
Theorem VM_timeout_reported : forall F bld P reenter fuel ip s,
  (ip < code_len P)%N -> (st_rem s <= 1)%N ->
  loop F bld P reenter fuel ip s = RErr ETimeout ip (set_rem s 0).
Proof. exact timeout_reported. Qed.
Print Assumptions VM_timeout_reported.

(* without re-entry: at most N - 1 dispatches *)
Theorem VM_budget_bound_flat : forall F bld P N s o s',
  run_flat F bld N P s = (o, s') ->
  (st_count s <= st_count s' /\ st_count s' <= st_count s + N.of_nat (Nat.pred N))%N.
Proof. exact budget_bound_flat. Qed.
Print Assumptions VM_budget_bound_flat.

(* without re-entry: a run that does not time out is not affected by a larger budget *)
Theorem VM_budget_monotone : forall F bld P N N' s o s',
  N <= N' -> run_flat F bld N P s = (o, s') -> ~ is_timeout_outcome o ->
  run_flat F bld N' P s = (o, s').
Proof. exact budget_monotone. Qed.
Print Assumptions VM_budget_monotone.

(* without re-entry: a program that dispatches at least N instructions under some larger budget reports Timeout
   under budget N *)
Theorem VM_timeout_reported_run : forall F bld P N N' s o' s'',
  1 <= N -> N <= N' -> run_flat F bld N' P s = (o', s'') ->
  (st_count s + N.of_nat N <= st_count s'')%N ->
  is_timeout_outcome (fst (run_flat F bld N P s)).
Proof. exact timeout_reported_run. Qed.
Print Assumptions VM_timeout_reported_run.

(* one instruction changes (dispatch counter, remaining budget) only through re-entry *)
Theorem VM_step_count_rel :
  forall (R : N * N -> N * N -> Prop), (forall x, R x x) -> (forall x y z, R x y -> R y z -> R x z) ->
  forall F bld P reenter,
    (forall ip s, rres_R R (cr s) (reenter ip s)) ->
    forall ip s, sres_R R (cr s) (step F bld P reenter ip s).
Proof. exact step_count_rel. Qed.
Print Assumptions VM_step_count_rel.

(* finding A-11 (repaired by 9ecef93): under the old budget rule the bound fails; witness = the crate's compile
   output of corpus program "nested_budget", budget 150, completes with 369 dispatched instructions *)
Theorem VM_budget_bound_legacy_refuted :
  forall F bld,
  exists P N, 1 <= N /\
    fst (run_legacy F bld N P fresh_state) = OOk /\
    (N.of_nat N < st_count (snd (run_legacy F bld N P fresh_state)) - st_count fresh_state)%N.
Proof. exact budget_bound_legacy_refuted. Qed.
Print Assumptions VM_budget_bound_legacy_refuted.

Theorem VM_witness_is_cut_off_now :
  forall F bld, exists t,
    fst (run F bld 150 nested_budget_program fresh_state) = OErr (ETaskFailure name_call1 ETimeout) t /\
    (st_count (snd (run F bld 150 nested_budget_program fresh_state)) <= 150)%N.
Proof. exact witness_is_cut_off_now. Qed.
Print Assumptions VM_witness_is_cut_off_now.

(* the fuel of the dispatch loop is only the structural argument of the recursion: any fuel that covers the
   remaining budget computes the same `_run`, at every nesting level - the loop never stops for lack of fuel *)
Theorem VM_dispatch_fuel_irrelevant : forall F bld P max_instr d fuel ip s,
  (st_rem s <= N.of_nat fuel)%N ->
  loop F bld P (run_at F bld P false max_instr d) fuel ip s
  = run_loop F bld P (run_at F bld P false max_instr d) ip s.
Proof. exact dispatch_fuel_irrelevant. Qed.
Print Assumptions VM_dispatch_fuel_irrelevant.
