(* C05 — memory limit is enforced and garbage is reclaimed.  Statements only; proofs in
   Cao.AllocProofs (allocator counters against a ledger of outstanding allocations) and
   Cao.GcProofs (what a collection keeps). *)
From Coq Require Import NArith List Bool.
Import ListNotations.
From stdpp Require Import gmap.
From Cao Require Import Alloc AllocProofs Gc GcProofs.
Local Open Scope N_scope.

(* over every history of allocations (with or without nested collections, which may release any
   subset of the outstanding allocations), releases and clears: accounted = sum of the outstanding
   allocation sizes <= limit *)
Theorem C05_ledger_invariant :
  forall (limit : N) (es : list lev),
    LInv (fst (l_run {| l_st := a_new limit; l_out := [] |} es)).
Proof. intros. apply ledger_inv. apply a_new_inv. Qed.
Print Assumptions C05_ledger_invariant.

(* OutOfMemory is reported only when what survives the collection plus the request exceeds the limit *)
Theorem C05_oom_only_when_full :
  forall s size align forced mask,
    LInv s -> snd (l_step s (LAlloc size align forced mask)) = Some false ->
    a_limit (l_st s) < Alloc.sum (keep_by mask (l_out s)) + (size + align).
Proof. exact oom_only_when_full. Qed.
Print Assumptions C05_oom_only_when_full.

(* so a program whose surviving data plus the request fits can allocate indefinitely *)
Theorem C05_bounded_live_never_oom :
  forall s size align forced mask,
    LInv s -> Alloc.sum (keep_by mask (l_out s)) + (size + align) <= a_limit (l_st s) ->
    snd (l_step s (LAlloc size align forced mask)) = Some true.
Proof. exact bounded_live_never_oom. Qed.
Print Assumptions C05_bounded_live_never_oom.

Theorem C05_refused_not_charged :
  forall s size align forced mask,
    LInv s -> snd (l_step s (LAlloc size align forced mask)) = Some false ->
    a_allocated (l_st (fst (l_step s (LAlloc size align forced mask)))) = Alloc.sum (keep_by mask (l_out s)).
Proof. exact refused_not_charged. Qed.
Print Assumptions C05_refused_not_charged.

(* clearing returns the counters to those of a fresh allocator: accounted memory is zero *)
Theorem C05_clear_is_fresh :
  forall s, fst (l_step s LClear) = {| l_st := a_new (a_limit (l_st s)); l_out := [] |}.
Proof. exact clear_is_fresh. Qed.
Print Assumptions C05_clear_is_fresh.

(* what a collection keeps: exactly the objects reachable from the roots and from the guarded
   objects (everything else is reclaimed), unchanged; the marking loop terminates *)
Theorem C05_gc_complete :
  forall (h : gmap N obj) (roots : list N), closed h -> no_gray h ->
  exists h', gc h roots = Some h' /\
    (forall a, is_Some (h' !! a) <-> (is_Some (h !! a) /\ reach h (protected_of h ++ roots) a)) /\
    (forall a o', h' !! a = Some o' ->
       exists o, h !! a = Some o /\ kids o' = kids o /\
                 col o' = (if is_protected o then Protected else White)) /\
    no_gray h'.
Proof. exact gc_spec. Qed.
Print Assumptions C05_gc_complete.

Example C05_nonvacuous :
  let s0 := {| l_st := a_new 100; l_out := [] |} in
  snd (l_run s0 [LAlloc 40 8 false []; LAlloc 40 8 false []; LAlloc 40 8 false [false; true];
                 LAlloc 40 8 false [true; true]])
  = [Some true; Some true; Some true; Some false].
Proof. vm_compute. reflexivity. Qed.
