(* C05 — memory limit is enforced and garbage is reclaimed.  Statements only; proofs in
   Cao.AllocProofs (allocator counters against a ledger of outstanding allocations) and
   Cao.GcProofs (what a collection keeps). *)
From Coq Require Import NArith List Bool.
Import ListNotations.
From stdpp Require Import gmap.
From Cao Require Import Alloc AllocProofs Gc GcProofs AllocGc.
Local Open Scope N_scope.

(* over every history of allocations (with or without nested collections, which may release any
   subset of the outstanding allocations), releases and clears: accounted = sum of the outstanding
   allocation sizes <= limit *)
Theorem C05_ledger_invariant :
  forall (limit : N) (es : list lev),
    LInv (fst (l_run {| l_st := a_new limit; l_out := [] |} es)).
Proof. intros. apply ledger_inv. apply a_new_inv. Qed.
Print Assumptions C05_ledger_invariant.

(* OutOfMemory is reported only when what survives the collection plus the request exceeds the limit *)
Theorem C05_oom_only_when_full :
  forall s size align forced mask,
    LInv s -> snd (l_step s (LAlloc size align forced mask)) = Some false ->
    a_limit (l_st s) < Alloc.sum (keep_by mask (l_out s)) + (size + align).
Proof. exact oom_only_when_full. Qed.
Print Assumptions C05_oom_only_when_full.

(* so a program whose surviving data plus the request fits can allocate indefinitely *)
Theorem C05_bounded_live_never_oom :
  forall s size align forced mask,
    LInv s -> Alloc.sum (keep_by mask (l_out s)) + (size + align) <= a_limit (l_st s) ->
    snd (l_step s (LAlloc size align forced mask)) = Some true.
Proof. exact bounded_live_never_oom. Qed.
Print Assumptions C05_bounded_live_never_oom.

Theorem C05_refused_not_charged :
  forall s size align forced mask,
    LInv s -> snd (l_step s (LAlloc size align forced mask)) = Some false ->
    a_allocated (l_st (fst (l_step s (LAlloc size align forced mask)))) = Alloc.sum (keep_by mask (l_out s)).
Proof. exact refused_not_charged. Qed.
Print Assumptions C05_refused_not_charged.

(* clearing returns the counters to those of a fresh allocator: accounted memory is zero *)
Theorem C05_clear_is_fresh :
  forall s, fst (l_step s LClear) = {| l_st := a_new (a_limit (l_st s)); l_out := [] |}.
Proof. exact clear_is_fresh. Qed.
Print Assumptions C05_clear_is_fresh.

(* what a collection keeps: exactly the objects reachable from the roots and from the guarded
   objects (everything else is reclaimed), unchanged; the marking loop terminates *)
Theorem C05_gc_complete :
  forall (h : gmap N obj) (roots : list N), closed h -> no_gray h ->
  exists h', gc h roots = Some h' /\
    (forall a, is_Some (h' !! a) <-> (is_Some (h !! a) /\ reach h (protected_of h ++ roots) a)) /\
    (forall a o', h' !! a = Some o' ->
       exists o, h !! a = Some o /\ kids o' = kids o /\
                 col o' = (if is_protected o then Protected else White)) /\
    no_gray h'.
Proof. exact gc_spec. Qed.
Print Assumptions C05_gc_complete.

(* Link of the two halves: when every outstanding allocation is owned by an object of the heap
   graph and the collection nested in an allocation releases exactly the allocations whose owner it
   frees ([gc_mask]), OutOfMemory is reported only when the allocations of the objects REACHABLE
   from the roots and the guarded objects, plus the request, exceed the limit - and a request that
   fits next to them always succeeds, whatever garbage is outstanding. *)
Theorem C05_oom_only_when_reachable_full :
  forall (s : lstate) (h : gmap N obj) (roots owners : list N),
    LInv s -> closed h -> no_gray h -> length owners = length (l_out s) ->
    forall size align forced,
      snd (l_step s (LAlloc size align forced (gc_mask h roots owners))) = Some false ->
      a_limit (l_st s) < bytes_where (gc_mask h roots owners) (l_out s) + (size + align).
Proof. exact oom_only_when_reachable_full. Qed.
Print Assumptions C05_oom_only_when_reachable_full.

Theorem C05_reachable_fits_never_oom :
  forall (s : lstate) (h : gmap N obj) (roots owners : list N),
    LInv s -> closed h -> no_gray h -> length owners = length (l_out s) ->
    forall size align forced,
      bytes_where (gc_mask h roots owners) (l_out s) + (size + align) <= a_limit (l_st s) ->
      snd (l_step s (LAlloc size align forced (gc_mask h roots owners))) = Some true.
Proof. exact reachable_fits_never_oom. Qed.
Print Assumptions C05_reachable_fits_never_oom.

(* [bytes_where (gc_mask ..)] counts allocation i exactly when its owner is live: in the heap and
   reachable from the guarded objects and the roots *)
Theorem C05_live_bytes_counts :
  forall (h : gmap N obj) (roots owners : list N), closed h -> no_gray h ->
    forall i a b, owners !! i = Some a -> gc_mask h roots owners !! i = Some b ->
      (b = true <-> live h roots a).
Proof. intros h roots owners Hc Hn. exact (live_bytes_counts h roots owners Hc Hn). Qed.
Print Assumptions C05_live_bytes_counts.

Example C05_nonvacuous :
  let s0 := {| l_st := a_new 100; l_out := [] |} in
  snd (l_run s0 [LAlloc 40 8 false []; LAlloc 40 8 false []; LAlloc 40 8 false [false; true];
                 LAlloc 40 8 false [true; true]])
  = [Some true; Some true; Some true; Some false].
Proof. vm_compute. reflexivity. Qed.
