(* C13 — the handle table is a faithful map on non-zero handles.  Statements only; proofs in
   Cao.HandleTableProofs (on top of Cao.HashMapProofs / Cao.ProbeProofs), Cao.HandleTableInst. *)
From Coq Require Import Arith NArith List Bool.
Import ListNotations.
From Cao Require Import Bits BitsProofs ProbeDefs HashMap HashMapProofs HandleTable HandleTableProofs
     HandleTableConsts HandleTableInst HashMapConserve HandleTableConserve.

Notation CTInv := (TInv (V:=_) fib_home32).
Notation CTLook := (lookup ueqb fib_home32).
Notation cstep V cv := (@ht_step V fib_home32 ht_needs_grow ht_grow_cap ht_min_cap_nat ht_reserve_cap cv).
Notation crun V cv := (@ht_run V fib_home32 ht_needs_grow ht_grow_cap ht_min_cap_nat ht_reserve_cap cv).

(* every history, from every requested initial capacity >= 0, mixing insert / entry / reserve /
   remove ...: the table invariant holds (probe chains unbroken, no duplicate handle, count = number
   of entries < capacity, capacity a power of two), EVERY operation terminates (no Diverge), and
   the only panics are the documented ones (index of an absent handle; entry() when growing fails) *)
Theorem C13_every_history :
  forall (V : Type) (clone_v : V -> V) (c : nat) (ops : list (top V)),
    Forall (@valid_top V) ops ->
    let '(m', outs) := crun V clone_v (ht_new V ht_min_cap_nat c) ops in
    CTInv m' /\ Forall2 (fun o x => good_tout o (fst x)) ops outs.
Proof.
  intros. apply ht_run_inv; auto using fib_home32_lt, ht_needs_grow_lt, ht_grow_cap_gt, ht_min_cap_ge2,
    ht_min_cap_pow2, ht_reserve_cap_ge. apply ht_new_inv; auto using ht_min_cap_ge2, ht_min_cap_pow2.
Qed.
Print Assumptions C13_every_history.

Theorem C13_get :
  forall (V : Type) (m : hmap unit V) h, CTInv m ->
    ht_get fib_home32 m h = Ok (option_map (@e_val unit V) (CTLook m (h, tt))).
Proof. intros. eapply ht_get_spec; eauto using fib_home32_lt. Qed.
Print Assumptions C13_get.

Theorem C13_insert :
  forall (V : Type) (m : hmap unit V) h v ok, CTInv m -> h <> 0%N ->
    (ok = false /\ ht_insert fib_home32 ht_needs_grow ht_grow_cap ht_min_cap_nat m h v ok = (Ok m, Some EAlloc, [v])) \/
    match CTLook m (h, tt) with
    | Some e0 =>
        exists m', ht_insert fib_home32 ht_needs_grow ht_grow_cap ht_min_cap_nat m h v ok = (Ok m', None, [e_val e0]) /\
          CTInv m' /\ hm_count m' = hm_count m /\
          (forall e, Ent m' e <-> (e = hk h v \/ (Ent m e /\ ek e <> (h, tt))))
    | None =>
        exists m', ht_insert fib_home32 ht_needs_grow ht_grow_cap ht_min_cap_nat m h v ok = (Ok m', None, []) /\
          CTInv m' /\ hm_count m' = S (hm_count m) /\
          (forall e, Ent m' e <-> (e = hk h v \/ Ent m e))
    end.
Proof.
  intros. eapply ht_insert_spec; eauto using fib_home32_lt, ht_needs_grow_lt, ht_grow_cap_gt, ht_min_cap_ge2,
    ht_min_cap_pow2.
Qed.
Print Assumptions C13_insert.

Theorem C13_entry :
  forall (V : Type) (m : hmap unit V) h ins ok, CTInv m -> h <> 0%N ->
    match CTLook m (h, tt) with
    | Some e0 => ht_entry fib_home32 ht_needs_grow ht_grow_cap ht_min_cap_nat m h ins ok = Ok (m, Some (e_val e0))
    | None =>
        (ok = false /\ ht_entry fib_home32 ht_needs_grow ht_grow_cap ht_min_cap_nat m h ins ok = Panic) \/
        match ins with
        | None => exists m', ht_entry fib_home32 ht_needs_grow ht_grow_cap ht_min_cap_nat m h ins ok = Ok (m', None) /\
                    CTInv m' /\ hm_count m' = hm_count m /\ (forall e, Ent m' e <-> Ent m e)
        | Some v => exists m', ht_entry fib_home32 ht_needs_grow ht_grow_cap ht_min_cap_nat m h ins ok = Ok (m', Some v) /\
                    CTInv m' /\ hm_count m' = S (hm_count m) /\
                    (forall e, Ent m' e <-> (e = hk h v \/ Ent m e))
        end
    end.
Proof.
  intros. eapply ht_entry_spec; eauto using fib_home32_lt, ht_needs_grow_lt, ht_grow_cap_gt, ht_min_cap_ge2,
    ht_min_cap_pow2.
Qed.
Print Assumptions C13_entry.

(* removing a handle never hides another *)
Theorem C13_remove :
  forall (V : Type) (m : hmap unit V) h, CTInv m ->
    match CTLook m (h, tt) with
    | Some e0 =>
        exists m', ht_remove fib_home32 m h = Ok (m', Some (e_val e0)) /\ CTInv m' /\
          S (hm_count m') = hm_count m /\ (forall e, Ent m' e <-> (Ent m e /\ ek e <> (h, tt)))
    | None => ht_remove fib_home32 m h = Ok (m, None)
    end.
Proof. intros. eapply ht_remove_spec; eauto using fib_home32_lt. Qed.
Print Assumptions C13_remove.

Theorem C13_other_handles_after_remove :
  forall (V : Type) (m m' : hmap unit V) kk, Inv fib_home32 m -> Inv fib_home32 m' ->
    (forall e, Ent m' e <-> (Ent m e /\ ek e <> kk)) ->
    forall k', CTLook m' k' = if pkeqb ueqb k' kk then None else CTLook m k'.
Proof. intros. eapply lookup_after_remove; eauto using fib_home32_lt, ueqb_spec. Qed.
Print Assumptions C13_other_handles_after_remove.

Theorem C13_iter_len :
  forall (V : Type) (m : hmap unit V), Inv fib_home32 m ->
    NoDup (map (@ek unit V) (contents (hm_slots m))) /\ length (contents (hm_slots m)) = hm_count m /\
    (forall e, In e (contents (hm_slots m)) <-> CTLook m (ek e) = Some e).
Proof. intros. eapply iter_spec; eauto using fib_home32_lt, ueqb_spec. Qed.
Print Assumptions C13_iter_len.

(* the model's `mod capacity` is the code's `& (capacity - 1)` on the capacities that occur *)
Theorem C13_mask_is_mod :
  forall k h, fib_home32 (2 ^ k) h = N.to_nat (N.land ((h * Consts.c_ht_fib_mult) mod two32) (N.of_nat (2 ^ k) - 1)).
Proof. exact fib_home32_is_mask. Qed.
Print Assumptions C13_mask_is_mod.

Example C13_nonvacuous :
  let r := crun N (fun v => v) (ht_new N ht_min_cap_nat 3)
             [TInsert 5%N 50%N true; TEntryIns 6%N 60%N true; TEntryIns 5%N 99%N true; TRemove _ 5%N;
              TGet _ 6%N; TGet _ 5%N; TLen _; TCap _] in
  map fst (snd r) = [TOUnit _; TOOptV (Some 60%N); TOOptV (Some 50%N); TOOptV (Some 50%N);
                     TOOptV (Some 60%N); TOOptV None; TONat _ 1; TONat _ 4].
Proof. vm_compute. reflexivity. Qed.

(* Conservation (drop exactly once), every history from a new table of any requested capacity,
   allocation faults included: the values handed to the table ([tgiven]: the argument of insert,
   the value of entry().or_insert_with when it is inserted, the value written through get_mut when
   the handle is present, the copies a clone makes) are, as a multiset, exactly the values still
   stored plus those the table dropped plus those remove handed back. *)
Theorem C13_conservation :
  forall (V : Type) (clone_v : V -> V) (c : nat) (ops : list (top V)),
    Forall (@valid_top V) ops ->
    let '(m', _) := crun V clone_v (ht_new V ht_min_cap_nat c) ops in
    let '(gs, ds, rs) := tledger fib_home32 ht_needs_grow ht_grow_cap ht_min_cap_nat ht_reserve_cap clone_v
                                 (ht_new V ht_min_cap_nat c) ops in
    Permutation.Permutation gs (vals m' ++ ds ++ rs).
Proof.
  intros. apply ht_history_conserves_new; auto using fib_home32_lt, ht_needs_grow_lt, ht_grow_cap_gt,
    ht_min_cap_ge2, ht_min_cap_pow2, ht_reserve_cap_ge.
Qed.
Print Assumptions C13_conservation.

Theorem C13_step_conserves :
  forall (V : Type) (clone_v : V -> V) (m : hmap unit V) (o : top V), CTInv m -> valid_top o ->
    let '(m', out, d) := cstep V clone_v m o in
    tbalanced m (tgiven fib_home32 ht_needs_grow ht_grow_cap ht_min_cap_nat clone_v m o out) m' d (treturned o out).
Proof.
  intros. apply ht_step_conserves; auto using fib_home32_lt, ht_needs_grow_lt, ht_grow_cap_gt,
    ht_min_cap_ge2, ht_min_cap_pow2, ht_reserve_cap_ge.
Qed.
Print Assumptions C13_step_conserves.

(* The only key the table refuses is the handle 0 (the marker of an empty slot).  Since 3f22e7c "handles are
   never 0" no constructor of Handle produces it: Handle::from_bytes / from_str / from_slice / from_bytes_iter
   (FNV-1a-32 of the bytes), Handle::from_u32 / from_u64 / from_i64 (hash_u64) and Handle + Handle (xor) map a
   result of 0 to 1.  (Before, a name, a card index path or a closure label that hashed to 0 reached
   insert / entry with the key 0: findings N-C04-1..3.) *)
Theorem C13_constructed_handles_nonzero :
  (forall bs : list N, handle_of_bytes bs <> 0%N) /\
  (forall k : N, handle_from_u32 k <> 0%N) /\
  (forall k : N, handle_from_u64 k <> 0%N) /\
  (forall a b : N, handle_add a b <> 0%N).
Proof.
  repeat split; intros; [apply handle_of_bytes_neq | apply handle_from_u32_neq | apply handle_from_u64_neq
                        | apply handle_add_neq].
Qed.
Print Assumptions C13_constructed_handles_nonzero.
