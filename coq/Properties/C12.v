(* C12 — the hash map is a faithful map.  Statements only; proofs in Cao.HashMapProofs,
   Cao.ProbeProofs, Cao.F32LoadProofs, Cao.HashMapInst.
   Throughout: K with a boolean equality reflecting Leibniz equality (K: Eq), an arbitrary hash
   function (collisions, wrap-around and every hash value are inside the quantification), the
   crate's bucket function, load test and growth rule (Consts.v is regenerated from /repo). *)
From Coq Require Import Arith NArith ZArith List Bool.
Import ListNotations.
From Cao Require Import Bits ProbeDefs HashMap HashMapProofs HashMapConsts HashMapInst HashMapConserve.

Notation CInv := (Inv fib_home64).
Notation CLookup kq := (lookup kq fib_home64).

(* every history from a fresh map of any requested capacity: the invariant (count = number of
   stored entries < capacity, probe chains unbroken, no duplicate key) is kept, every probing /
   shifting loop terminates and no internal assertion fires, with or without allocation faults *)
Theorem C12_every_history :
  forall (K V : Type) (keqb : K -> K -> bool) (hashfn : K -> N) (clone_k : K -> K) (clone_v : V -> V),
    (forall a b, reflect (a = b) (keqb a b)) ->
    forall (ops : list (hop K V)) (c : nat),
      let '(m', outs) := hm_run keqb hashfn fib_home64 cneeds_grow cnew_cap clone_k clone_v (hm_new K V c) ops in
      CInv m' /\ Forall (fun x => good_out (fst x)) outs.
Proof. intros. apply hm_run_inv; auto using fib_home64_lt, cneeds_grow_lt, cnew_cap_gt, new_inv. Qed.
Print Assumptions C12_every_history.

(* lookups return exactly what the abstraction [lookup] says *)
Theorem C12_get :
  forall (K V : Type) (keqb : K -> K -> bool), (forall a b, reflect (a = b) (keqb a b)) ->
    forall (m : hmap K V) h k, CInv m ->
      get_h keqb fib_home64 m h k = Ok (option_map (@e_val K V) (CLookup keqb m (h, k))).
Proof. intros. eapply get_h_spec; eauto using fib_home64_lt, cneeds_grow_lt, cnew_cap_gt. Qed.
Print Assumptions C12_get.

(* insert: replaces the value of a present key (dropping exactly the old key and value), or adds
   the key; fails only on an allocation fault, and then nothing is stored *)
Theorem C12_insert :
  forall (K V : Type) (keqb : K -> K -> bool), (forall a b, reflect (a = b) (keqb a b)) ->
    forall (m : hmap K V) h k v ok, CInv m ->
    match CLookup keqb m (h, k) with
    | Some e0 =>
        exists m', insert_h keqb fib_home64 cneeds_grow cnew_cap m h k v ok
                   = (Ok m', ([e_key e0], [e_val e0])) /\
          CInv m' /\ hcap m' = hcap m /\ hm_count m' = hm_count m /\
          (forall e, Ent m' e <-> (e = mk h k v \/ (Ent m e /\ ek e <> (h, k))))
    | None =>
        (ok = false /\ insert_h keqb fib_home64 cneeds_grow cnew_cap m h k v ok = (AllocErr, ([k], [v]))) \/
        (exists m', insert_h keqb fib_home64 cneeds_grow cnew_cap m h k v ok = (Ok m', ([], [])) /\
          CInv m' /\ hm_count m' = S (hm_count m) /\
          (forall e, Ent m' e <-> (e = mk h k v \/ Ent m e)))
    end.
Proof. intros. eapply insert_h_spec; eauto using fib_home64_lt, cneeds_grow_lt, cnew_cap_gt. Qed.
Print Assumptions C12_insert.

(* ... and the other keys are untouched *)
Theorem C12_insert_other_keys :
  forall (K V : Type) (keqb : K -> K -> bool), (forall a b, reflect (a = b) (keqb a b)) ->
    forall (m m' : hmap K V) h k v, CInv m -> CInv m' ->
    (forall e, Ent m' e <-> (e = mk h k v \/ (Ent m e /\ ek e <> (h, k)))) ->
    forall k', CLookup keqb m' k' = if pkeqb keqb k' (h, k) then Some (mk h k v) else CLookup keqb m k'.
Proof. intros. eapply lookup_after_insert; eauto using fib_home64_lt, cneeds_grow_lt, cnew_cap_gt. Qed.
Print Assumptions C12_insert_other_keys.

(* remove: returns the stored value, drops exactly the stored key, length decreases by one *)
Theorem C12_remove :
  forall (K V : Type) (keqb : K -> K -> bool), (forall a b, reflect (a = b) (keqb a b)) ->
    forall (m : hmap K V) h k, CInv m ->
    match CLookup keqb m (h, k) with
    | Some e0 =>
        exists m', remove_h keqb fib_home64 m h k = (Ok (m', Some (e_val e0)), ([e_key e0], [])) /\
          CInv m' /\ hcap m' = hcap m /\ S (hm_count m') = hm_count m /\
          (forall e, Ent m' e <-> (Ent m e /\ ek e <> (h, k)))
    | None => remove_h keqb fib_home64 m h k = (Ok (m, None), ([], []))
    end.
Proof. intros. eapply remove_h_spec; eauto using fib_home64_lt, cneeds_grow_lt, cnew_cap_gt. Qed.
Print Assumptions C12_remove.

(* removing one key never makes another key unreachable or changes its value *)
Theorem C12_remove_other_keys :
  forall (K V : Type) (keqb : K -> K -> bool), (forall a b, reflect (a = b) (keqb a b)) ->
    forall (m m' : hmap K V) kk, CInv m -> CInv m' ->
    (forall e, Ent m' e <-> (Ent m e /\ ek e <> kk)) ->
    forall k', CLookup keqb m' k' = if pkeqb keqb k' kk then None else CLookup keqb m k'.
Proof. intros. eapply lookup_after_remove; eauto using fib_home64_lt, cneeds_grow_lt, cnew_cap_gt. Qed.
Print Assumptions C12_remove_other_keys.

Theorem C12_get_mut :
  forall (K V : Type) (keqb : K -> K -> bool) (hashfn : K -> N), (forall a b, reflect (a = b) (keqb a b)) ->
    forall (m : hmap K V) k v, CInv m ->
    match CLookup keqb m (hashfn k, k) with
    | Some e0 =>
        exists m', get_mut_set keqb hashfn fib_home64 m k v = (Ok (m', true), ([], [e_val e0])) /\
          CInv m' /\ hcap m' = hcap m /\ hm_count m' = hm_count m /\
          (forall e, Ent m' e <-> (e = mk (e_hash e0) (e_key e0) v \/ (Ent m e /\ ek e <> (hashfn k, k))))
    | None => get_mut_set keqb hashfn fib_home64 m k v = (Ok (m, false), ([], []))
    end.
Proof. intros. eapply get_mut_set_spec; eauto using fib_home64_lt, cneeds_grow_lt, cnew_cap_gt. Qed.
Print Assumptions C12_get_mut.

Theorem C12_entry :
  forall (K V : Type) (keqb : K -> K -> bool) (hashfn : K -> N), (forall a b, reflect (a = b) (keqb a b)) ->
    forall (m : hmap K V) k ins ok, CInv m ->
    let h := hashfn k in
    match CLookup keqb m (h, k) with
    | Some e0 => entry_op keqb hashfn fib_home64 cneeds_grow cnew_cap m k ins ok = (Ok (m, Some (e_val e0)), ([k], []))
    | None =>
        (ok = false /\ entry_op keqb hashfn fib_home64 cneeds_grow cnew_cap m k ins ok = (AllocErr, ([k], []))) \/
        match ins with
        | None => exists m', entry_op keqb hashfn fib_home64 cneeds_grow cnew_cap m k ins ok = (Ok (m', None), ([k], [])) /\
                    CInv m' /\ hm_count m' = hm_count m /\ (forall e, Ent m' e <-> Ent m e)
        | Some v => exists m', entry_op keqb hashfn fib_home64 cneeds_grow cnew_cap m k ins ok = (Ok (m', Some v), ([], [])) /\
                    CInv m' /\ hm_count m' = S (hm_count m) /\
                    (forall e, Ent m' e <-> (e = mk h k v \/ Ent m e))
        end
    end.
Proof. intros. eapply entry_op_spec; eauto using fib_home64_lt, cneeds_grow_lt, cnew_cap_gt. Qed.
Print Assumptions C12_entry.

(* reserve / growth: same entries, same length, requested capacity *)
Theorem C12_adjust_capacity :
  forall (K V : Type) (keqb : K -> K -> bool), (forall a b, reflect (a = b) (keqb a b)) ->
    forall (m : hmap K V) c, CInv m -> hm_count m < c ->
    exists m', adjust keqb fib_home64 m c true = Ok m' /\ CInv m' /\ hcap m' = c /\
      hm_count m' = hm_count m /\ (forall e, Ent m' e <-> Ent m e).
Proof. intros. eapply adjust_spec; eauto using fib_home64_lt, cneeds_grow_lt, cnew_cap_gt. Qed.
Print Assumptions C12_adjust_capacity.

(* length = number of stored keys; iteration yields each entry exactly once *)
Theorem C12_iter_len :
  forall (K V : Type) (keqb : K -> K -> bool), (forall a b, reflect (a = b) (keqb a b)) ->
    forall (m : hmap K V), CInv m ->
    NoDup (map (@ek K V) (contents (hm_slots m))) /\ length (contents (hm_slots m)) = hm_count m /\
    (forall e, In e (contents (hm_slots m)) <-> CLookup keqb m (ek e) = Some e).
Proof. intros. eapply iter_spec; eauto using fib_home64_lt, cneeds_grow_lt, cnew_cap_gt. Qed.
Print Assumptions C12_iter_len.

(* a failed allocation is reported as an error and leaves the map exactly as it was *)
Theorem C12_alloc_failure_unchanged :
  forall (K V : Type) keqb hashfn clone_k clone_v (m : hmap K V) o,
    let '(m', out, d) := hm_step keqb hashfn fib_home64 cneeds_grow cnew_cap clone_k clone_v m o in
    out = RErr K V -> m' = m.
Proof. intros. apply hm_step_err_unchanged. Qed.
Print Assumptions C12_alloc_failure_unchanged.

(* the load test always leaves a free bucket (MAX_LOAD < 1, in f32 arithmetic) *)
Theorem C12_load_leaves_free_slot : forall c cap, cneeds_grow (S c) cap = false -> S c < cap.
Proof. exact cneeds_grow_lt. Qed.
Print Assumptions C12_load_leaves_free_slot.

(* non-vacuity: a concrete non-trivial history on Z keys with colliding hashes *)
Example C12_nonvacuous :
  let r := hm_run Z.eqb (fun _ => 7%N) fib_home64 cneeds_grow cnew_cap (fun k => k) (fun v => v)
             (hm_new Z N 0)
             [HInsert 1%Z 10%N true; HInsert 2%Z 20%N true; HInsert 3%Z 30%N true; HRemove _ 2%Z;
              HGet _ 3%Z; HGet _ 2%Z; HLen _ _; HInsert 1%Z 11%N true; HGet _ 1%Z] in
  map fst (snd r) = [RHash _ _ 7%N; RHash _ _ 7%N; RHash _ _ 7%N; ROptV _ (Some 20%N);
                     ROptV _ (Some 30%N); ROptV _ None; RNat _ _ 2; RHash _ _ 7%N; ROptV _ (Some 11%N)].
Proof. vm_compute. reflexivity. Qed.

(* Conservation (drop exactly once), every history from a new map, allocation faults included:
   the keys / values handed to the map ([given]: arguments of insert, the value written through
   get_mut when the key is present, the key of entry and its value when it is inserted, the copies
   a clone makes) are, as multisets, exactly the keys / values still stored plus those the map
   dropped plus (values) those remove handed back.  Hence nothing is dropped twice, nothing stored
   is lost or duplicated by growth, back-shift or replacement. *)
Theorem C12_conservation :
  forall (K V : Type) (keqb : K -> K -> bool) (hashfn : K -> N) (clone_k : K -> K) (clone_v : V -> V),
    (forall a b, reflect (a = b) (keqb a b)) ->
    forall (ops : list (hop K V)) (c : nat),
      let '(m', _) := hm_run keqb hashfn fib_home64 cneeds_grow cnew_cap clone_k clone_v (hm_new K V c) ops in
      let '(gs, ds, rs) := ledger keqb hashfn fib_home64 cneeds_grow cnew_cap clone_k clone_v (hm_new K V c) ops in
      Permutation.Permutation (fst gs) (keys m' ++ fst ds) /\
      Permutation.Permutation (snd gs) (vals m' ++ snd ds ++ rs).
Proof. intros. apply history_conserves_new; auto using fib_home64_lt, cneeds_grow_lt, cnew_cap_gt. Qed.
Print Assumptions C12_conservation.

(* one operation, any state satisfying the invariant *)
Theorem C12_step_conserves :
  forall (K V : Type) (keqb : K -> K -> bool) (hashfn : K -> N) (clone_k : K -> K) (clone_v : V -> V),
    (forall a b, reflect (a = b) (keqb a b)) ->
    forall (m : hmap K V) (o : hop K V), CInv m ->
      let '(m', out, d) := hm_step keqb hashfn fib_home64 cneeds_grow cnew_cap clone_k clone_v m o in
      balanced m (given keqb hashfn fib_home64 cneeds_grow cnew_cap clone_k clone_v m o out) m' d (returned o out).
Proof. intros. apply step_conserves; auto using fib_home64_lt, cneeds_grow_lt, cnew_cap_gt. Qed.
Print Assumptions C12_step_conserves.

Example C12_conservation_nonvacuous :
  let ops := [HInsert 1%Z 10%N true; HInsert 2%Z 20%N true; HInsert 1%Z 11%N true; HRemove _ 2%Z;
              HEntryIns 3%Z 30%N true; HGetMutSet 3%Z 31%N; HClear _ _] in
  ledger Z.eqb (fun _ => 7%N) fib_home64 cneeds_grow cnew_cap (fun k => k) (fun v => v) (hm_new Z N 0) ops
  = (([1; 2; 1; 3]%Z, [10; 20; 11; 30; 31]%N), ([1; 2; 1; 3]%Z, [10; 30; 11; 31]%N), [20%N]).
Proof. vm_compute. reflexivity. Qed.
