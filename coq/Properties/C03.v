(* C03 - the instruction budget bounds every run, so every run terminates.
   Statements only; proofs are in Cao.VmProofs (model: Cao.Vm, tied to /repo by the VM/C03 correspondence run).
   Every statement is generic in the binary64 instance [fops] and in the build profile.

   `run F bld N P s` is the model of `Vm::run` with max_instr = N: a total Gallina function, so every modelled
   run terminates; [st_count] is a ghost counter of dispatched instructions over all nesting levels (script
   functions called back by natives through Vm::run_function included: the menu natives call1/try1/call0 and the
   stdlib natives __min/__max/__sort).
   `run_flat` is `Vm::run` with run_function cut off; VmCheck.v reports code 5 if it ever disagrees with `run`
   on a generated run in which no native re-entered.
   The second half of the property ("the result is the same for every sufficient budget") is proved twice: for runs
   without re-entry under the hypothesis "no Timeout outcome" (C03_budget_monotone, C03_sufficient_budgets_agree),
   and for `run` itself, with re-entry at any depth through every native of the menu, under the hypothesis that the
   run ends with at least one unit of budget left (C03_budget_monotone_reentry,
   C03_sufficient_budgets_agree_reentry). The second hypothesis is the right one with re-entry: a native may
   swallow the Timeout of a nested run (try1), so "the outcome is not Timeout" does not mean that the budget
   sufficed; but a Timeout at any level leaves the shared counter at 0 and the counter never grows. *)
From Coq Require Import NArith List Lia.
From Cao Require Import Vm VmWitness VmProofs VmShift VmBudgetProofs.

(* for all programs P (looping, recursing, calling sort/min/max with looping callbacks), all start states and all
   budgets N: instructions_executed(run(P,N)) <= N *)
Theorem C03_budget_bound : forall F bld P N s,
  (st_count s <= st_count (snd (run F bld N P s)) /\
   st_count (snd (run F bld N P s)) <= st_count s + N.of_nat N)%N.
Proof. exact budget_bound. Qed.
Print Assumptions C03_budget_bound.

(* every run terminates with an outcome: `run` is total *)
Theorem C03_run_total : forall F bld N P s, exists o s', run F bld N P s = (o, s').
Proof. exact run_total. Qed.
Print Assumptions C03_run_total.

(* Timeout is reported instead of continuing: with at most one unit left, the loop dispatches nothing *)
Theorem C03_timeout_reported : forall F bld P reenter fuel ip s,
  (ip < code_len P)%N -> (st_rem s <= 1)%N ->
  loop F bld P reenter fuel ip s = RErr ETimeout ip (set_rem s 0).
Proof. exact timeout_reported. Qed.
Print Assumptions C03_timeout_reported.

(* a program that needs fewer than N instructions is unaffected by the budget (runs without re-entry) *)
Theorem C03_budget_monotone : forall F bld P N N' s o s',
  N <= N' -> run_flat F bld N P s = (o, s') -> ~ is_timeout_outcome o ->
  run_flat F bld N' P s = (o, s').
Proof. exact budget_monotone. Qed.
Print Assumptions C03_budget_monotone.

(* run(P,N) = run(P,N') whenever both complete (runs without re-entry) *)
Theorem C03_sufficient_budgets_agree : forall F bld P N1 N2 s r1 r2,
  run_flat F bld N1 P s = r1 -> run_flat F bld N2 P s = r2 ->
  ~ is_timeout_outcome (fst r1) -> ~ is_timeout_outcome (fst r2) -> r1 = r2.
Proof. exact sufficient_budgets_agree. Qed.
Print Assumptions C03_sufficient_budgets_agree.

(* a program that needs at least N instructions reports Timeout under budget N (runs without re-entry) *)
Theorem C03_timeout_reported_run : forall F bld P N N' s o' s'',
  1 <= N -> N <= N' -> run_flat F bld N' P s = (o', s'') ->
  (st_count s + N.of_nat N <= st_count s'')%N ->
  is_timeout_outcome (fst (run_flat F bld N P s)).
Proof. exact timeout_reported_run. Qed.
Print Assumptions C03_timeout_reported_run.

(* finding A-11 (fixed by 9ecef93): when every nested `_run` started from a fresh copy of max_instr the bound was
   false: the compiled corpus program "nested_budget" completed with budget 150 after 369 dispatches *)
Theorem C03_budget_bound_legacy_refuted :
  forall F bld,
  exists P N, 1 <= N /\
    fst (run_legacy F bld N P fresh_state) = OOk /\
    (N.of_nat N < st_count (snd (run_legacy F bld N P fresh_state)) - st_count fresh_state)%N.
Proof. exact budget_bound_legacy_refuted. Qed.
Print Assumptions C03_budget_bound_legacy_refuted.

(* the fuel of the dispatch loop is only the structural argument of the recursion: any fuel that covers the
   remaining budget computes the same `_run`, at every nesting level - the loop never stops for lack of fuel *)
Theorem C03_dispatch_fuel_irrelevant : forall F bld P max_instr d fuel ip s,
  (st_rem s <= N.of_nat fuel)%N ->
  loop F bld P (run_at F bld P false max_instr d) fuel ip s
  = run_loop F bld P (run_at F bld P false max_instr d) ip s.
Proof. exact dispatch_fuel_irrelevant. Qed.
Print Assumptions C03_dispatch_fuel_irrelevant.

(* with re-entry: a run that ends with budget left is unaffected by a larger budget: same outcome (payload and
   trace), same final state except that the remaining budget is larger by the difference *)
Theorem C03_budget_monotone_reentry : forall F bld P N1 N2 s o s1,
  length (st_calls s) < call_stack_size ->
  N1 <= N2 -> run F bld N1 P s = (o, s1) -> (1 <= st_rem s1)%N ->
  run F bld N2 P s = (o, set_rem s1 (st_rem s1 + N.of_nat (N2 - N1))).
Proof. exact budget_monotone_reentry. Qed.
Print Assumptions C03_budget_monotone_reentry.

(* with re-entry: run(P,N) = run(P,N') whenever both end with budget left: same outcome, same final state up to the
   remaining budget, same number of dispatched instructions (N - remaining = N' - remaining') *)
Theorem C03_sufficient_budgets_agree_reentry : forall F bld P N1 N2 s o1 s1 o2 s2,
  length (st_calls s) < call_stack_size ->
  run F bld N1 P s = (o1, s1) -> run F bld N2 P s = (o2, s2) ->
  (1 <= st_rem s1)%N -> (1 <= st_rem s2)%N ->
  o1 = o2 /\ set_rem s1 0 = set_rem s2 0 /\ st_count s1 = st_count s2 /\
  (st_rem s1 + N.of_nat N2 = st_rem s2 + N.of_nat N1)%N.
Proof. exact sufficient_budgets_agree_reentry. Qed.
Print Assumptions C03_sufficient_budgets_agree_reentry.
