(* C16 - the module editing API is index-consistent and atomic.
   Statements only; proofs are in Cao.CardEditProofs.  [step] / [run] are the kind-by-kind model of
   one API call / a history (CardEdit.v), [spec_step] / [spec_run] the rose-tree edit specification
   (CardEditSpec.v), [to_rmod] / [abs_obs] the abstraction of modules / observations.
   The model follows /repo after the repairs of A-25, A-26 and A-41; no known-finding class is left. *)
From Cao Require Import ListUtil CheckUtil CardAst CardEdit CardEditSpec CardEditProofs.

(* child enumeration, child count and child lookup agree for every card kind *)
Theorem C16_children_agree :
  forall c i, get_child c i = nth_error (iter_children c) i /\
              length (iter_children c) = num_children c.
Proof. exact children_agree. Qed.
Print Assumptions C16_children_agree.

(* the abstraction into rose trees loses nothing *)
Theorem C16_abstraction_injective :
  (forall c c', to_rose c = to_rose c' -> c = c') /\ (forall m m', to_rmod m = to_rmod m' -> m = m').
Proof. exact (conj to_rose_inj to_rmod_inj). Qed.
Print Assumptions C16_abstraction_injective.

(* every call, on every module, with every argument (valid or not): results (incl. the error variant
   and its depth) and the module afterwards are those of the plain tree-edit specification; no
   modelled unwrap / slice / Vec operation can panic *)
Theorem C16_step_refines :
  forall m o, spec_step (to_rmod m) o = (to_rmod (fst (step m o)), abs_obs (snd (step m o))).
Proof. exact step_refines. Qed.
Print Assumptions C16_step_refines.

(* ... and every history of calls *)
Theorem C16_run_refines :
  forall ops m,
    map (fun om : obs * module => (abs_obs (fst om), to_rmod (snd om))) (run m ops) =
    spec_run (to_rmod m) ops.
Proof. exact run_refines. Qed.
Print Assumptions C16_run_refines.

(* swap_cards in detail: the swap of the specification; a refused swap changes nothing and reports
   an error the specification allows *)
Theorem C16_swap_cards_refines :
  forall m a b,
    match snd (swap_cards m a b) with
    | SwOk => spec_swap (to_rmod m) a b = Some (to_rmod (fst (swap_cards m a b)))
    | SwErr e => spec_swap (to_rmod m) a b = None /\ fst (swap_cards m a b) = m /\
                 swap_err_ok (to_rmod m) a b e = true
    | SwPanic => False
    end.
Proof. exact swap_cards_refines. Qed.
Print Assumptions C16_swap_cards_refines.

(* the two lookups agree, results and errors *)
Theorem C16_get_card_get_card_mut : forall m idx, get_card m idx = get_card_mut m idx.
Proof. exact get_card_get_card_mut. Qed.
Print Assumptions C16_get_card_get_card_mut.

(* visiting all cards reports each card exactly once, with an index that looks up to that card *)
Theorem C16_walk_complete_unique :
  forall m,
    (forall idx c, In (idx, c) (walk_cards m) <-> get_card_mut m idx = ROk c) /\
    NoDup (map fst (walk_cards m)).
Proof. intros m. split; [intros idx c; apply walk_iff|apply walk_unique]. Qed.
Print Assumptions C16_walk_complete_unique.

(* the walk is the enumeration of iter_children *)
Theorem C16_visit_children_unfold :
  forall c id, visit_children c id = visit_list id (iter_children c) 0.
Proof. exact visit_children_unfold. Qed.
Print Assumptions C16_visit_children_unfold.

(* replacing back restores the module *)
Theorem C16_replace_back :
  forall m idx x m1 old,
    replace_card m idx x = ROk (m1, old) -> replace_card m1 idx old = ROk (m, x).
Proof. exact replace_back. Qed.
Print Assumptions C16_replace_back.

(* remove undoes insert at the same index, at list positions *)
Theorem C16_remove_insert :
  forall m idx x m1,
    insert_card m idx x = ROk (m1, tt) -> list_position (to_rmod m) idx = true ->
    remove_card m1 idx = ROk (m, x).
Proof. exact remove_insert. Qed.
Print Assumptions C16_remove_insert.

Theorem C16_remove_insert_top_level :
  forall m f i x m1,
    insert_card m (mk_index f [i]) x = ROk (m1, tt) -> remove_card m1 (mk_index f [i]) = ROk (m, x).
Proof. exact remove_insert_top_level. Qed.
Print Assumptions C16_remove_insert_top_level.

(* ... and not at fixed slots, where insert overwrites (documented behaviour of insert_child) *)
Theorem C16_remove_insert_fixed_refuted :
  exists m idx x m1 m2 y,
    insert_card m idx x = ROk (m1, tt) /\ remove_card m1 idx = ROk (m2, y) /\ y = x /\ m2 <> m.
Proof. exact remove_insert_fixed_refuted. Qed.
Print Assumptions C16_remove_insert_fixed_refuted.

(* swapping twice is the identity *)
Theorem C16_swap_involutive :
  forall m a b m1, swap_cards m a b = (m1, SwOk) -> swap_cards m1 a b = (m, SwOk).
Proof. exact swap_involutive. Qed.
Print Assumptions C16_swap_involutive.

(* swapping a card with its own ancestor fails and leaves the module unchanged, in either order *)
Theorem C16_swap_ancestor_fails_unchanged :
  forall m a b, ci_eqb a b = false -> related a b = true -> exists e, swap_cards m a b = (m, SwErr e).
Proof. exact swap_ancestor_fails_unchanged. Qed.
Print Assumptions C16_swap_ancestor_fails_unchanged.

Theorem C16_swap_fail_unchanged :
  forall m a b m' e, swap_cards m a b = (m', SwErr e) -> m' = m.
Proof. exact swap_fail_unchanged. Qed.
Print Assumptions C16_swap_fail_unchanged.

(* every call that reports an error (invalid index, missing function, refused swap) is a no-op *)
Theorem C16_failed_edit_unchanged :
  forall m o,
    match snd (step m o) with
    | ObErr _ | ObSwapErr _ | ObChildErr _ => fst (step m o) = m
    | _ => True
    end.
Proof. exact failed_edit_unchanged. Qed.
Print Assumptions C16_failed_edit_unchanged.

(* edits change exactly the addressed part: replace / swap leave every unrelated index alone ... *)
Theorem C16_replace_local :
  forall m idx x m' old j c,
    replace_card m idx x = ROk (m', old) -> related idx j = false ->
    (get_card_mut m' j = ROk c <-> get_card_mut m j = ROk c).
Proof. exact replace_local. Qed.
Print Assumptions C16_replace_local.

Theorem C16_swap_local :
  forall m a b m' j c,
    swap_cards m a b = (m', SwOk) -> related a j = false -> related b j = false ->
    (get_card_mut m' j = ROk c <-> get_card_mut m j = ROk c).
Proof. exact swap_local. Qed.
Print Assumptions C16_swap_local.

(* ... insert / remove leave alone every index that is not the parent, an ancestor of it, the edited
   position, a later sibling, or below one of those *)
Theorem C16_insert_local :
  forall m idx x m1 j c,
    insert_card m idx x = ROk (m1, tt) -> unaffected idx j ->
    (get_card_mut m1 j = ROk c <-> get_card_mut m j = ROk c).
Proof. exact insert_local. Qed.
Print Assumptions C16_insert_local.

Theorem C16_remove_local :
  forall m idx m1 y j c,
    remove_card m idx = ROk (m1, y) -> unaffected idx j ->
    (get_card_mut m1 j = ROk c <-> get_card_mut m j = ROk c).
Proof. exact remove_local. Qed.
Print Assumptions C16_remove_local.

(* the three repaired findings, as witnesses on the pre-repair definitions kept in CardEdit.v *)
Theorem C16_swap_same_legacy_refuted :
  exists m i c, get_card m i = ROk c /\ snd (swap_cards_legacy m i i) = SwOk /\
                fst (swap_cards_legacy m i i) <> m /\ swap_cards m i i = (m, SwOk).
Proof. exact swap_same_legacy_refuted. Qed.
Print Assumptions C16_swap_same_legacy_refuted.

Theorem C16_call_insert_legacy_refuted :
  exists c i x, insert_child_legacy c i x = IOk c /\ node_insert (to_rose x) i (to_rose c) = None /\
                insert_child c i x = IErr x.
Proof. exact call_insert_legacy_refuted. Qed.
Print Assumptions C16_call_insert_legacy_refuted.

Theorem C16_get_depth_legacy_refuted :
  exists m idx, get_card_legacy m idx = RErr (CardNotFound 0) /\ get_card_mut m idx = RErr (CardNotFound 1) /\
                get_card m idx = RErr (CardNotFound 1).
Proof. exact get_depth_legacy_refuted. Qed.
Print Assumptions C16_get_depth_legacy_refuted.

(* non-vacuity: the specification accepts a non-trivial history and says what the text says *)
Example C16_spec_nonvacuous :
  let m := Module [] [([102%N], {| f_args := []; f_cards := [CArray [CScalarInt 1; CScalarInt 2]; CAbort] |})] [] in
  map fst (run m [OpInsert (mk_index 0 [0; 1]) CScalarNil; OpRemove (mk_index 0 [0; 1]);
                  OpSwap (mk_index 0 [0; 0]) (mk_index 0 [1]); OpSwap (mk_index 0 [0]) (mk_index 0 [0; 1]);
                  OpRemove (mk_index 0 [0; 5]); OpGet (mk_index 0 [0; 0])])
  = [ObUnit; ObCard CScalarNil; ObUnit; ObSwapErr InvalidSwap; ObErr (CardNotFound 1); ObCard CAbort].
Proof. reflexivity. Qed.
