(* C16 - the module editing API is index-consistent and atomic.
   Statements only; proofs are in Cao.CardEditProofs.  [step] is the kind-by-kind model of one API
   call (CardEdit.v), [spec_step] the rose-tree edit specification (CardEditSpec.v), [to_rmod] /
   [abs_obs] the abstraction of modules / observations, [known_*] the decidable known-finding
   classes (the correspondence checker classifies with the same functions). *)
From Cao Require Import ListUtil CheckUtil CardAst CardEdit CardEditSpec CardEditProofs.

(* child enumeration, child count and child lookup agree for every card kind *)
Theorem C16_children_agree :
  forall c i, get_child c i = nth_error (iter_children c) i /\
              length (iter_children c) = num_children c.
Proof. exact children_agree. Qed.
Print Assumptions C16_children_agree.

(* the abstraction into rose trees loses nothing *)
Theorem C16_abstraction_injective : forall c c', to_rose c = to_rose c' -> c = c'.
Proof. exact to_rose_inj. Qed.
Print Assumptions C16_abstraction_injective.

(* mutable lookup, replace, remove: exactly the specification, for every module and index *)
Theorem C16_get_card_mut_refines :
  forall m idx,
    match get_card_mut m idx with
    | ROk c => spec_get (to_rmod m) idx = SpOk (to_rose c)
    | RErr e => spec_get (to_rmod m) idx = SpErr e
    | RPanic => False
    end.
Proof. exact get_card_mut_refines. Qed.
Print Assumptions C16_get_card_mut_refines.

Theorem C16_replace_card_refines :
  forall m idx x,
    match replace_card m idx x with
    | ROk (m', old) => spec_replace (to_rmod m) idx (to_rose x) = SpOk (to_rmod m', to_rose old)
    | RErr e => spec_replace (to_rmod m) idx (to_rose x) = SpErr e
    | RPanic => False
    end.
Proof. exact replace_card_refines. Qed.
Print Assumptions C16_replace_card_refines.

Theorem C16_remove_card_refines :
  forall m idx,
    match remove_card m idx with
    | ROk (m', x) => spec_remove (to_rmod m) idx = SpOk (to_rmod m', to_rose x)
    | RErr e => spec_remove (to_rmod m) idx = SpErr e
    | RPanic => False
    end.
Proof. exact remove_card_refines. Qed.
Print Assumptions C16_remove_card_refines.

(* insert: the specification, outside the A-26 class *)
Theorem C16_insert_card_refines :
  forall m idx x,
    known_call_insert m (OpInsert idx x) = false ->
    match insert_card m idx x with
    | ROk (m', _) => spec_insert (to_rmod m) idx (to_rose x) = SpOk (to_rmod m', tt)
    | RErr e => spec_insert (to_rmod m) idx (to_rose x) = SpErr e
    | RPanic => False
    end.
Proof. exact insert_card_refines. Qed.
Print Assumptions C16_insert_card_refines.

(* immutable lookup: same card; on a miss below the top level the depth is one too low *)
Theorem C16_get_card_refines :
  forall m idx,
    match get_card m idx with
    | ROk c => spec_get (to_rmod m) idx = SpOk (to_rose c)
    | RErr e =>
        match spec_get (to_rmod m) idx with
        | SpErr (CardNotFound (S q)) => e = CardNotFound q
        | SpErr e' => e = e'
        | SpOk _ => False
        end
    | RPanic => False
    end.
Proof. exact get_card_refines. Qed.
Print Assumptions C16_get_card_refines.

(* one API call of the model is the same call of the specification, outside the known classes
   (all calls except swap_cards / walk_cards, which are covered by the theorems below and by the
   correspondence run) *)
Theorem C16_step_refines_partial :
  forall m o,
    known_class m o = false -> covered_op o = true ->
    spec_step (to_rmod m) o = (to_rmod (fst (step m o)), abs_obs (snd (step m o))).
Proof. exact step_refines_partial. Qed.
Print Assumptions C16_step_refines_partial.

(* replacing back restores the module *)
Theorem C16_replace_back :
  forall m idx x m1 old,
    replace_card m idx x = ROk (m1, old) -> replace_card m1 idx old = ROk (m, x).
Proof. exact replace_back. Qed.
Print Assumptions C16_replace_back.

(* a swap that fails (ancestor, invalid index) leaves the module unchanged: the restore path works *)
Theorem C16_swap_fail_unchanged :
  forall m a b m' e, swap_cards m a b = (m', SwErr e) -> m' = m.
Proof. exact swap_fail_unchanged. Qed.
Print Assumptions C16_swap_fail_unchanged.

(* every call that reports an error is a no-op *)
Theorem C16_failed_edit_unchanged :
  forall m o,
    match snd (step m o) with
    | ObErr _ | ObSwapErr _ | ObChildErr _ => fst (step m o) = m
    | _ => True
    end.
Proof. exact failed_edit_unchanged. Qed.
Print Assumptions C16_failed_edit_unchanged.

(* every (index, card) that walk_cards reports looks up to that same card, through both lookups *)
Theorem C16_walk_complete_unique_partial :
  forall m idx x,
    In (idx, x) (walk_cards m) -> get_card_mut m idx = ROk x /\ get_card m idx = ROk x.
Proof. exact walk_complete_unique_partial. Qed.
Print Assumptions C16_walk_complete_unique_partial.

(* the walk is the enumeration of iter_children *)
Theorem C16_visit_children_unfold :
  forall c id, visit_children c id = visit_list id (iter_children c) 0.
Proof. exact visit_children_unfold. Qed.
Print Assumptions C16_visit_children_unfold.

(* the findings, as witnesses computed on the model *)
Theorem C16_swap_same_refuted :
  exists m i, fst (step m (OpSwap i i)) <> m /\ snd (step m (OpSwap i i)) = ObUnit /\
              known_swap_same m (OpSwap i i) = true.
Proof. exact swap_same_refuted. Qed.
Print Assumptions C16_swap_same_refuted.

Theorem C16_call_insert_refuted :
  exists m idx x, step m (OpInsert idx x) = (m, ObUnit) /\
                  spec_step (to_rmod m) (OpInsert idx x) = (to_rmod m, RoErr (CardNotFound 1)) /\
                  known_call_insert m (OpInsert idx x) = true.
Proof. exact call_insert_refuted. Qed.
Print Assumptions C16_call_insert_refuted.

Theorem C16_get_depth_refuted :
  exists m idx, get_card m idx = RErr (CardNotFound 0) /\ get_card_mut m idx = RErr (CardNotFound 1) /\
                known_get_depth m (OpGet idx) = true.
Proof. exact get_depth_refuted. Qed.
Print Assumptions C16_get_depth_refuted.

Theorem C16_remove_insert_fixed_refuted :
  exists m idx x m1 m2 y,
    insert_card m idx x = ROk (m1, tt) /\ remove_card m1 idx = ROk (m2, y) /\ y = x /\ m2 <> m.
Proof. exact remove_insert_fixed_refuted. Qed.
Print Assumptions C16_remove_insert_fixed_refuted.
