(* C02 — garbage collection never invalidates a value the program can still use.
   Statements only; proofs in Cao.GcProofs.  What is proved is the collector: given the root set
   the interpreter hands it (value stack, globals, closures of the active call frames, open
   upvalues) and the guarded objects, no reachable object is freed or changed.  That every value an
   instruction or native function is operating on is in that root set at every allocation point is
   NOT a theorem here: it is checked on the implementation by forced-collection schedules with
   quarantine and a heap audit (see the manifest: partial). *)
From Coq Require Import NArith List Bool.
Import ListNotations.
From stdpp Require Import gmap.
From Cao Require Import Gc GcProofs.

Theorem C02_gc_preserves_reachable :
  forall (h : gmap N obj) (roots : list N), closed h -> no_gray h ->
  exists h', gc h roots = Some h' /\
    (forall a, is_Some (h !! a) -> reach h (protected_of h ++ roots) a ->
       exists o o', h !! a = Some o /\ h' !! a = Some o' /\ kids o' = kids o) /\
    closed h' /\ no_gray h'.
Proof.
  intros h roots Hcl Hng. destruct (gc_spec h roots Hcl Hng) as [h' [Hgc [Hdom [Hobj Hng']]]].
  exists h'. split; [exact Hgc|]. split; [|split; [eapply gc_closed; eauto|exact Hng']].
  intros a Ha Hr. destruct (proj2 (Hdom a) (conj Ha Hr)) as [o' Ho'].
  destruct (Hobj a o' Ho') as [o [Ho [Hk _]]]. eauto.
Qed.
Print Assumptions C02_gc_preserves_reachable.

(* marking alone: everything reachable from non-white roots is non-white when the worklist is
   empty, and the shape of the heap is unchanged *)
Theorem C02_mark_sound :
  forall fuel (h : gmap N obj) roots h', closed h ->
  (forall r, r ∈ roots -> nonwhite h r) -> TInv h roots ->
  mark fuel h roots = Some h' ->
  forall a, reach h roots a -> nonwhite h' a.
Proof. exact mark_reach. Qed.
Print Assumptions C02_mark_sound.

Theorem C02_mark_terminates :
  forall fuel (h : gmap N obj) wl, length wl + whites h < fuel -> is_Some (mark fuel h wl).
Proof. exact mark_terminates. Qed.
Print Assumptions C02_mark_terminates.

Example C02_nonvacuous :
  let h : gmap N obj := list_to_map [(1%N, Obj White [2%N]); (2%N, Obj White []); (3%N, Obj White [2%N]);
                                     (4%N, Obj Protected [5%N]); (5%N, Obj White [])] in
  (fun o => map_to_list <$> o) (gc h [1%N]) =
  Some (map_to_list (list_to_map [(1%N, Obj White [2%N]); (2%N, Obj White []);
                                  (4%N, Obj Protected [5%N]); (5%N, Obj White [])] : gmap N obj)).
Proof. vm_compute. reflexivity. Qed.
