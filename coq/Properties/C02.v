(* C02 — garbage collection never invalidates a value the program can still use.
   Statements only; proofs in Cao.GcProofs (the collector) and Cao.VmGcClosed / VmGcReach / VmGcLink (the collector
   tied to the VM model).

   PROVED
   1. The collector (Gc.v = RuntimeData::gc as mark + sweep over an object graph): given the root set the interpreter
      hands it and the guarded objects, no reachable object is freed or changed; marking is sound and terminates
      (C02_gc_preserves_reachable, C02_mark_sound, C02_mark_terminates).
   2. The collector at the instruction boundaries of the VM model (Vm.v).  VmGcRoots.v reads off a VM state what
      runtime.rs reads: [vm_roots] (live value-stack slots, closure_object of every frame, every node of the
      open-upvalue list, assigned globals) and [vm_kids] (table: the (key, value) pairs of CaoLangTable::iter; closure:
      its upvalues; upvalue: the value at `location` - the raw stack slot while open, its own field when closed;
      nothing else).  [state_closed] = no dangling address anywhere the collector or an instruction looks.
      - C02_vm_initial_states_closed, C02_vm_step_keeps_closed, C02_vm_run_keeps_closed: state_closed holds in the
        fresh and in every cleared VM and is kept by EVERY instruction (all 47 opcodes, the 17 natives of the menu
        incl. min/max/sorted/to_array with their nested runs) for ARBITRARY bytecode; the heap never shrinks.
      - C02_collection_between_instructions / C02_collection_after_run: at every instruction boundary of every
        execution from a closed state, and when a run has ended, a collection terminates, keeps every object
        reachable from the VM's roots in place with the same references, frees exactly the unreachable ones and
        leaves a closed heap.
      - C02_operands_reachable: everything the next instruction can dereference (stack operands, locals, globals,
        the running frame's closure, its upvalues and the values they designate, the open-upvalue list) is
        reachable from the roots, hence survives.
   3. Collections in the MIDDLE of an instruction (VmAllocPoints.v: a hand transcription of where vm.rs /
      instr_execution.rs / runtime.rs / stdlib.rs call the allocator, with the VM state as the Rust code has it at
      that moment - operands still on the stack or already popped -, the objects under a live ObjectGcGuard, and the
      addresses the rest of the instruction still uses).
      - C02_alloc_point_temporaries_rooted: in every closed state, at every allocation point of the next instruction
        (StringLiteral, InitTable, SetProperty, FunctionPointer, Closure, NativeFunctionPointer, NthRow, AppendTable,
        RegisterUpvalue, and - entered by CallNative or by CallFunction on a native function value - all of
        __to_array and __min / __max / __sort up to the first call of the key function) the
        state is closed, the guards are heap objects and every used address is reachable from the VM roots ++ the
        guards, PROVIDED the addresses in ap_assumed are (see below).
      - C02_collection_with_guards / C02_collection_at_alloc_point: a collection there (roots of the VM, guarded
        objects Protected) terminates and keeps every used object in place with the same references.
      - C02_register_upvalue_after_copylast: ap_assumed of RegisterUpvalue (the closure it popped) is rooted when
        the instruction before was CopyLast of that closure, which is what the compiler always emits.
      - C02_alloc_points_match_step: for the allocating opcodes that are not native calls, when the instruction of
        Vm.v completes the heap has grown by exactly the number of object allocations (AObject points) listed for it.
      ap_assumed is non-empty only for (a) RegisterUpvalue: the popped closure - on hand-written bytecode without
      the CopyLast it is NOT rooted and a collection at init_upvalue frees it before c.upvalues.push (witness:
      VmAllocPointsWitness.alloc_gap_register_upvalue, program VmUpvalueSem.dead_slot_program; vm.rs documents
      non-compiler bytecode as unsupported); (b) NthRow after its first init_table: key / value copied out of the
      table (they are in the table; that iteration still finds them over the grown heap needs the stability of ==
      under allocation, VmTableKeys.veq0_ext, not redone), likewise the key / value being copied in the copy loops
      of the natives; (c) NthRow on a key of the key vector that the hash part does not hold.
   NOT PROVED (checked on the implementation by the forced-collection schedules with quarantine and heap audit,
   see the manifest: partial)
   - allocation points NOT in the model of 3: those of __min / __max / __sort from the first call of the key function
     on (the nested runs of the key function under the guards `entries` / max_key / key_guards, make_row, the
     result table of sorted), Vm::insert_value (host API);
     that AGrow points are conditional (capacity) is not modelled: the theorem covers them whether they occur or not.
   - that the allocation points, [vm_kids] and [vm_roots] are what the Rust code does is a hand transcription (tied
     to the code by the heap dumps compared in C02Check.v, by the forced schedules, which collect at exactly
     these points, and - for the allocation points - by C02Check.AllocSegCase: on every run the allocator calls
     the crate makes per instruction of eight marked programs, classified by their layout, are compared with
     map ap_kind (alloc_points ..) along Vm.v's own run); 32-bit hash collisions of table keys are not modelled; when the == / hash of a
     table key does not return (cyclic table as a key, A-37) the model keeps everything the table holds. *)
From Coq Require Import NArith List Bool.
Import ListNotations.
From stdpp Require Import gmap.
From Cao Require Import Gc GcProofs.

Theorem C02_gc_preserves_reachable :
  forall (h : gmap N obj) (roots : list N), closed h -> no_gray h ->
  exists h', gc h roots = Some h' /\
    (forall a, is_Some (h !! a) -> reach h (protected_of h ++ roots) a ->
       exists o o', h !! a = Some o /\ h' !! a = Some o' /\ kids o' = kids o) /\
    closed h' /\ no_gray h'.
Proof.
  intros h roots Hcl Hng. destruct (gc_spec h roots Hcl Hng) as [h' [Hgc [Hdom [Hobj Hng']]]].
  exists h'. split; [exact Hgc|]. split; [|split; [eapply gc_closed; eauto|exact Hng']].
  intros a Ha Hr. destruct (proj2 (Hdom a) (conj Ha Hr)) as [o' Ho'].
  destruct (Hobj a o' Ho') as [o [Ho [Hk _]]]. eauto.
Qed.
Print Assumptions C02_gc_preserves_reachable.

(* marking alone: everything reachable from non-white roots is non-white when the worklist is
   empty, and the shape of the heap is unchanged *)
Theorem C02_mark_sound :
  forall fuel (h : gmap N obj) roots h', closed h ->
  (forall r, r ∈ roots -> nonwhite h r) -> TInv h roots ->
  mark fuel h roots = Some h' ->
  forall a, reach h roots a -> nonwhite h' a.
Proof. exact mark_reach. Qed.
Print Assumptions C02_mark_sound.

Theorem C02_mark_terminates :
  forall fuel (h : gmap N obj) wl, length wl + whites h < fuel -> is_Some (mark fuel h wl).
Proof. exact mark_terminates. Qed.
Print Assumptions C02_mark_terminates.

Example C02_nonvacuous :
  let h : gmap N obj := list_to_map [(1%N, Obj White [2%N]); (2%N, Obj White []); (3%N, Obj White [2%N]);
                                     (4%N, Obj Protected [5%N]); (5%N, Obj White [])] in
  (fun o => map_to_list <$> o) (gc h [1%N]) =
  Some (map_to_list (list_to_map [(1%N, Obj White [2%N]); (2%N, Obj White []);
                                  (4%N, Obj Protected [5%N]); (5%N, Obj White [])] : gmap N obj)).
Proof. vm_compute. reflexivity. Qed.

(* ------------------------------------------------------------------ *)
(* the collector at the instruction boundaries of the VM model         *)
(* ------------------------------------------------------------------ *)
From Cao Require Import Stacks Vm VmGcRoots VmGcClosed VmGcReach VmGcLink VmGcWitness.

Theorem C02_vm_initial_states_closed :
  state_closed fresh_state /\ forall s, state_closed (clear_state s).
Proof. exact (conj fresh_state_closed clear_state_closed). Qed.
Print Assumptions C02_vm_initial_states_closed.

(* one instruction of the nested semantics (natives re-enter the interpreter through run_at), any opcode, any
   bytecode, any instruction pointer *)
Theorem C02_vm_step_keeps_closed :
  forall F bld P max_instr depth ip s, state_closed s ->
  match step F bld P (run_at F bld P false max_instr depth) ip s with
  | SNext _ s' | SExit s' | SErr _ _ s' => state_closed s' /\ length (st_heap s) <= length (st_heap s')
  | SStop _ _ => True
  end.
Proof. exact step_run_at_closed. Qed.
Print Assumptions C02_vm_step_keeps_closed.

Theorem C02_vm_run_keeps_closed :
  forall F bld budget P s o s',
  state_closed s -> run F bld budget P s = (o, s') -> (forall a, o <> OAbort a) ->
  state_closed s' /\ length (st_heap s) <= length (st_heap s').
Proof. exact run_closed. Qed.
Print Assumptions C02_vm_run_keeps_closed.

Theorem C02_collection_between_instructions :
  forall F bld P max_instr s0 s,
  state_closed s0 -> boundary F bld P max_instr s0 s ->
  exists h', gc (vm_abs F s) (vm_roots s) = Some h' /\
    (forall a, reach (vm_abs F s) (vm_roots s) a ->
       exists o, hget (st_heap s) a = Some o /\ h' !! a = Some (Gc.Obj White (vm_kids F s o))) /\
    (forall a, is_Some (h' !! a) -> reach (vm_abs F s) (vm_roots s) a) /\
    closed h' /\ no_gray h'.
Proof. exact collection_between_instructions. Qed.
Print Assumptions C02_collection_between_instructions.

Theorem C02_collection_after_run :
  forall F bld budget P s0 o s,
  state_closed s0 -> run F bld budget P s0 = (o, s) -> (forall a, o <> OAbort a) ->
  exists h', gc (vm_abs F s) (vm_roots s) = Some h' /\
    (forall a, reach (vm_abs F s) (vm_roots s) a ->
       exists ob, hget (st_heap s) a = Some ob /\ h' !! a = Some (Gc.Obj White (vm_kids F s ob))) /\
    (forall a, is_Some (h' !! a) -> reach (vm_abs F s) (vm_roots s) a) /\
    closed h' /\ no_gray h'.
Proof. exact collection_after_run. Qed.
Print Assumptions C02_collection_after_run.

Theorem C02_operands_reachable :
  forall F s,
    (forall k a, speek s k = VObj a -> reach (vm_abs F s) (vm_roots s) a) /\
    (forall a, snd (spop s) = VObj a -> reach (vm_abs F s) (vm_roots s) a) /\
    (forall a, slast s = VObj a -> reach (vm_abs F s) (vm_roots s) a) /\
    (forall i a, sget s i = VObj a -> reach (vm_abs F s) (vm_roots s) a) /\
    (forall i a, nth_error (st_globals s) i = Some (Some (VObj a)) -> reach (vm_abs F s) (vm_roots s) a) /\
    (forall a, st_open s = Some a -> reach (vm_abs F s) (vm_roots s) a) /\
    (forall f ca, In f (st_calls s) -> fr_clo f = Some ca ->
       reach (vm_abs F s) (vm_roots s) ca /\
       forall h ar ups ua, hget (st_heap s) ca = Some (OClo h ar ups) -> In ua ups ->
         reach (vm_abs F s) (vm_roots s) ua /\
         forall u b, hget (st_heap s) ua = Some (OUp u) ->
           match u_loc u with Some l => sraw_get s l | None => u_val u end = VObj b ->
           reach (vm_abs F s) (vm_roots s) b).
Proof. exact operands_reachable. Qed.
Print Assumptions C02_operands_reachable.

(* the hypotheses are satisfiable on non-trivial states: a hand-built state with a table holding a string, a closure
   with an open and a closed upvalue, globals, garbage (the garbage is dropped, the rest kept, VmGcWitness.v); a
   boundary reached by three instructions from the fresh VM; the end state of a run *)
Example C02_vm_nonvacuous :
  state_closed wit_state /\
  ((fun h' => map (fun a => bool_decide (is_Some (h' !! a))) [0; 1; 2; 3; 4; 5; 6; 7; 8; 9; 10]%N)
     <$> gc (vm_abs F0 wit_state) (vm_roots wit_state)
   = Some [true; true; true; true; true; true; false; false; true; true; false]) /\
  (exists s, boundary F0 Debug VmUpvalueSem.dead_slot_program 100%N wit_s0 s /\ length (st_heap s) = 2 /\
             vm_roots s = [1%N]) /\
  state_closed wit_s0.
Proof. exact (conj wit_state_closed (conj wit_collection (conj wit_boundary wit_s0_closed))). Qed.

(* ------------------------------------------------------------------ *)
(* collections in the middle of an instruction (allocation points)     *)
(* ------------------------------------------------------------------ *)
From Cao Require Import VmAllocPoints VmAllocPointsProofs VmAllocPointsWitness VmAllocPointsStep.

Theorem C02_alloc_point_temporaries_rooted :
  forall F P ip0 s p, state_closed s -> In p (alloc_points F P ip0 s) ->
  state_closed (ap_state p) /\
  Forall (aok (hl (ap_state p))) (ap_guards p) /\
  ((forall a, In a (ap_assumed p) -> reach (vm_abs F (ap_state p)) (vm_roots (ap_state p) ++ ap_guards p) a) ->
   forall a, In a (ap_uses p) -> reach (vm_abs F (ap_state p)) (vm_roots (ap_state p) ++ ap_guards p) a).
Proof. exact alloc_point_temporaries_rooted. Qed.
Print Assumptions C02_alloc_point_temporaries_rooted.

Theorem C02_collection_with_guards :
  forall F s g, state_closed s -> Forall (aok (hl s)) g ->
  exists h', gc (vm_abs_g F s g) (vm_roots s) = Some h' /\
  (forall a, reach (vm_abs F s) (vm_roots s ++ g) a ->
       exists o o', hget (st_heap s) a = Some o /\ h' !! a = Some o' /\ kids o' = vm_kids F s o) /\
  closed h' /\ no_gray h'.
Proof. exact collection_with_guards. Qed.
Print Assumptions C02_collection_with_guards.

Theorem C02_collection_at_alloc_point :
  forall F P ip0 s p, state_closed s -> In p (alloc_points F P ip0 s) ->
  (forall a, In a (ap_assumed p) -> reach (vm_abs F (ap_state p)) (vm_roots (ap_state p) ++ ap_guards p) a) ->
  exists h', gc (vm_abs_g F (ap_state p) (ap_guards p)) (vm_roots (ap_state p)) = Some h' /\
  (forall a, In a (ap_uses p) ->
       exists o o', hget (st_heap (ap_state p)) a = Some o /\ h' !! a = Some o' /\
  kids o' = vm_kids F (ap_state p) o) /\
  closed h' /\ no_gray h'.
Proof. exact collection_at_alloc_point. Qed.
Print Assumptions C02_collection_at_alloc_point.

Theorem C02_register_upvalue_after_copylast :
  forall F P ip s ca s' p,
  slast s = VObj ca -> spush s (VObj ca) = Some s' -> In p (ap_45 P ip s') ->
  forall a, In a (ap_assumed p) -> reach (vm_abs F (ap_state p)) (vm_roots (ap_state p) ++ ap_guards p) a.
Proof. exact register_after_copylast. Qed.
Print Assumptions C02_register_upvalue_after_copylast.

Theorem C02_alloc_points_match_step :
  forall F P bld reenter ip0 s ip' s',
  In (nth (N.to_nat ip0) (p_code P) 255%N) [8; 31; 33; 37; 38; 39; 40; 42; 45]%N ->
  step F bld P reenter ip0 s = SNext ip' s' ->
  length (st_heap s') = length (st_heap s) + n_objects (alloc_points F P ip0 s).
Proof. exact VmAllocPointsStep.alloc_points_match_step. Qed.
Print Assumptions C02_alloc_points_match_step.

(* non-vacuity: closed non-trivial states whose next instruction has allocation points (SetProperty with a fresh key;
   CopyLast then RegisterUpvalue next to an open upvalue; NthRow with its six allocations and growing guards), the
   collection at each point keeps everything used; and the gap of RegisterUpvalue without CopyLast *)
Example C02_alloc_points_nonvacuous :
  (state_closed st_setprop /\
  map ap_view (alloc_points F0 (code_only [33%N]) 0 st_setprop) = [(AGrow, [], [1; 9; 8]%N, [])] /\
  map (fun p => ap_survivors p (ap_uses p)) (alloc_points F0 (code_only [33%N]) 0 st_setprop)
   = [Some [true; true; true]]) /\
  (state_closed st_reg0 /\
  step F0 Debug prog_reg (run_at F0 Debug prog_reg false 100 0) 0 st_reg0 = SNext 1 st_reg /\
  map ap_view (alloc_points F0 prog_reg 1 st_reg) = [(AObject, [], [0; 1]%N, [0%N])] /\
  map (fun p => ap_survivors p (ap_uses p)) (alloc_points F0 prog_reg 1 st_reg) = [Some [true; true]]) /\
  (state_closed st_nthrow /\ length (alloc_points F0 (code_only [39%N]) 0 st_nthrow) = 6) /\
  (boundary F0 Debug VmUpvalueSem.dead_slot_program 100%N wit_s0 st_gap /\
  map ap_view (alloc_points F0 VmUpvalueSem.dead_slot_program 10 st_gap) = [(AObject, [], [0%N], [0%N])] /\
  map (fun p => ap_survivors p (ap_uses p)) (alloc_points F0 VmUpvalueSem.dead_slot_program 10 st_gap)
   = [Some [false]]).
Proof.
  split; [exact (conj st_setprop_closed ex_setprop)|].
  split; [exact (conj st_reg0_closed ex_register)|].
  split; [split; [exact st_nthrow_closed|vm_compute; reflexivity]|].
  exact alloc_gap_register_upvalue.
Qed.
