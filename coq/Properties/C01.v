(* C01 - compiled programs compute what the card language defines (with the closure part C06 and
   the library part C09 on the side of the reference semantics).  Statements only; proofs in
   Cao.RefSemProofs.

   What is stated here is true of the reference semantics itself.  The property proper is the
   simulation theorem between this semantics and the models of the compiler and of the VM; it is
   added when those models are merged.  Its statement (DESIGN.md section 6, C01):

     Theorem compile_correct :
       forall (m : module) (host : list str) (B : program) (o : obs) (fuel : nat),
         well_scoped m = true ->
         Compiler.compile m = Ok B ->
         eval_program fuel m host = PObs o ->
         exists N0, forall N config, N0 <= N ->
           observe_run (Vm.run N config (host_natives host) B) = o \/
           resource_error (Vm.run N config (host_natives host) B)
     where observe_run reads the outcome kind, the globals by name (through B's variable table,
     deep-converted to [tree], nil entries dropped) and the host-call log, and resource_error is
     one of Timeout / Stackoverflow / CallStackOverflow / OutOfMemory (possibly inside a
     TaskFailure): refinement up to resource exhaustion, the resource side being what C03 / C04 /
     C05 state.  [PUnspec] results are outside the claim.

   compile_correct is PROVED FOR EIGHT NESTED FRAGMENTS of the language (second half of this file:
   C01_compile_correct_f1 .. _f5, C01_compile_correct_f6r, C01_compile_correct_f6_partial, C01_compile_correct_f8,
   C01_fragments_well_scoped), against the merged models
   Compiler.compile, C15Link.to_vm, Vm.run and RefSem.eval_program: programs that consist of `main`
   alone, over integer / nil globals and local variables, with arithmetic, comparison and boolean operators, global
   assignment, IfTrue / IfFalse / IfElse, Composite, While and Repeat (with or without the loop variable), nested
   at will, where locals are declared in main, in Repeat bodies (popped at the end of every round) and inside
   Composite cards in such positions (the while-language with for-loops and block-local variables); the resource
   side is explicit (hypotheses on stack depth and budget).
   STATIC CALLS (fragment F9, end of this file: several functions, Call with parameters to functions declared later - no
   recursion -, Return, If*, locals and parameters) are covered END TO END: C01_compile_correct_f9, assembled from the
   reference half (C01_f9_reference_meaning), the compiler half (code: C01_f9_compile_shape_code, labels:
   C01_f9_compile_labels) and the VM half (Cao.C01SimF9b: the VM meaning of the calls by induction over the function list,
   a function only calls later ones; Cao.C01SimF9c: the assembly), under explicit resource hypotheses (depth_ok9: the
   frames of one chain of calls fit the value stack and the call stack; bytecode shorter than 2^31; budget) and the
   hypothesis that the label keys of the program are pairwise distinct.  C01_f9_call_keeps_caller_stack: at the Return
   instruction of a callee the caller's part of the value stack and every frame under the callee's are intact.
   FRAGMENT F10 = F9 plus calls as STATEMENT cards (their value stays on the value stack as a temporary until the
   function's Return / the end of main) is covered END TO END as well: C01_compile_correct_f10, with
   C01_f10_call_keeps_caller_stack and C01_f10_no_return_is_nil (a function that ends without a Return card returns nil) -
   last section of this file.
   STILL OPEN - carried by the differential check
   C01Check (the real compiler + VM against eval_program) only: reals, ForEach, calls outside F10 (recursion, calls to
   earlier functions, dynamic calls, calls in argument position, loops inside functions), tables, closures,
   natives. *)
From Coq Require Import List NArith ZArith Bool Arith String Ascii.
Import ListNotations.
From Cao Require Import CardAst RefSem RefScope RefSemProofs.

(* the semantics is a function: one program, one host, one fuel - one result *)
Theorem C01_deterministic :
  forall fuel m host r1 r2, eval_program fuel m host = r1 -> eval_program fuel m host = r2 -> r1 = r2.
Proof. intros; subst; reflexivity. Qed.
Print Assumptions C01_deterministic.

(* more fuel never changes an answer: an observation (or an "outside the domain" verdict)
   reached with some fuel is reached with every larger fuel; out-of-fuel is explicit *)
Theorem C01_fuel_monotone :
  forall m host f f' r,
    eval_program f m host = r -> r <> PFuel -> f <= f' -> eval_program f' m host = r.
Proof. exact eval_program_fuel_monotone. Qed.
Print Assumptions C01_fuel_monotone.

(* the same for the evaluator under the program level, any task, any state *)
Theorem C01_eval_fuel_monotone :
  forall P host limit limit' f f' t s r,
    eval P host limit f t s = r -> r <> RFuel -> f <= f' -> (limit <= limit')%N ->
    eval P host limit' f' t s = r.
Proof. exact eval_fuel_monotone. Qed.
Print Assumptions C01_eval_fuel_monotone.

(* ---- programs of cao-lang/tests/integration_tests.rs with the globals they assert ---- *)
Local Open Scope string_scope.
Definition s (x : string) : str := map (fun a => N_of_ascii a) (list_ascii_of_string x).
Definition fn (args : list string) (cards : list card) : function := Build_function (map s args) cards.
Definition prog (fns : list (string * function)) : module :=
  Module [] (map (fun nf => (s (fst nf), snd nf)) fns) [].
Definition globals_of (r : presult) : option (okind * list (str * tree)) :=
  match r with PObs o => Some (ob_kind o, ob_globals o) | _ => None end.

(* simple_for_loop: result = 0 + 1 + 2 + 3 + 4 *)
Example C01_simple_for_loop :
  globals_of (eval_program 500
    (prog [("main", fn [] [CSetGlobalVar (s "result") (CScalarInt 0);
                           CRepeat (Some (s "i")) (CScalarInt 5) (CCall (s "Loop") [CReadVar (s "i")])]);
           ("Loop", fn ["i"] [CSetGlobalVar (s "result") (CBin BAdd (CReadVar (s "i")) (CReadVar (s "result")))])])
    []) = Some (KOk, [(s "result", TrInt 10)]).
Proof. vm_compute. reflexivity. Qed.

(* simple_while_test: pooh counts the 42 rounds *)
Example C01_simple_while :
  globals_of (eval_program 2000
    (prog [("main", fn [] [CSetVar (s "i") (CScalarInt 42);
                           CSetGlobalVar (s "pooh") (CScalarInt 0);
                           CBin BWhile (CReadVar (s "i"))
                             (CComposite (s "body")
                                [CSetGlobalVar (s "pooh") (CBin BAdd (CScalarInt 1) (CReadVar (s "pooh")));
                                 CSetVar (s "i") (CBin BSub (CReadVar (s "i")) (CScalarInt 1))])])])
    []) = Some (KOk, [(s "pooh", TrInt 42)]).
Proof. vm_compute. reflexivity. Qed.

(* read_set_property_shorthand_test: winnie.foo = 2 *)
Example C01_property_shorthand :
  globals_of (eval_program 500
    (prog [("main", fn [] [CSetGlobalVar (s "winnie") CCreateTable;
                           CSetVar (s "winnie.foo") (CScalarInt 1);
                           CSetVar (s "winnie.foo") (CBin BAdd (CScalarInt 1) (CReadVar (s "winnie.foo")))])])
    []) = Some (KOk, [(s "winnie", TrTable [(TrStr (s "foo"), TrInt 2)])]).
Proof. vm_compute. reflexivity. Qed.

(* callback_test: a function value passed as an argument and called four times *)
Example C01_callback :
  globals_of (eval_program 500
    (prog [("main", fn [] (CSetGlobalVar (s "i") (CScalarInt 0) ::
                           repeat (CCall (s "call_callback") [CFunction (s "callback")]) 4));
           ("call_callback", fn ["cb"] [CDynamicCall (CReadVar (s "cb")) []]);
           ("callback", fn [] [CSetGlobalVar (s "i") (CBin BAdd (CReadVar (s "i")) (CScalarInt 1))])])
    []) = Some (KOk, [(s "i", TrInt 4)]).
Proof. vm_compute. reflexivity. Qed.

(* jump_function_w_params_test, with the arguments passed by the call: the FIRST argument is bound
   to the LAST declared parameter *)
Example C01_argument_binding :
  globals_of (eval_program 500
    (prog [("main", fn [] [CCall (s "pooh") [CStringLiteral (s "winnie the pooh"); CScalarInt 42]]);
           ("pooh", fn ["foo"; "bar"] [CSetGlobalVar (s "g_foo") (CReadVar (s "foo"));
                                       CSetGlobalVar (s "g_bar") (CReadVar (s "bar"))])])
    []) = Some (KOk, [(s "g_foo", TrInt 42); (s "g_bar", TrStr (s "winnie the pooh"))]).
Proof. vm_compute. reflexivity. Qed.

(* closure_shared_capture_test: two closures share the captured variable of a function that has
   returned; the writer's last write is what the reader sees *)
Example C01_closure_shared_capture :
  match globals_of (eval_program 500
    (prog [("createClosures", fn []
              [CSetVar (s "foo") (CStringLiteral (s "winnie the pooh"));
               CSetGlobalVar (s "g_write")
                 (CClosure [] [CSetVar (s "foo") (CStringLiteral (s "tiggers"));
                               CSetVar (s "foo") (CStringLiteral (s "kanga"))]);
               CSetGlobalVar (s "g_read")
                 (CClosure [] [CSetGlobalVar (s "g_result") (CReadVar (s "foo"))])]);
           ("main", fn [] [CSetVar (s "fun") (CCall (s "createClosures") []);
                           CDynamicCall (CReadVar (s "g_write")) [];
                           CDynamicCall (CReadVar (s "g_read")) []])])
    []) with
  | Some (KOk, g) => assoc (s "g_result") g
  | _ => None
  end = Some (TrStr (s "kanga")).
Proof. vm_compute. reflexivity. Qed.

(* closure_capture_in_loops_is_sane_test: every iteration's closure keeps its own letter; std.map
   calls them back (the callback (_, cb) receives key and value) *)
Example C01_closure_capture_in_loops :
  match globals_of (eval_program 1000
    (prog [("main", fn []
       [CSetVar (s "letters") (CArray [CStringLiteral (s "a"); CStringLiteral (s "b"); CStringLiteral (s "c")]);
        CSetVar (s "callbacks") (CArray []);
        CForEach None None (Some (s "v")) (CReadVar (s "letters"))
          (CBin BAppendTable (CClosure [] [CUn UReturn (CReadVar (s "v"))]) (CReadVar (s "callbacks")));
        CSetGlobalVar (s "g_result")
          (CCall (s "std.map")
             [CClosure [s "_"; s "cb"] [CUn UReturn (CDynamicCall (CReadVar (s "cb")) [])];
              CReadVar (s "callbacks")])])])
    []) with
  | Some (KOk, g) => assoc (s "g_result") g
  | _ => None
  end = Some (TrTable [(TrInt 0, TrStr (s "a")); (TrInt 1, TrStr (s "b")); (TrInt 2, TrStr (s "c"))]).
Proof. vm_compute. reflexivity. Qed.

(* native_functions_can_call_cao_lang_function, with the menu's re-entrant native call1(f, x) *)
Example C01_native_reentry :
  match eval_program 500
    (prog [("main", fn [] [CSetGlobalVar (s "r")
                             (CDynamicCall (CNativeFunction n_call1) [CFunction (s "bar"); CScalarInt 1])]);
           ("bar", fn ["x"] [CUn UReturn (CBin BAdd (CReadVar (s "x")) (CScalarInt 41))])])
    [n_call1] with
  | PObs o => Some (ob_globals o, ob_log o)
  | _ => None
  end = Some ([(s "r", TrInt 42)], [(n_call1, [TrFn; TrInt 1])]).
Proof. vm_compute. reflexivity. Qed.

(* local_variable_doesnt_leak_out_of_scope: a callee does not see the caller's locals *)
Example C01_locals_do_not_leak :
  match eval_program 500
    (prog [("main", fn [] [CSetVar (s "foo") (CScalarInt 123); CCall (s "bar") []]);
           ("bar", fn [] [CReadVar (s "foo")])]) [] with
  | PObs o => Some (ob_kind o)
  | _ => None
  end = Some (KErr EVarNotFound).
Proof. vm_compute. reflexivity. Qed.

(* all of these programs are in the class the differential check covers *)
Example C01_examples_well_scoped :
  well_scoped (prog [("main", fn [] [CSetVar (s "i") (CScalarInt 42);
                           CSetGlobalVar (s "pooh") (CScalarInt 0);
                           CBin BWhile (CReadVar (s "i"))
                             (CComposite (s "body")
                                [CSetGlobalVar (s "pooh") (CBin BAdd (CScalarInt 1) (CReadVar (s "pooh")));
                                 CSetVar (s "i") (CBin BSub (CReadVar (s "i")) (CScalarInt 1))])])]) = true
  /\ (* a new local under a conditional is outside the class *)
  well_scoped (prog [("main", fn [] [CBin BIfTrue (CScalarInt 1) (CSetVar (s "x") (CScalarInt 1))])]) = false
  /\ (* and so is a statement in an operand slot *)
  well_scoped (prog [("main", fn [] [CSetGlobalVar (s "g") (CSetVar (s "x") (CScalarInt 1))])]) = false.
Proof. vm_compute. repeat split; reflexivity. Qed.

(* ---- the former findings of the differential check, repaired in the crate ----
   R-1 (662697a), R-2 (d723a2c), R-3 (6d4c9a8), R-4 (53336fc), R-5 (a526e90).  The programs are the
   witnesses of findings/C01/*.json; they run as the first cases of every C01 check, where the real
   compiler + VM must produce exactly what is computed here (C01Check.check1 has no known classes any
   more).  What the examples state: the meaning the language gives to these programs, and that the
   programs lie in the classes that used to label the disagreement. *)
Definition log_of (r : presult) : option (okind * list (str * list tree)) :=
  match r with PObs o => Some (ob_kind o, ob_log o) | _ => None end.
Definition print_closures : card :=
  CForEach None None (Some (s "v")) (CReadVar (s "fs"))
           (CCallNative (s "log1") [CDynamicCall (CReadVar (s "v")) []]).

(* R-1b: the key function of std.min_by_key grows the table it is called on; min works on the three
   entries the table had at the call: the row of the smallest value, (1, 1) *)
Definition r1b_module : module :=
  prog [("main", fn []
     [CSetGlobalVar (s "t") (CArray [CScalarInt 3; CScalarInt 1; CScalarInt 2]);
      CSetGlobalVar (s "r")
        (CCall (s "std.min_by_key")
           [CClosure [s "k"; s "v"]
              [CRepeat None (CScalarInt 40) (CBin BAppendTable (CScalarInt 9) (CReadVar (s "t")));
               CUn UReturn (CReadVar (s "v"))];
            CReadVar (s "t")])])].
Example C01_R1_min_on_a_growing_table_repaired :
  match globals_of (eval_program 3000 r1b_module []) with
  | Some (KOk, g) =>
      (assoc (s "r") g,
       match assoc (s "t") g with Some (TrTable l) => Some (List.length l) | _ => None end)
  | _ => (None, None)
  end = (Some (TrTable [(TrStr (s "key"), TrInt 1); (TrStr (s "value"), TrInt 1)]), Some 123).
Proof. vm_compute. reflexivity. Qed.

(* R-2a: a captured local lies below the value left by a statement-level call when its loop-body
   scope ends; every iteration's closure keeps its own x *)
Definition r2a_module : module :=
  prog [("main", fn []
     [CSetVar (s "fs") CCreateTable;
      CRepeat (Some (s "i")) (CScalarInt 2)
        (CComposite (s "c")
           [CSetVar (s "x") (CBin BAdd (CBin BMul (CReadVar (s "i")) (CScalarInt 10)) (CScalarInt 5));
            CBin BAppendTable (CClosure [] [CUn UReturn (CReadVar (s "x"))]) (CReadVar (s "fs"));
            CCall (s "leaf") []]);
      print_closures]);
     ("leaf", fn [] [CUn UReturn (CScalarInt 7)])].
Example C01_R2a_captured_local_below_a_value_repaired :
  log_of (eval_program 2000 r2a_module [n_log1])
    = Some (KOk, [(n_log1, [TrInt 5]); (n_log1, [TrInt 15])])
  /\ well_scoped r2a_module = true /\ leaky r2a_module = true.
Proof. vm_compute. repeat split; reflexivity. Qed.

(* R-2b: two captured locals in one loop body *)
Definition r2b_module : module :=
  prog [("main", fn []
     [CSetVar (s "fs") CCreateTable;
      CRepeat (Some (s "i")) (CScalarInt 2)
        (CComposite (s "c")
           [CSetVar (s "x") (CBin BAdd (CBin BMul (CReadVar (s "i")) (CScalarInt 10)) (CScalarInt 5));
            CSetVar (s "y") (CBin BAdd (CBin BMul (CReadVar (s "i")) (CScalarInt 100)) (CScalarInt 50));
            CBin BAppendTable (CClosure [] [CUn UReturn (CBin BAdd (CReadVar (s "x")) (CReadVar (s "y")))])
                 (CReadVar (s "fs"))]);
      print_closures])].
Example C01_R2b_two_captured_locals_repaired :
  log_of (eval_program 2000 r2b_module [n_log1])
    = Some (KOk, [(n_log1, [TrInt 55]); (n_log1, [TrInt 165])])
  /\ well_scoped r2b_module = true /\ leaky r2b_module = true.
Proof. vm_compute. repeat split; reflexivity. Qed.

(* R-3: Get past the end of a table that has an entry under the key nil: the row is (nil, nil) *)
Definition r3_module : module :=
  prog [("main", fn []
     [CSetVar (s "t") CCreateTable;
      CTri TSetProperty (CScalarInt 1) (CReadVar (s "t")) CScalarNil;
      CCallNative (s "log1") [CBin BGet (CReadVar (s "t")) (CScalarInt 5)]])].
Example C01_R3_get_past_the_end_repaired :
  log_of (eval_program 500 r3_module [n_log1])
    = Some (KOk, [(n_log1, [TrTable [(TrStr (s "key"), TrNil); (TrStr (s "value"), TrNil)]])]).
Proof. vm_compute. reflexivity. Qed.

(* R-4: the loop variable i shadows the local i; the closures name the innermost visible i *)
Definition r4_module : module :=
  prog [("main", fn []
     [CSetVar (s "i") (CScalarInt 100);
      CSetVar (s "fs") CCreateTable;
      CRepeat (Some (s "i")) (CScalarInt 2)
        (CBin BAppendTable (CClosure [] [CUn UReturn (CReadVar (s "i"))]) (CReadVar (s "fs")));
      print_closures;
      CCallNative (s "log1") [CReadVar (s "i")]])].
Example C01_R4_closure_captures_innermost_repaired :
  log_of (eval_program 2000 r4_module [n_log1])
    = Some (KOk, [(n_log1, [TrInt 0]); (n_log1, [TrInt 1]); (n_log1, [TrInt 100])])
  /\ well_scoped r4_module = true /\ shadowing r4_module = true.
Proof. vm_compute. repeat split; reflexivity. Qed.

(* R-5: `low` gets the first global slot at compile time and is never assigned; reading it after a
   global in a higher slot was set is VarNotFound, and the globals assigned so far are visible *)
Definition r5_module : module :=
  prog [("main", fn []
     [CBin BIfTrue (CScalarInt 0) (CCallNative (s "log1") [CReadVar (s "low")]);
      CSetGlobalVar (s "g") (CScalarInt 1);
      CCallNative (s "log1") [CReadVar (s "low")];
      CSetGlobalVar (s "after") (CScalarInt 2)])].
Example C01_R5_unset_global_is_VarNotFound_repaired :
  match eval_program 500 r5_module [n_log1] with
  | PObs o => Some (ob_kind o, ob_globals o, ob_log o)
  | _ => None
  end = Some (KErr EVarNotFound, [(s "g", TrInt 1)], []).
Proof. vm_compute. reflexivity. Qed.

(* ==== the simulation theorem, proved for a fragment ====
   `compile_correct` (top of this file) is proved for the programs of fragment F1
   (C01SimDefs.in_f1): one module without submodules and imports whose only function is `main`,
   without parameters; every card of main is  SetGlobalVar g e  (g non-empty)  or a Comment, and e is
   built from ScalarInt (in i64), ScalarNil, ReadVar of a global (non-empty name without '.'),
   Add Sub Mul Less LessOrEq Equals NotEquals And Or Xor and Not.  Reading a global that was never
   assigned is inside the fragment (both sides: the error VarNotFound, the globals assigned so far).
   Outside: Div and ScalarFloat (reals: the VM model is generic in the float instance, RefSem uses
   SpecFloat), every other card kind, locals, control flow, calls (fragments F2, F3: not proved).

   Hypotheses, all decidable: the program is in F1; every expression
   fits the value stack (depth_ok: nesting depth + 1 < 256, otherwise the VM reports Stackoverflow:
   the resource side of compile_correct); the compiler returned a program B with fewer than 2^32
   variable ids (next_var is a wrapping u32); the budget covers one dispatch per instruction of
   main, Exit included, plus the one the loop keeps in reserve (needed_f1).
   Conclusion: same outcome kind, and the host reads the same globals by name - for every name
   that does not collide with a name of the program (no_collision), assigned or not.  (The VM and the
   compiled program know a global by the 32-bit FNV handle of its name, the language by its name.
   Since ce07816 the compiler refuses a program in which two global names share their handle -
   Compiler.name_checked - so `compile M = COk B` implies that the names of the program are
   collision-free; the earlier hypothesis handles_inj is now derived, C01SimComp.named_inj.) *)
From Cao Require C01SimDefs C01SimF1 Compiler CompilerProofs Vm C15Link.

Theorem C01_compile_correct_f1 :
  forall (F : Vm.fops) (bld : Vm.build) (M : module) (B : Compiler.compiled) (fuel : nat) (host : list str)
         (o : obs) (budget : nat),
    C01SimDefs.in_f1 M = true ->
    C01SimDefs.depth_ok (C01SimDefs.main_cards M) = true ->
    Compiler.compile M CompilerProofs.default_options = Compiler.COk B ->
    (N.of_nat (List.length (Compiler.p_ids B)) < Bits.two32)%N ->
    eval_program fuel M host = PObs o ->
    C01SimDefs.needed_f1 M <= budget ->
    let r := Vm.run F bld budget (C15Link.to_vm B) Vm.fresh_state in
    C01SimDefs.vm_kind (fst r) = Some (ob_kind o) /\
    forall n, C01SimDefs.no_collision (C01SimDefs.main_names (C01SimDefs.main_cards M)) n ->
      option_map C01SimDefs.vm_tree (Vm.read_var_by_name (C15Link.to_vm B) (snd r) n) = assoc n (ob_globals o).
Proof. exact C01SimF1.compile_correct_f1. Qed.
Print Assumptions C01_compile_correct_f1.

(* an instance: every hypothesis holds of this program, and both sides, computed independently
   (the compiler model, then the VM model on its output; the reference semantics), give what the
   theorem says - here the run ends in VarNotFound after three assignments *)
Definition f1_example : module :=
  prog [("main", fn [] [CSetGlobalVar (s "a") (CBin BAdd (CScalarInt 2) (CScalarInt 3));
                        CComment (s "a comment");
                        CSetGlobalVar (s "b") (CBin BMul (CReadVar (s "a"))
                                                 (CBin BLess (CReadVar (s "a")) (CScalarInt 10)));
                        CSetGlobalVar (s "c") (CUn UNot CScalarNil);
                        CSetGlobalVar (s "d") (CBin BSub (CScalarInt 1) (CReadVar (s "nope")));
                        CSetGlobalVar (s "e") (CScalarInt 1)])].
Definition no_floats : Vm.fops :=
  Vm.mkFops (fun _ _ => 0%N) (fun _ _ => 0%N) (fun _ _ => 0%N) (fun _ _ => 0%N) (fun _ _ => None)
            (fun _ => 0%N) (fun _ => 0%Z).
Example C01_compile_correct_f1_instance :
  match Compiler.compile f1_example CompilerProofs.default_options, eval_program 200 f1_example [] with
  | Compiler.COk B, PObs o =>
      C01SimDefs.in_f1 f1_example = true /\
      C01SimDefs.handles_inj (C01SimDefs.main_names (C01SimDefs.main_cards f1_example)) = true /\
      C01SimDefs.depth_ok (C01SimDefs.main_cards f1_example) = true /\
      (N.of_nat (List.length (Compiler.p_ids B)) <? Bits.two32)%N = true /\
      C01SimDefs.needed_f1 f1_example = 21 /\
      (ob_kind o, ob_globals o) = (KErr EVarNotFound, [(s "a", TrInt 5); (s "b", TrInt 5); (s "c", TrInt 1)]) /\
      let r := Vm.run no_floats Vm.Debug 21 (C15Link.to_vm B) Vm.fresh_state in
      C01SimDefs.vm_kind (fst r) = Some (ob_kind o) /\
      map (fun n => option_map C01SimDefs.vm_tree (Vm.read_var_by_name (C15Link.to_vm B) (snd r) n))
          [s "a"; s "b"; s "c"; s "d"; s "e"; s "nope"]
      = map (fun n => assoc n (ob_globals o)) [s "a"; s "b"; s "c"; s "d"; s "e"; s "nope"]
  | _, _ => False
  end.
Proof. vm_compute. repeat split; reflexivity. Qed.

(* ... and a run that succeeds, with i64 wrap-around, nil as an operand and a reassignment *)
Definition f1_example_ok : module :=
  prog [("main", fn [] [CSetGlobalVar (s "big") (CBin BAdd (CScalarInt 9223372036854775807) (CScalarInt 1));
                        CSetGlobalVar (s "n") (CBin BAdd CScalarNil CScalarNil);
                        CSetGlobalVar (s "m") (CBin BMul (CScalarInt 7) (CReadVar (s "n")));
                        CSetGlobalVar (s "big") (CBin BXor (CReadVar (s "big")) (CBin BEquals (CReadVar (s "n")) CScalarNil))])].
Example C01_compile_correct_f1_instance_ok :
  match Compiler.compile f1_example_ok CompilerProofs.default_options, eval_program 200 f1_example_ok [] with
  | Compiler.COk B, PObs o =>
      C01SimDefs.in_f1 f1_example_ok = true /\
      C01SimDefs.handles_inj (C01SimDefs.main_names (C01SimDefs.main_cards f1_example_ok)) = true /\
      C01SimDefs.depth_ok (C01SimDefs.main_cards f1_example_ok) = true /\
      (N.of_nat (List.length (Compiler.p_ids B)) <? Bits.two32)%N = true /\
      Nat.leb (C01SimDefs.needed_f1 f1_example_ok) 40 = true /\
      (ob_kind o, ob_globals o) = (KOk, [(s "big", TrInt 0); (s "n", TrNil); (s "m", TrInt 0)]) /\
      let r := Vm.run no_floats Vm.Release 40 (C15Link.to_vm B) Vm.fresh_state in
      C01SimDefs.vm_kind (fst r) = Some (ob_kind o) /\
      map (fun n => option_map C01SimDefs.vm_tree (Vm.read_var_by_name (C15Link.to_vm B) (snd r) n))
          [s "big"; s "n"; s "m"; s "other"]
      = map (fun n => assoc n (ob_globals o)) [s "big"; s "n"; s "m"; s "other"]
  | _, _ => False
  end.
Proof. vm_compute. repeat split; reflexivity. Qed.

(* ==== fragment F2a: F1 plus conditionals ====
   statements of main:  SetGlobalVar g e | Comment | IfTrue e s | IfFalse e s | IfElse e s s |
   Composite [s; ...], with e an expression of F1 and s again such statements (C01SimDefs2.in_f2).  The forward jumps of the
   compiled conditionals carry absolute byte addresses written by back-patching; the extra hypothesis
   is that the bytecode is shorter than 2^31 bytes (a jump operand is an i32; the debug build of the VM
   asserts it is not negative).  A run dispatches at most every instruction of main once, so the same
   budget bound as in F1 suffices (needed_f2).  Not covered: locals, loops, calls. *)
From Cao Require C01SimDefs2 C01SimF2.

Theorem C01_compile_correct_f2 :
  forall (F : Vm.fops) (bld : Vm.build) (M : module) (B : Compiler.compiled) (fuel : nat) (host : list str)
         (o : obs) (budget : nat),
    C01SimDefs2.in_f2 M = true ->
    C01SimDefs2.depth_ok2 (C01SimDefs.main_cards M) = true ->
    Compiler.compile M CompilerProofs.default_options = Compiler.COk B ->
    (N.of_nat (List.length (Compiler.p_ids B)) < Bits.two32)%N ->
    (N.of_nat (List.length (Compiler.p_bytecode B)) < 2147483648)%N ->
    eval_program fuel M host = PObs o ->
    C01SimDefs2.needed_f2 M <= budget ->
    let r := Vm.run F bld budget (C15Link.to_vm B) Vm.fresh_state in
    C01SimDefs.vm_kind (fst r) = Some (ob_kind o) /\
    forall n, C01SimDefs.no_collision (C01SimDefs2.main_names2 (C01SimDefs.main_cards M)) n ->
      option_map C01SimDefs.vm_tree (Vm.read_var_by_name (C15Link.to_vm B) (snd r) n) = assoc n (ob_globals o).
Proof. exact C01SimF2.compile_correct_f2. Qed.
Print Assumptions C01_compile_correct_f2.

(* an instance with nested conditionals, every branch kind taken and skipped *)
Definition f2_example : module :=
  prog [("main", fn [] [CSetGlobalVar (s "x") (CScalarInt 7);
                        CBin BIfTrue (CBin BLess (CReadVar (s "x")) (CScalarInt 10))
                             (CTri TIfElse (CBin BEquals (CReadVar (s "x")) (CScalarInt 7))
                                   (CSetGlobalVar (s "y") (CScalarInt 1))
                                   (CSetGlobalVar (s "y") (CScalarInt 2)));
                        CBin BIfFalse (CReadVar (s "y")) (CSetGlobalVar (s "z") (CScalarInt 3));
                        CTri TIfElse CScalarNil
                             (CSetGlobalVar (s "w") (CScalarInt 4))
                             (CBin BIfFalse CScalarNil (CSetGlobalVar (s "w") (CBin BMul (CReadVar (s "x")) (CReadVar (s "y")))));
                        CBin BIfTrue (CScalarInt 0) (CSetGlobalVar (s "never") (CReadVar (s "unset")))])].
Example C01_compile_correct_f2_instance :
  match Compiler.compile f2_example CompilerProofs.default_options, eval_program 200 f2_example [] with
  | Compiler.COk B, PObs o =>
      C01SimDefs2.in_f2 f2_example = true /\
      C01SimDefs.handles_inj (C01SimDefs2.main_names2 (C01SimDefs.main_cards f2_example)) = true /\
      C01SimDefs2.depth_ok2 (C01SimDefs.main_cards f2_example) = true /\
      (N.of_nat (List.length (Compiler.p_ids B)) <? Bits.two32)%N = true /\
      (N.of_nat (List.length (Compiler.p_bytecode B)) <? 2147483648)%N = true /\
      Nat.leb (C01SimDefs2.needed_f2 f2_example) 60 = true /\
      (ob_kind o, ob_globals o) = (KOk, [(s "x", TrInt 7); (s "y", TrInt 1); (s "w", TrInt 7)]) /\
      let r := Vm.run no_floats Vm.Debug 60 (C15Link.to_vm B) Vm.fresh_state in
      C01SimDefs.vm_kind (fst r) = Some (ob_kind o) /\
      map (fun n => option_map C01SimDefs.vm_tree (Vm.read_var_by_name (C15Link.to_vm B) (snd r) n))
          [s "x"; s "y"; s "z"; s "w"; s "never"; s "unset"]
      = map (fun n => assoc n (ob_globals o)) [s "x"; s "y"; s "z"; s "w"; s "never"; s "unset"]
  | _, _ => False
  end.
Proof. vm_compute. repeat split; reflexivity. Qed.

(* ==== fragment F3w: F2a plus While loops at the top level of main ====
   cards of main: a statement of F2a, or  While e s  with e an expression of F1 and s a statement of
   F2a (C01SimDefs3.in_f3).  Runs are no longer bounded by the program text, so the theorem has the
   shape of compile_correct itself: there is a budget N0 from which on the run of the compiled program
   has the outcome kind and the globals the reference semantics gives (a smaller budget ends in
   Timeout, the resource side).  A program whose reference evaluation does not finish within [fuel]
   (eval_program = PFuel) is outside the claim, as in compile_correct. *)
From Cao Require C01SimDefs3 C01SimF3.

Theorem C01_compile_correct_f3 :
  forall (F : Vm.fops) (bld : Vm.build) (M : module) (B : Compiler.compiled) (fuel : nat) (host : list str) (o : obs),
    C01SimDefs3.in_f3 M = true ->
    C01SimDefs3.depth_ok3 (C01SimDefs.main_cards M) = true ->
    Compiler.compile M CompilerProofs.default_options = Compiler.COk B ->
    (N.of_nat (List.length (Compiler.p_ids B)) < Bits.two32)%N ->
    (N.of_nat (List.length (Compiler.p_bytecode B)) < 2147483648)%N ->
    eval_program fuel M host = PObs o ->
    exists N0 : nat, forall budget : nat, N0 <= budget ->
      let r := Vm.run F bld budget (C15Link.to_vm B) Vm.fresh_state in
      C01SimDefs.vm_kind (fst r) = Some (ob_kind o) /\
      forall n, C01SimDefs.no_collision (C01SimDefs3.main_names3 (C01SimDefs.main_cards M)) n ->
        option_map C01SimDefs.vm_tree (Vm.read_var_by_name (C15Link.to_vm B) (snd r) n) = assoc n (ob_globals o).
Proof. exact C01SimF3.compile_correct_f3. Qed.
Print Assumptions C01_compile_correct_f3.

(* an instance: a loop that triples x until it passes 1000, a loop whose body is a conditional, a loop
   that is never entered; a loop with a Composite body;
   235 dispatches are needed, so budget 236 is the smallest that works *)
Definition f3_example : module :=
  prog [("main", fn [] [CSetGlobalVar (s "x") (CScalarInt 1);
                        CBin BWhile (CBin BLess (CReadVar (s "x")) (CScalarInt 1000))
                          (CSetGlobalVar (s "x") (CBin BMul (CReadVar (s "x")) (CScalarInt 3)));
                        CSetGlobalVar (s "y") (CScalarInt 0);
                        CBin BWhile (CBin BNotEquals (CReadVar (s "y")) (CScalarInt 7))
                          (CTri TIfElse (CBin BLess (CReadVar (s "y")) (CScalarInt 4))
                             (CSetGlobalVar (s "y") (CBin BAdd (CReadVar (s "y")) (CScalarInt 2)))
                             (CSetGlobalVar (s "y") (CBin BAdd (CReadVar (s "y")) (CScalarInt 3))));
                        CBin BWhile CScalarNil (CSetGlobalVar (s "never") (CScalarInt 1));
                        (* the loop of simple_while_test, counting down from 10 and summing *)
                        CSetGlobalVar (s "i") (CScalarInt 10);
                        CSetGlobalVar (s "sum") (CScalarInt 0);
                        CBin BWhile (CReadVar (s "i"))
                          (CComposite (s "body")
                             [CSetGlobalVar (s "sum") (CBin BAdd (CReadVar (s "sum")) (CReadVar (s "i")));
                              CSetGlobalVar (s "i") (CBin BSub (CReadVar (s "i")) (CScalarInt 1))])])].
Example C01_compile_correct_f3_instance :
  match Compiler.compile f3_example CompilerProofs.default_options, eval_program 300 f3_example [] with
  | Compiler.COk B, PObs o =>
      C01SimDefs3.in_f3 f3_example = true /\
      C01SimDefs.handles_inj (C01SimDefs3.main_names3 (C01SimDefs.main_cards f3_example)) = true /\
      C01SimDefs3.depth_ok3 (C01SimDefs.main_cards f3_example) = true /\
      (N.of_nat (List.length (Compiler.p_ids B)) <? Bits.two32)%N = true /\
      (N.of_nat (List.length (Compiler.p_bytecode B)) <? 2147483648)%N = true /\
      (ob_kind o, ob_globals o) = (KOk, [(s "x", TrInt 2187); (s "y", TrInt 7); (s "i", TrInt 0); (s "sum", TrInt 55)]) /\
      (let r := Vm.run no_floats Vm.Debug 400 (C15Link.to_vm B) Vm.fresh_state in
       C01SimDefs.vm_kind (fst r) = Some (ob_kind o) /\
       map (fun n => option_map C01SimDefs.vm_tree (Vm.read_var_by_name (C15Link.to_vm B) (snd r) n))
           [s "x"; s "y"; s "never"; s "i"; s "sum"]
       = map (fun n => assoc n (ob_globals o)) [s "x"; s "y"; s "never"; s "i"; s "sum"]) /\
      (* the budget matters: one unit too few is a Timeout *)
      fst (Vm.run no_floats Vm.Debug 236 (C15Link.to_vm B) Vm.fresh_state) = Vm.OOk /\
      C01SimDefs.vm_kind (fst (Vm.run no_floats Vm.Debug 235 (C15Link.to_vm B) Vm.fresh_state)) = Some (KErr (EOther 9))
  | _, _ => False
  end.
Proof. vm_compute. repeat split; reflexivity. Qed.

(* the instances lie in the class the property quantifies over, and the fragments are nested *)
Example C01_fragment_instances_well_scoped :
  well_scoped f1_example = true /\ well_scoped f1_example_ok = true /\
  well_scoped f2_example = true /\ well_scoped f3_example = true /\
  C01SimDefs2.in_f2 f1_example = true /\ C01SimDefs3.in_f3 f2_example = true /\
  C01SimDefs.in_f1 f2_example = false /\ C01SimDefs2.in_f2 f3_example = false.
Proof. vm_compute. repeat split; reflexivity. Qed.

(* ==== fragment F4: the while-language over integer / nil globals ====
   statements:  SetGlobalVar g e | Comment | IfTrue e s | IfFalse e s | IfElse e s s | While e s |
   Composite [s; ...], nested at will, e an expression of F1; main is a list of statements
   (C01SimDefs4.in_f4).  This contains F1, F2a and F3w; same hypotheses and same shape as F3w. *)
From Cao Require C01SimDefs4 C01SimF4.

Theorem C01_compile_correct_f4 :
  forall (F : Vm.fops) (bld : Vm.build) (M : module) (B : Compiler.compiled) (fuel : nat) (host : list str) (o : obs),
    C01SimDefs4.in_f4 M = true ->
    C01SimDefs4.depth_ok4 (C01SimDefs.main_cards M) = true ->
    Compiler.compile M CompilerProofs.default_options = Compiler.COk B ->
    (N.of_nat (List.length (Compiler.p_ids B)) < Bits.two32)%N ->
    (N.of_nat (List.length (Compiler.p_bytecode B)) < 2147483648)%N ->
    eval_program fuel M host = PObs o ->
    exists N0 : nat, forall budget : nat, N0 <= budget ->
      let r := Vm.run F bld budget (C15Link.to_vm B) Vm.fresh_state in
      C01SimDefs.vm_kind (fst r) = Some (ob_kind o) /\
      forall n, C01SimDefs.no_collision (C01SimDefs4.main_names4 (C01SimDefs.main_cards M)) n ->
        option_map C01SimDefs.vm_tree (Vm.read_var_by_name (C15Link.to_vm B) (snd r) n) = assoc n (ob_globals o).
Proof. exact C01SimF4.compile_correct_f4. Qed.
Print Assumptions C01_compile_correct_f4.

(* an instance with nested loops: the primes below 12 are counted by trial division with repeated
   subtraction (the language of the fragment has no division); a loop inside a conditional inside a loop *)
Definition f4_example : module :=
  prog [("main", fn []
    [CSetGlobalVar (s "count") (CScalarInt 0);
     CSetGlobalVar (s "n") (CScalarInt 2);
     CBin BWhile (CBin BLess (CReadVar (s "n")) (CScalarInt 12))
       (CComposite (s "")
          [CSetGlobalVar (s "prime") (CScalarInt 1);
           CSetGlobalVar (s "d") (CScalarInt 2);
           CBin BWhile (CBin BLess (CBin BMul (CReadVar (s "d")) (CReadVar (s "d"))) (CBin BAdd (CReadVar (s "n")) (CScalarInt 1)))
             (CComposite (s "")
                [(* r := n mod d by repeated subtraction *)
                 CSetGlobalVar (s "r") (CReadVar (s "n"));
                 CBin BWhile (CBin BLessOrEq (CReadVar (s "d")) (CReadVar (s "r")))
                   (CSetGlobalVar (s "r") (CBin BSub (CReadVar (s "r")) (CReadVar (s "d"))));
                 CBin BIfFalse (CReadVar (s "r")) (CSetGlobalVar (s "prime") (CScalarInt 0));
                 CSetGlobalVar (s "d") (CBin BAdd (CReadVar (s "d")) (CScalarInt 1))]);
           CBin BIfTrue (CReadVar (s "prime"))
             (CSetGlobalVar (s "count") (CBin BAdd (CReadVar (s "count")) (CScalarInt 1)));
           CSetGlobalVar (s "n") (CBin BAdd (CReadVar (s "n")) (CScalarInt 1))])])].
Example C01_compile_correct_f4_instance :
  match Compiler.compile f4_example CompilerProofs.default_options, eval_program 1000 f4_example [] with
  | Compiler.COk B, PObs o =>
      C01SimDefs4.in_f4 f4_example = true /\ C01SimDefs3.in_f3 f4_example = false /\
      C01SimDefs.handles_inj (C01SimDefs4.main_names4 (C01SimDefs.main_cards f4_example)) = true /\
      C01SimDefs4.depth_ok4 (C01SimDefs.main_cards f4_example) = true /\
      (N.of_nat (List.length (Compiler.p_ids B)) <? Bits.two32)%N = true /\
      (N.of_nat (List.length (Compiler.p_bytecode B)) <? 2147483648)%N = true /\
      (ob_kind o, assoc (s "count") (ob_globals o)) = (KOk, Some (TrInt 5)) /\
      let r := Vm.run no_floats Vm.Debug 3000 (C15Link.to_vm B) Vm.fresh_state in
      C01SimDefs.vm_kind (fst r) = Some (ob_kind o) /\
      map (fun n => option_map C01SimDefs.vm_tree (Vm.read_var_by_name (C15Link.to_vm B) (snd r) n))
          [s "count"; s "n"; s "prime"; s "d"; s "r"; s "x"]
      = map (fun n => assoc n (ob_globals o)) [s "count"; s "n"; s "prime"; s "d"; s "r"; s "x"]
  | _, _ => False
  end.
Proof. vm_compute. repeat split; reflexivity. Qed.

(* ==== fragment F5: the while-language with local variables of main ====
   F4 plus  SetVar x e  and  ReadVar x  on locals (C01SimDefs5.in_f5): a SetVar card directly in main's
   card list declares the local x when none exists (shadowing a global x) and assigns it otherwise;
   inside If / While / Composite a SetVar may only assign a local that exists (the compiler opens no
   scope there; RefScope.well_scoped forbids conditional declarations too).  A ReadVar names the most
   recent local of that name, else the global.  Locals live in the value stack (slot i = the i-th
   declared local, below the temporaries), RefSem's cells on the other side; the end of main pops
   them before Exit.  depth_ok5: locals of main + expression depth + 2 < 256.  Globals are observed as
   before; `main_gnames` are the names that are used as globals. *)
From Cao Require C01SimDefs5 C01SimF5.

Theorem C01_compile_correct_f5 :
  forall (F : Vm.fops) (bld : Vm.build) (M : module) (B : Compiler.compiled) (fuel : nat) (host : list str) (o : obs),
    C01SimDefs5.in_f5 M = true ->
    C01SimDefs5.depth_ok5 (C01SimDefs.main_cards M) = true ->
    Compiler.compile M CompilerProofs.default_options = Compiler.COk B ->
    (N.of_nat (List.length (Compiler.p_ids B)) < Bits.two32)%N ->
    (N.of_nat (List.length (Compiler.p_bytecode B)) < 2147483648)%N ->
    eval_program fuel M host = PObs o ->
    exists N0 : nat, forall budget : nat, N0 <= budget ->
      let r := Vm.run F bld budget (C15Link.to_vm B) Vm.fresh_state in
      C01SimDefs.vm_kind (fst r) = Some (ob_kind o) /\
      forall n, C01SimDefs.no_collision (C01SimDefs5.main_gnames [] (C01SimDefs.main_cards M)) n ->
        option_map C01SimDefs.vm_tree (Vm.read_var_by_name (C15Link.to_vm B) (snd r) n) = assoc n (ob_globals o).
Proof. exact C01SimF5.compile_correct_f5. Qed.
Print Assumptions C01_compile_correct_f5.

(* an instance: simple_while_test of the crate's test suite (a local counter, a global result), a
   local that shadows a global, an assignment to a local inside a conditional inside a loop, and a
   read of an unassigned global at the end *)
Definition f5_example : module :=
  prog [("main", fn []
    [CSetVar (s "i") (CScalarInt 42);
     CSetGlobalVar (s "pooh") (CScalarInt 0);
     CBin BWhile (CReadVar (s "i"))
       (CComposite (s "body")
          [CSetGlobalVar (s "pooh") (CBin BAdd (CScalarInt 1) (CReadVar (s "pooh")));
           CSetVar (s "i") (CBin BSub (CReadVar (s "i")) (CScalarInt 1))]);
     CSetGlobalVar (s "x") (CScalarInt 7);
     CSetVar (s "x") (CBin BMul (CReadVar (s "x")) (CScalarInt 6));       (* declares local x = 42, shadows global x *)
     CSetVar (s "acc") (CScalarInt 0);
     CSetVar (s "k") (CScalarInt 0);
     CBin BWhile (CBin BLess (CReadVar (s "k")) (CScalarInt 5))
       (CComposite (s "")
          [CTri TIfElse (CBin BEquals (CBin BMul (CBin BSub (CReadVar (s "k")) (CScalarInt 2)) (CBin BSub (CReadVar (s "k")) (CScalarInt 4))) (CScalarInt 0))
             (CSetVar (s "acc") (CBin BAdd (CReadVar (s "acc")) (CReadVar (s "x"))))
             (CSetVar (s "acc") (CBin BAdd (CReadVar (s "acc")) (CScalarInt 1)));
           CSetVar (s "k") (CBin BAdd (CReadVar (s "k")) (CScalarInt 1))]);
     CSetGlobalVar (s "result") (CReadVar (s "acc"));                     (* 42 + 42 + 3 = 87 *)
     CSetGlobalVar (s "y") (CReadVar (s "x"));                            (* the local: 42 *)
     CSetGlobalVar (s "z") (CReadVar (s "nope"))])].
Example C01_compile_correct_f5_instance :
  match Compiler.compile f5_example CompilerProofs.default_options, eval_program 1500 f5_example [] with
  | Compiler.COk B, PObs o =>
      C01SimDefs5.in_f5 f5_example = true /\ C01SimDefs4.in_f4 f5_example = false /\
      C01SimDefs5.depth_ok5 (C01SimDefs.main_cards f5_example) = true /\
      (N.of_nat (List.length (Compiler.p_ids B)) <? Bits.two32)%N = true /\
      (N.of_nat (List.length (Compiler.p_bytecode B)) <? 2147483648)%N = true /\
      (ob_kind o, ob_globals o) =
        (KErr EVarNotFound, [(s "pooh", TrInt 42); (s "x", TrInt 7); (s "result", TrInt 87); (s "y", TrInt 42)]) /\
      let r := Vm.run no_floats Vm.Debug 2000 (C15Link.to_vm B) Vm.fresh_state in
      C01SimDefs.vm_kind (fst r) = Some (ob_kind o) /\
      map (fun n => option_map C01SimDefs.vm_tree (Vm.read_var_by_name (C15Link.to_vm B) (snd r) n))
          [s "pooh"; s "x"; s "result"; s "y"; s "z"; s "i"; s "acc"]
      = map (fun n => assoc n (ob_globals o)) [s "pooh"; s "x"; s "result"; s "y"; s "z"; s "i"; s "acc"]
  | _, _ => False
  end.
Proof. vm_compute. repeat split; reflexivity. Qed.

(* ... and a run that reaches the end of main, where the three locals are popped before Exit *)
Definition f5_example_ok : module :=
  prog [("main", fn []
    [CSetVar (s "a") (CScalarInt 3);
     CSetVar (s "b") (CBin BMul (CReadVar (s "a")) (CReadVar (s "a")));
     CSetVar (s "a") (CBin BAdd (CReadVar (s "a")) (CReadVar (s "b")));
     CSetVar (s "c") (CBin BLess (CReadVar (s "b")) (CReadVar (s "a")));
     CBin BIfTrue (CReadVar (s "c")) (CSetGlobalVar (s "out") (CBin BSub (CReadVar (s "a")) (CReadVar (s "b"))));
     CSetGlobalVar (s "a") (CReadVar (s "a"))])].
Example C01_compile_correct_f5_instance_ok :
  match Compiler.compile f5_example_ok CompilerProofs.default_options, eval_program 300 f5_example_ok [] with
  | Compiler.COk B, PObs o =>
      C01SimDefs5.in_f5 f5_example_ok = true /\
      C01SimDefs5.depth_ok5 (C01SimDefs.main_cards f5_example_ok) = true /\
      (ob_kind o, ob_globals o) = (KOk, [(s "out", TrInt 3); (s "a", TrInt 12)]) /\
      let r := Vm.run no_floats Vm.Release 200 (C15Link.to_vm B) Vm.fresh_state in
      C01SimDefs.vm_kind (fst r) = Some (ob_kind o) /\
      Stacks.vcount (Vm.st_stack (snd r)) = 0 /\
      map (fun n => option_map C01SimDefs.vm_tree (Vm.read_var_by_name (C15Link.to_vm B) (snd r) n))
          [s "out"; s "a"; s "b"; s "c"]
      = map (fun n => assoc n (ob_globals o)) [s "out"; s "a"; s "b"; s "c"]
  | _, _ => False
  end.
Proof. vm_compute. repeat split; reflexivity. Qed.

(* ==== fragment F6r: F5 plus  Repeat n body  without a loop variable ====
   F5 plus the card  Repeat None n body  (C01SimDefs6.in_f6): the count n is any expression of the
   fragment, evaluated once; the body is a statement of the fragment (assignments, If*, While,
   Composite, Repeat, nested at will) that may assign the locals of main but declares none.  The
   compiler keeps the count and the round counter in two hidden locals above the locals of main for
   the time of the loop (two Pops behind it); RefSem's repeat clause is the other side.  A count that
   is not an integer (nil) or not positive gives zero rounds on both sides.
   The loop variable is the next fragment (F6 below).  Cells and slots still correspond one to one
   here (C01SimRef6.st6 / stK). *)
From Cao Require C01SimDefs6 C01SimF6.

Theorem C01_compile_correct_f6r :
  forall (F : Vm.fops) (bld : Vm.build) (M : module) (B : Compiler.compiled) (fuel : nat) (host : list str) (o : obs),
    C01SimDefs6.in_f6 M = true ->
    C01SimDefs6.depth_ok6 (C01SimDefs.main_cards M) = true ->
    Compiler.compile M CompilerProofs.default_options = Compiler.COk B ->
    (N.of_nat (List.length (Compiler.p_ids B)) < Bits.two32)%N ->
    (N.of_nat (List.length (Compiler.p_bytecode B)) < 2147483648)%N ->
    eval_program fuel M host = PObs o ->
    exists N0 : nat, forall budget : nat, N0 <= budget ->
      let r := Vm.run F bld budget (C15Link.to_vm B) Vm.fresh_state in
      C01SimDefs.vm_kind (fst r) = Some (ob_kind o) /\
      forall n, C01SimDefs.no_collision (C01SimDefs6.main_gnames6 [] (C01SimDefs.main_cards M)) n ->
        option_map C01SimDefs.vm_tree (Vm.read_var_by_name (C15Link.to_vm B) (snd r) n) = assoc n (ob_globals o).
Proof. exact C01SimF6.compile_correct_f6. Qed.
Print Assumptions C01_compile_correct_f6r.

(* an instance: a count computed from a local that the body then changes (the count does not follow),
   a Repeat inside a Repeat with counts 3, 2, 1, 0, -1, a nil count, a Repeat inside a While, and a
   read of an unassigned global inside a conditional inside a Repeat body (the run ends there, with
   the hidden locals still on the stack) *)
Definition f6_example : module :=
  prog [("main", fn []
    [CSetVar (s "n") (CScalarInt 4);
     CSetVar (s "acc") (CScalarInt 0);
     CSetGlobalVar (s "rounds") (CScalarInt 0);
     CRepeat None (CBin BAdd (CReadVar (s "n")) (CScalarInt 1))            (* 5 rounds; n changes inside, the count does not *)
       (CComposite (s "")
          [CSetVar (s "n") (CBin BSub (CReadVar (s "n")) (CScalarInt 1));
           CRepeat None (CReadVar (s "n"))                                   (* 3, 2, 1, 0, -1 rounds *)
             (CSetVar (s "acc") (CBin BAdd (CReadVar (s "acc")) (CScalarInt 10)));
           CSetGlobalVar (s "rounds") (CBin BAdd (CReadVar (s "rounds")) (CScalarInt 1))]);
     CSetGlobalVar (s "acc") (CReadVar (s "acc"));
     CSetGlobalVar (s "n") (CReadVar (s "n"));
     CRepeat None (CScalarNil) (CSetGlobalVar (s "never") (CScalarInt 1));
     CSetVar (s "k") (CScalarInt 0);
     CBin BWhile (CBin BLess (CReadVar (s "k")) (CScalarInt 2))
       (CComposite (s "")
          [CRepeat None (CScalarInt 3) (CSetGlobalVar (s "w") (CBin BAdd (CReadVar (s "acc")) (CReadVar (s "k"))));
           CSetVar (s "k") (CBin BAdd (CReadVar (s "k")) (CScalarInt 1))]);
     CRepeat None (CScalarInt 2)
       (CBin BIfTrue (CReadVar (s "rounds"))
          (CComposite (s "") [CSetGlobalVar (s "rounds") (CScalarInt 0); CSetGlobalVar (s "z") (CReadVar (s "nope"))]))])].
Example C01_compile_correct_f6r_instance :
  match Compiler.compile f6_example CompilerProofs.default_options, eval_program 3000 f6_example [] with
  | Compiler.COk B, PObs o =>
      C01SimDefs6.in_f6 f6_example = true /\ C01SimDefs5.in_f5 f6_example = false /\
      C01SimDefs6.depth_ok6 (C01SimDefs.main_cards f6_example) = true /\
      (N.of_nat (List.length (Compiler.p_ids B)) <? Bits.two32)%N = true /\
      (N.of_nat (List.length (Compiler.p_bytecode B)) <? 2147483648)%N = true /\
      (ob_kind o, ob_globals o) =
        (KErr EVarNotFound, [(s "rounds", TrInt 0); (s "acc", TrInt 60); (s "n", TrInt (-1)); (s "w", TrInt 61)]) /\
      let r := Vm.run no_floats Vm.Debug 3000 (C15Link.to_vm B) Vm.fresh_state in
      C01SimDefs.vm_kind (fst r) = Some (ob_kind o) /\
      map (fun n => option_map C01SimDefs.vm_tree (Vm.read_var_by_name (C15Link.to_vm B) (snd r) n))
          [s "rounds"; s "acc"; s "n"; s "never"; s "w"; s "z"; s "k"]
      = map (fun n => assoc n (ob_globals o)) [s "rounds"; s "acc"; s "n"; s "never"; s "w"; s "z"; s "k"]
  | _, _ => False
  end.
Proof. vm_compute. repeat split; reflexivity. Qed.

(* ... and a run that reaches the end of main: 3! by a Repeat whose body assigns two locals; the
   hidden locals and the locals of main are popped before Exit *)
Definition f6_example_ok : module :=
  prog [("main", fn []
    [CSetVar (s "n") (CScalarInt 3);
     CSetVar (s "f") (CScalarInt 1);
     CRepeat None (CReadVar (s "n"))
       (CComposite (s "")
          [CSetVar (s "f") (CBin BMul (CReadVar (s "f")) (CReadVar (s "n")));
           CSetVar (s "n") (CBin BSub (CReadVar (s "n")) (CScalarInt 1))]);
     CSetGlobalVar (s "fact") (CReadVar (s "f"));
     CSetGlobalVar (s "n") (CReadVar (s "n"))])].
Example C01_compile_correct_f6r_instance_ok :
  match Compiler.compile f6_example_ok CompilerProofs.default_options, eval_program 300 f6_example_ok [] with
  | Compiler.COk B, PObs o =>
      C01SimDefs6.in_f6 f6_example_ok = true /\
      C01SimDefs6.depth_ok6 (C01SimDefs.main_cards f6_example_ok) = true /\
      (ob_kind o, ob_globals o) = (KOk, [(s "fact", TrInt 6); (s "n", TrInt 0)]) /\
      let r := Vm.run no_floats Vm.Release 200 (C15Link.to_vm B) Vm.fresh_state in
      C01SimDefs.vm_kind (fst r) = Some (ob_kind o) /\
      Stacks.vcount (Vm.st_stack (snd r)) = 0 /\
      map (fun n => option_map C01SimDefs.vm_tree (Vm.read_var_by_name (C15Link.to_vm B) (snd r) n))
          [s "fact"; s "n"; s "f"]
      = map (fun n => assoc n (ob_globals o)) [s "fact"; s "n"; s "f"]
  | _, _ => False
  end.
Proof. vm_compute. repeat split; reflexivity. Qed.

(* ==== fragment F6: F5 plus  Repeat i n body  with or without the loop variable ====
   (C01SimDefs7.in_f7; the files of this fragment carry the number 7, F6r above being their first
   half.)  The count n is any expression of the fragment, evaluated once; i is None or Some x with x a
   plain name; the body is a statement of the fragment (assignments, If*, While, Composite, Repeat,
   nested at will).  In every round the compiler opens a scope, declares x in the slot above the two
   hidden locals, initialises it from the round counter, and pops it at the end of the round; the
   body may assign x (that does not change the number of rounds) and x may shadow a local or a
   global.  RefSem allocates a fresh cell for x in every round and never frees one, so the proof
   relates the visible locals to cells by a map (C01SimRef7.inv: the i-th visible entry lives in cell
   cs[i], the cells are distinct, the environment resolves a name to the cell of its most recent entry)
   instead of "cell i <-> slot i".
   PARTIAL with respect to the planned fragment F6 (hence the name): NOT covered are a body that
   declares locals of its own (a SetVar of a new name directly in the body: the compiler pops those at
   the end of each round as well) and ForEach.  The gap is on the compiler side of the proof only: the
   statement induction of C01SimComp7 / C01SimF7 keeps the local context fixed through a statement
   (emits6 Ld d Ld d, lnames R' = lnames R); the reference side (inv) already allows declarations in
   inner scopes.  (The body-local declarations are fragment F8 below, C01_compile_correct_f8; ForEach is open.) *)
From Cao Require C01SimDefs7 C01SimF7.

Theorem C01_compile_correct_f6_partial :
  forall (F : Vm.fops) (bld : Vm.build) (M : module) (B : Compiler.compiled) (fuel : nat) (host : list str) (o : obs),
    C01SimDefs7.in_f7 M = true ->
    C01SimDefs7.depth_ok7 (C01SimDefs.main_cards M) = true ->
    Compiler.compile M CompilerProofs.default_options = Compiler.COk B ->
    (N.of_nat (List.length (Compiler.p_ids B)) < Bits.two32)%N ->
    (N.of_nat (List.length (Compiler.p_bytecode B)) < 2147483648)%N ->
    eval_program fuel M host = PObs o ->
    exists N0 : nat, forall budget : nat, N0 <= budget ->
      let r := Vm.run F bld budget (C15Link.to_vm B) Vm.fresh_state in
      C01SimDefs.vm_kind (fst r) = Some (ob_kind o) /\
      forall n, C01SimDefs.no_collision (C01SimDefs7.main_gnames7 [] (C01SimDefs.main_cards M)) n ->
        option_map C01SimDefs.vm_tree (Vm.read_var_by_name (C15Link.to_vm B) (snd r) n) = assoc n (ob_globals o).
Proof. exact C01SimF7.compile_correct_f7. Qed.
Print Assumptions C01_compile_correct_f6_partial.

(* an instance: simple_for_loop of the crate's tests with a loop variable that shadows a local of
   main, a triangular double loop whose inner count is the outer loop variable, an assignment to the
   loop variable, and a read of the loop variable behind its loop (VarNotFound) *)
Definition f7_example : module :=
  prog [("main", fn []
    [CSetVar (s "i") (CScalarInt 100);
     CSetVar (s "sum") (CScalarInt 0);
     CRepeat (Some (s "i")) (CScalarInt 5)                                  (* shadows the local i of main: 0+1+2+3+4 *)
       (CSetVar (s "sum") (CBin BAdd (CReadVar (s "sum")) (CReadVar (s "i"))));
     CSetGlobalVar (s "result") (CReadVar (s "sum"));
     CSetGlobalVar (s "i") (CReadVar (s "i"));                             (* main's i again: 100 *)
     CSetVar (s "cnt") (CScalarInt 0);
     CRepeat (Some (s "a")) (CScalarInt 4)
       (CRepeat (Some (s "b")) (CReadVar (s "a"))                           (* pairs b < a < 4 : 6 *)
          (CComposite (s "")
             [CSetVar (s "cnt") (CBin BAdd (CReadVar (s "cnt")) (CScalarInt 1));
              CSetGlobalVar (s "last") (CBin BAdd (CBin BMul (CReadVar (s "a")) (CScalarInt 10)) (CReadVar (s "b")))]));
     CSetGlobalVar (s "cnt") (CReadVar (s "cnt"));
     CRepeat (Some (s "j")) (CScalarInt 3)
       (CComposite (s "")
          [CSetVar (s "j") (CBin BMul (CReadVar (s "j")) (CScalarInt 7));   (* assigning the loop variable does not change the count *)
           CSetGlobalVar (s "j7") (CReadVar (s "j"))]);
     CSetGlobalVar (s "jj") (CReadVar (s "j"));                            (* j is gone: VarNotFound *)
     CSetGlobalVar (s "never") (CScalarInt 1)])].
Example C01_compile_correct_f6_partial_instance :
  match Compiler.compile f7_example CompilerProofs.default_options, eval_program 3000 f7_example [] with
  | Compiler.COk B, PObs o =>
      C01SimDefs7.in_f7 f7_example = true /\ C01SimDefs6.in_f6 f7_example = false /\
      C01SimDefs7.depth_ok7 (C01SimDefs.main_cards f7_example) = true /\
      (N.of_nat (List.length (Compiler.p_ids B)) <? Bits.two32)%N = true /\
      (N.of_nat (List.length (Compiler.p_bytecode B)) <? 2147483648)%N = true /\
      (ob_kind o, ob_globals o) =
        (KErr EVarNotFound, [(s "result", TrInt 10); (s "i", TrInt 100); (s "last", TrInt 32); (s "cnt", TrInt 6); (s "j7", TrInt 14)]) /\
      let r := Vm.run no_floats Vm.Debug 3000 (C15Link.to_vm B) Vm.fresh_state in
      C01SimDefs.vm_kind (fst r) = Some (ob_kind o) /\
      map (fun n => option_map C01SimDefs.vm_tree (Vm.read_var_by_name (C15Link.to_vm B) (snd r) n))
          [s "result"; s "i"; s "cnt"; s "last"; s "j7"; s "jj"; s "never"; s "sum"; s "a"]
      = map (fun n => assoc n (ob_globals o)) [s "result"; s "i"; s "cnt"; s "last"; s "j7"; s "jj"; s "never"; s "sum"; s "a"]
  | _, _ => False
  end.
Proof. vm_compute. repeat split; reflexivity. Qed.

(* ... and a run that reaches the end of main (everything popped before Exit): simple_for_loop itself *)
Definition f7_example_ok : module :=
  prog [("main", fn []
    [CSetGlobalVar (s "result") (CScalarInt 0);
     CRepeat (Some (s "i")) (CScalarInt 5)
       (CSetGlobalVar (s "result") (CBin BAdd (CReadVar (s "result")) (CReadVar (s "i"))))])].
Example C01_compile_correct_f6_partial_instance_ok :
  match Compiler.compile f7_example_ok CompilerProofs.default_options, eval_program 300 f7_example_ok [] with
  | Compiler.COk B, PObs o =>
      C01SimDefs7.in_f7 f7_example_ok = true /\
      C01SimDefs7.depth_ok7 (C01SimDefs.main_cards f7_example_ok) = true /\
      (ob_kind o, ob_globals o) = (KOk, [(s "result", TrInt 10)]) /\
      let r := Vm.run no_floats Vm.Release 200 (C15Link.to_vm B) Vm.fresh_state in
      C01SimDefs.vm_kind (fst r) = Some (ob_kind o) /\
      Stacks.vcount (Vm.st_stack (snd r)) = 0 /\
      map (fun n => option_map C01SimDefs.vm_tree (Vm.read_var_by_name (C15Link.to_vm B) (snd r) n)) [s "result"; s "i"]
      = map (fun n => assoc n (ob_globals o)) [s "result"; s "i"]
  | _, _ => False
  end.
Proof. vm_compute. repeat split; reflexivity. Qed.

(* ==== fragment F8: declarations in scopes - Repeat bodies with locals of their own ====
   (C01SimDefs8.in_f8.)  F6 above plus: a  SetVar x e  of a NEW name x in every declaring position - directly in
   main, directly as the body of a Repeat, and inside Composite cards standing in such a position (nested at
   will: RefScope.well_scoped's rule for this part of the language; the branches of If* and the body of a While
   are not declaring positions - the compiler opens no scope there -, a Repeat inside them is, again).  The body
   of a Repeat is a scope: the compiler puts the locals it declares above the two hidden locals and the loop
   variable and scope_end pops them, with the loop variable, at the end of every round (code8: `repeat IPop`);
   RefSem drops the environment of the body after each round.  A body-local may shadow a local of an outer
   scope or a global and is gone behind the loop (a read there names the outer variable, or is VarNotFound).
   This closes the gap left by C01_compile_correct_f6_partial except for ForEach.
   depth_ok8: the locals that can be declared plus the temporaries on the deepest path fit the value stack
   (C01SimDefs8.seq_depth8 + 1 < 256). *)
From Cao Require C01SimDefs8 C01SimF8.

Theorem C01_compile_correct_f8 :
  forall (F : Vm.fops) (bld : Vm.build) (M : module) (B : Compiler.compiled) (fuel : nat) (host : list str) (o : obs),
    C01SimDefs8.in_f8 M = true ->
    C01SimDefs8.depth_ok8 (C01SimDefs.main_cards M) = true ->
    Compiler.compile M CompilerProofs.default_options = Compiler.COk B ->
    (N.of_nat (List.length (Compiler.p_ids B)) < Bits.two32)%N ->
    (N.of_nat (List.length (Compiler.p_bytecode B)) < 2147483648)%N ->
    eval_program fuel M host = PObs o ->
    exists N0 : nat, forall budget : nat, N0 <= budget ->
      let r := Vm.run F bld budget (C15Link.to_vm B) Vm.fresh_state in
      C01SimDefs.vm_kind (fst r) = Some (ob_kind o) /\
      forall n, C01SimDefs.no_collision (C01SimDefs8.gnames_seq8 [] (C01SimDefs.main_cards M)) n ->
        option_map C01SimDefs.vm_tree (Vm.read_var_by_name (C15Link.to_vm B) (snd r) n) = assoc n (ob_globals o).
Proof. exact C01SimF8.compile_correct_f8. Qed.
Print Assumptions C01_compile_correct_f8.

(* an instance: a body-local sq of the outer loop that an inner loop (with a local t of its own) reassigns, a
   Repeat with a declaring body inside a conditional inside a Repeat body, a body-local w of a loop without loop
   variable, a declaration inside a top-level Composite, and a read of the body-local sq behind its loop
   (VarNotFound: sq is gone) *)
Definition f8_example : module :=
  prog [("main", fn []
    [CSetVar (s "sum") (CScalarInt 0);
     CRepeat (Some (s "i")) (CScalarInt 4)
       (CComposite (s "")
          [CSetVar (s "sq") (CBin BMul (CReadVar (s "i")) (CReadVar (s "i")));      (* a local of the body *)
           CSetVar (s "sum") (CBin BAdd (CReadVar (s "sum")) (CReadVar (s "sq")));
           CRepeat None (CReadVar (s "i"))
             (CComposite (s "")
                [CSetVar (s "t") (CBin BAdd (CReadVar (s "sq")) (CScalarInt 1));    (* a local of the inner body *)
                 CSetVar (s "sq") (CReadVar (s "t"));                               (* assigns the outer body's sq *)
                 CSetGlobalVar (s "last") (CReadVar (s "t"))]);
           CBin BIfTrue (CBin BLess (CScalarInt 1) (CReadVar (s "i")))
             (CRepeat (Some (s "j")) (CScalarInt 2) (CSetVar (s "u") (CBin BAdd (CReadVar (s "j")) (CReadVar (s "sq")))));
           CSetVar (s "sum") (CBin BAdd (CReadVar (s "sum")) (CReadVar (s "sq")))]);
     CSetGlobalVar (s "result") (CReadVar (s "sum"));
     CRepeat None (CScalarInt 2) (CSetVar (s "w") (CScalarInt 5));
     CComposite (s "") [CSetVar (s "z") (CScalarInt 9); CSetGlobalVar (s "zz") (CReadVar (s "z"))];
     CSetGlobalVar (s "sq") (CReadVar (s "sq"));                                     (* sq is gone: VarNotFound *)
     CSetGlobalVar (s "never") (CScalarInt 1)])].
Example C01_compile_correct_f8_instance :
  match Compiler.compile f8_example CompilerProofs.default_options, eval_program 3000 f8_example [] with
  | Compiler.COk B, PObs o =>
      C01SimDefs8.in_f8 f8_example = true /\ C01SimDefs7.in_f7 f8_example = false /\
      C01SimDefs8.depth_ok8 (C01SimDefs.main_cards f8_example) = true /\
      (N.of_nat (List.length (Compiler.p_ids B)) <? Bits.two32)%N = true /\
      (N.of_nat (List.length (Compiler.p_bytecode B)) <? 2147483648)%N = true /\
      (ob_kind o, ob_globals o) =
        (KErr EVarNotFound, [(s "last", TrInt 12); (s "result", TrInt 34); (s "zz", TrInt 9)]) /\
      let r := Vm.run no_floats Vm.Debug 3000 (C15Link.to_vm B) Vm.fresh_state in
      C01SimDefs.vm_kind (fst r) = Some (ob_kind o) /\
      map (fun n => option_map C01SimDefs.vm_tree (Vm.read_var_by_name (C15Link.to_vm B) (snd r) n))
          [s "result"; s "last"; s "zz"; s "sq"; s "never"; s "sum"; s "t"; s "w"]
      = map (fun n => assoc n (ob_globals o)) [s "result"; s "last"; s "zz"; s "sq"; s "never"; s "sum"; s "t"; s "w"]
  | _, _ => False
  end.
Proof. vm_compute. repeat split; reflexivity. Qed.

(* ... and a run that reaches the end of main (everything popped before Exit): the sum of the squares below 5
   with the square in a local of the loop body; the R-2 witness shape without the closures *)
Definition f8_example_ok : module :=
  prog [("main", fn []
    [CSetGlobalVar (s "result") (CScalarInt 0);
     CRepeat (Some (s "i")) (CScalarInt 5)
       (CComposite (s "c")
          [CSetVar (s "x") (CBin BMul (CReadVar (s "i")) (CReadVar (s "i")));
           CSetVar (s "y") (CBin BAdd (CReadVar (s "x")) (CReadVar (s "result")));
           CSetGlobalVar (s "result") (CReadVar (s "y"))])])].
Example C01_compile_correct_f8_instance_ok :
  match Compiler.compile f8_example_ok CompilerProofs.default_options, eval_program 600 f8_example_ok [] with
  | Compiler.COk B, PObs o =>
      C01SimDefs8.in_f8 f8_example_ok = true /\ C01SimDefs7.in_f7 f8_example_ok = false /\
      C01SimDefs8.depth_ok8 (C01SimDefs.main_cards f8_example_ok) = true /\
      (ob_kind o, ob_globals o) = (KOk, [(s "result", TrInt 30)]) /\
      let r := Vm.run no_floats Vm.Release 400 (C15Link.to_vm B) Vm.fresh_state in
      C01SimDefs.vm_kind (fst r) = Some (ob_kind o) /\
      Stacks.vcount (Vm.st_stack (snd r)) = 0 /\
      map (fun n => option_map C01SimDefs.vm_tree (Vm.read_var_by_name (C15Link.to_vm B) (snd r) n)) [s "result"; s "i"; s "x"; s "y"]
      = map (fun n => assoc n (ob_globals o)) [s "result"; s "i"; s "x"; s "y"]
  | _, _ => False
  end.
Proof. vm_compute. repeat split; reflexivity. Qed.

(* the eight fragments are nested, and every program of them is in the class property C01 quantifies
   over: the theorems above are instances of compile_correct, not statements about other programs *)
From Cao Require C01SimScope C01SimScope8.
Theorem C01_fragments_well_scoped :
  forall M : module,
    (C01SimDefs.in_f1 M = true -> C01SimDefs2.in_f2 M = true) /\
    (C01SimDefs2.in_f2 M = true -> C01SimDefs3.in_f3 M = true) /\
    (C01SimDefs3.in_f3 M = true -> C01SimDefs4.in_f4 M = true) /\
    (C01SimDefs4.in_f4 M = true -> C01SimDefs5.in_f5 M = true) /\
    (C01SimDefs5.in_f5 M = true -> C01SimDefs6.in_f6 M = true) /\
    (C01SimDefs6.in_f6 M = true -> C01SimDefs7.in_f7 M = true) /\
    (C01SimDefs7.in_f7 M = true -> C01SimDefs8.in_f8 M = true) /\
    (C01SimDefs8.in_f8 M = true -> well_scoped M = true).
Proof. exact C01SimScope8.fragments_well_scoped8. Qed.
Print Assumptions C01_fragments_well_scoped.

(* ==== fragment F9: several functions, static calls with parameters, Return (end to end: C01_compile_correct_f9 at the
   end of this file; the text below describes the halves it is assembled from) ====
   (C01SimDefs9.in_f9.)  A module  main :: f1 :: ... :: fk  without submodules and imports, main first and without
   parameters, the function names pairwise distinct, the parameters of a function pairwise distinct.  Pure expressions e
   are those of F1 over parameters, locals and globals; a right-hand side r is  e  or  Call f [e1; ...; en]  where f is
   declared LATER in the module than the running function (the call graph is acyclic: no recursion) and n is the number
   of parameters of f; statements are  SetGlobalVar g r | SetVar x r | Return r (not in main) | IfTrue e s | IfFalse e s |
   IfElse e s s;  a SetVar of a new name directly in a function body declares a local.  Arguments are evaluated left to
   right and the FIRST argument is bound to the LAST declared parameter; a body that ends without Return yields nil.
   What is proved for all programs of the fragment (parts of compile_correct for it; the theorems follow the instance):
     - C01_f9_compile_shape_code: the compiler half, the code - compile M = COk B implies that the bytecode of B begins
       with the encoding of C01SimDefs9.code_all9 (main, then f1 .. fk; a call = the arguments, FunctionPointer (handle of
       the callee's position, its arity), CallFunction; a function body ends with one Pop per local - parameters included -,
       ScalarNil, Return; a Return card = the value, Return), with the facts about the table of global ids the earlier
       fragments use;
     - C01_f9_compile_labels: the compiler half, the labels - the label of function i is the address of its first
       instruction in code_all9 (labels_ok9 on bases_all9), given that the label keys of the program are pairwise distinct;
     - C01_f9_reference_meaning: the reference half - eval_program fuel M host = PObs o implies that o is what the direct,
       fuel-free meaning C01SimDefs9.run_main9 computes (sem9: the meaning of the calls to the later functions, by recursion
       on the list of functions): outcome kind Ok or VarNotFound, the globals;
     - C01_f9_well_scoped: the fragment lies inside RefScope.well_scoped (function names without '.').
   Proved on the VM side (Cao.C01SimVm9, Cao.C01SimF9.expr_f1_sim9: a pure expression in a frame at any offset; not property theorems): the vocabulary of the simulation with call frames and heap
   as part of the configuration (steps9, loop_steps9), ReadLocalVar / SetLocalVar relative to a frame offset, and the call
   protocol - FunctionPointer; CallFunction enters labels[h] in a frame whose offset is the position of the first argument
   (ex9_call), Return replaces the callee's part of the stack, arguments included, by the returned value and continues
   behind the call (ex9_return).
   The simulation of code_all9 on the VM (Cao.C01SimF9b: right-hand sides with calls, statements, bodies, functions from
   the last to the first - fns_sim9 -) and the assembly C01_compile_correct_f9 are at the end of this file.
   STILL OPEN for static calls: recursion and calls to functions declared earlier; calls in statement position (their
   value stays on the stack as junk) or as arguments; While / Repeat inside functions.  The instance below runs all
   three sides. *)
From Cao Require C01SimDefs9 CompilerLabels.

(* an instance: sub2(a, b) is called with (10, x = 7): the first argument is bound to the LAST parameter b, so d = a - b = -3;
   sub2 calls clamp, which returns early for a negative argument; noret ends without Return and yields nil *)
Definition f9_example : module :=
  prog [("main", fn [] [CSetVar (s "x") (CScalarInt 7);
                        CSetGlobalVar (s "r") (CCall (s "sub2") [CScalarInt 10; CReadVar (s "x")]);
                        CSetVar (s "y") (CCall (s "clamp") [CReadVar (s "r")]);
                        CSetGlobalVar (s "q") (CBin BAdd (CReadVar (s "y")) (CReadVar (s "x")));
                        CSetGlobalVar (s "z") (CCall (s "clamp") [CScalarInt 5]);
                        CSetGlobalVar (s "w") (CCall (s "noret") [])]);
        ("sub2", fn ["a"; "b"] [CSetVar (s "d") (CBin BSub (CReadVar (s "a")) (CReadVar (s "b")));
                                CSetGlobalVar (s "seen") (CCall (s "clamp") [CReadVar (s "d")]);
                                CUn UReturn (CReadVar (s "d"))]);
        ("clamp", fn ["v"] [CBin BIfTrue (CBin BLess (CReadVar (s "v")) (CScalarInt 0)) (CUn UReturn (CScalarInt 0));
                            CSetGlobalVar (s "clamped") (CReadVar (s "v"));
                            CUn UReturn (CReadVar (s "v"))]);
        ("noret", fn [] [CSetGlobalVar (s "n") (CScalarInt 1)])].
Example C01_f9_instance :
  match Compiler.compile f9_example CompilerProofs.default_options, eval_program 500 f9_example [] with
  | Compiler.COk B, PObs o =>
      C01SimDefs9.in_f9 f9_example = true /\ C01SimDefs9.depth_ok9 f9_example = true /\
      CompilerLabels.label_keys_distinct_module f9_example 64 = true /\
      (N.of_nat (List.length (Compiler.p_ids B)) <? Bits.two32)%N = true /\
      (* the compiler half: the code and the labels *)
      (let code := Bytecode.encode (C01SimDefs9.code_all9 (Compiler.p_ids B) f9_example) in
       firstn (List.length code) (Compiler.p_bytecode B) = code) /\
      C01SimDefs9.bases_all9 (Compiler.p_ids B) f9_example = [121; 168; 217]%N /\
      map (fun i => Compiler.nm_find (Bits.handle_from_u64 i) (Compiler.p_labels B)) [1; 2; 3]%N
        = [Some 121; Some 168; Some 217]%N /\
      (* the reference half: the direct meaning *)
      C01SimDefs9.run_main9 f9_example =
        (true, [(s "seen", RefSem.VInt 0); (s "r", RefSem.VInt (-3)); (s "q", RefSem.VInt 7); (s "clamped", RefSem.VInt 5);
                (s "z", RefSem.VInt 5); (s "n", RefSem.VInt 1); (s "w", RefSem.VNil)]) /\
      (ob_kind o, ob_globals o) =
        (KOk, [(s "seen", TrInt 0); (s "r", TrInt (-3)); (s "q", TrInt 7); (s "clamped", TrInt 5); (s "z", TrInt 5);
               (s "n", TrInt 1); (s "w", TrNil)]) /\
      (* the VM on the compiled program *)
      let r := Vm.run no_floats Vm.Debug 500 (C15Link.to_vm B) Vm.fresh_state in
      C01SimDefs.vm_kind (fst r) = Some (ob_kind o) /\
      Stacks.vcount (Vm.st_stack (snd r)) = 0 /\
      map (fun n => option_map C01SimDefs.vm_tree (Vm.read_var_by_name (C15Link.to_vm B) (snd r) n))
          [s "r"; s "q"; s "z"; s "w"; s "seen"; s "clamped"; s "n"; s "x"; s "d"]
      = map (fun n => assoc n (ob_globals o)) [s "r"; s "q"; s "z"; s "w"; s "seen"; s "clamped"; s "n"; s "x"; s "d"]
  | _, _ => False
  end.
Proof. vm_compute. repeat split; reflexivity. Qed.

(* the fragment F9 lies inside the class property C01 quantifies over.  The extra hypothesis - no function name contains
   a '.' - is needed: in_f9 does not forbid a user function called "std.to_array", and well_scoped rejects a program in
   which two functions (the injected library included) have the same full name.  (The compiler refuses such names:
   Compiler.is_name_valid.) *)
From Cao Require C01SimScope9.
Theorem C01_f9_well_scoped :
  forall M : module,
    forallb (fun nf => negb (existsb (N.eqb 46) (fst nf))) (m_functions M) = true ->
    C01SimDefs9.in_f9 M = true -> well_scoped M = true.
Proof. exact C01SimScope9.f9_well_scoped. Qed.
Print Assumptions C01_f9_well_scoped.
Example C01_f9_instance_well_scoped :
  forallb (fun nf => negb (existsb (N.eqb 46) (fst nf))) (m_functions f9_example) = true /\
  C01SimDefs9.in_f9 f9_example = true /\ well_scoped f9_example = true.
Proof. vm_compute. repeat split; reflexivity. Qed.

(* the reference half for F9: an observation of the reference semantics is what the direct, fuel-free meaning
   C01SimDefs9.run_main9 (runs9 over main's cards with sem9 for the calls) computes - the run ends normally or with
   VarNotFound, and the globals are those of the direct meaning *)
From Cao Require C01SimRef5 C01SimRef9.
Theorem C01_f9_reference_meaning :
  forall (fuel : nat) (M : module) (host : list str) (o : obs),
    C01SimDefs9.in_f9 M = true -> eval_program fuel M host = PObs o ->
    exists g, C01SimDefs9.run_main9 M = (match ob_kind o with KOk => true | _ => false end, g) /\
              (ob_kind o = KOk \/ ob_kind o = KErr EVarNotFound) /\
              C01SimRef5.simples g /\
              ob_globals o = map (fun nv => (fst nv, C01SimDefs.vm_tree (C01SimDefs.to_vm (snd nv)))) g.
Proof. exact C01SimRef9.eval_program_f9. Qed.
Print Assumptions C01_f9_reference_meaning.

(* the compiler half for F9, the code: the bytecode of a compiled program of the fragment begins with the encoding of
   C01SimDefs9.code_all9 (main, then the other functions in order), every global name of the program has an id, the id
   table is injective and below 2^32, and no two global names of the program share their handle.  (The labels: C01_f9_compile_labels below.) *)
From Cao Require C01SimComp9.
Theorem C01_f9_compile_shape_code :
  forall (M : module) (B : Compiler.compiled),
    C01SimDefs9.in_f9 M = true -> Compiler.compile M CompilerProofs.default_options = Compiler.COk B ->
    (N.of_nat (List.length (Compiler.p_ids B)) < Bits.two32)%N ->
    exists rest,
      Compiler.p_bytecode B = Bytecode.encode (C01SimDefs9.code_all9 (Compiler.p_ids B) M ++ rest) /\
      (forall n, In n (C01SimDefs9.gnames9 M) -> Compiler.nm_find (Bits.handle_of_bytes n) (Compiler.p_ids B) <> None) /\
      (forall h1 h2 id, Compiler.nm_find h1 (Compiler.p_ids B) = Some id -> Compiler.nm_find h2 (Compiler.p_ids B) = Some id -> h1 = h2) /\
      (forall h id, Compiler.nm_find h (Compiler.p_ids B) = Some id -> (id < Bits.two32)%N) /\
      C01SimDefs.handles_inj (C01SimDefs9.gnames9 M) = true.
Proof. exact C01SimComp9.compile_f9_shape_code. Qed.
Print Assumptions C01_f9_compile_shape_code.

(* the compiler half for F9, the labels: the label of function number i of the module (i >= 1; main is number 0 and has
   no label) is the address at which its code starts in code_all9.  Hypothesis: the label keys of the program are pairwise
   distinct (CompilerLabels.label_keys_distinct_module, decidable: function handles are 32-bit hashes of the position, and
   the labels of the functions of the injected library live in the same table). *)
Theorem C01_f9_compile_labels :
  forall (M : module) (B : Compiler.compiled),
    C01SimDefs9.in_f9 M = true -> Compiler.compile M CompilerProofs.default_options = Compiler.COk B ->
    (N.of_nat (List.length (Compiler.p_ids B)) < Bits.two32)%N ->
    CompilerLabels.label_keys_distinct_module M 64 = true ->
    C01SimDefs9.labels_ok9 (Compiler.p_labels B) 1 (C01SimDefs9.bases_all9 (Compiler.p_ids B) M).
Proof. exact C01SimComp9.compile_f9_labels. Qed.
Print Assumptions C01_f9_compile_labels.

(* ==== fragment F9, end to end ====
   compile_correct for the programs of C01SimDefs9.in_f9: if the reference semantics observes o, the compiled program run
   by Vm.run with a large enough budget ends with the same outcome kind (Ok, or VarNotFound - raised in main or in any
   callee) and, under every name that does not collide with a global name of the program, the same global.
   Hypotheses besides in_f9 and compile = COk: depth_ok9 (C01SimDefs9: the sum over the functions of locals + deepest
   temporaries + 2 is below the value stack size 256, and the number of functions + 1 below the call stack size - every
   function occurs at most once in a chain of calls), fewer than 2^32 variable ids, bytecode shorter than 2^31 bytes, the
   label keys of the program pairwise distinct (decidable; function handles are 32-bit hashes). *)
From Cao Require C01SimF9b C01SimF9c.
Theorem C01_compile_correct_f9 :
  forall (F : Vm.fops) (bld : Vm.build) (M : module) (B : Compiler.compiled) (fuel : nat) (host : list str) (o : obs),
    C01SimDefs9.in_f9 M = true ->
    C01SimDefs9.depth_ok9 M = true ->
    Compiler.compile M CompilerProofs.default_options = Compiler.COk B ->
    (N.of_nat (List.length (Compiler.p_ids B)) < Bits.two32)%N ->
    (N.of_nat (List.length (Compiler.p_bytecode B)) < 2147483648)%N ->
    CompilerLabels.label_keys_distinct_module M 64 = true ->
    eval_program fuel M host = PObs o ->
    exists N0 : nat, forall budget : nat, N0 <= budget ->
      let r := Vm.run F bld budget (C15Link.to_vm B) Vm.fresh_state in
      C01SimDefs.vm_kind (fst r) = Some (ob_kind o) /\
      forall n, C01SimDefs.no_collision (C01SimDefs9.gnames9 M) n ->
        option_map C01SimDefs.vm_tree (Vm.read_var_by_name (C15Link.to_vm B) (snd r) n) = assoc n (ob_globals o).
Proof. exact C01SimF9c.compile_correct_f9. Qed.
Print Assumptions C01_compile_correct_f9.

(* instances: f9_example above (four functions, the nested call main -> sub2 -> clamp, a Return inside an IfTrue, a function
   that ends without Return), and a program whose innermost callee reads an undefined variable after a global was set:
   every hypothesis of the theorem holds and both sides are evaluated *)
Definition f9_example_err : module :=
  prog [("main", fn [] [CSetGlobalVar (s "a") (CScalarInt 1);
                        CSetVar (s "t") (CCall (s "outer") [CReadVar (s "a"); CScalarInt 4]);   (* p = 4, q = 1: the FIRST argument is the LAST parameter *)
                        CSetGlobalVar (s "never") (CReadVar (s "t"))]);
        ("outer", fn ["p"; "q"] [CTri TIfElse (CBin BLess (CReadVar (s "p")) (CReadVar (s "q")))
                                   (CUn UReturn (CScalarInt 0))
                                   (CSetGlobalVar (s "b") (CCall (s "inner") [CBin BAdd (CReadVar (s "p")) (CReadVar (s "q"))]));
                                 CUn UReturn (CReadVar (s "b"))]);
        ("inner", fn ["z"] [CSetGlobalVar (s "c") (CReadVar (s "z"));
                            CUn UReturn (CBin BMul (CReadVar (s "z")) (CReadVar (s "undefined")))])].
Example C01_compile_correct_f9_instance :
  forallb (fun Mk : module * okind =>
    match Compiler.compile (fst Mk) CompilerProofs.default_options, eval_program 500 (fst Mk) [] with
    | Compiler.COk B, PObs o =>
        C01SimDefs9.in_f9 (fst Mk) && C01SimDefs9.depth_ok9 (fst Mk) &&
        (N.of_nat (List.length (Compiler.p_ids B)) <? Bits.two32)%N &&
        (N.of_nat (List.length (Compiler.p_bytecode B)) <? 2147483648)%N &&
        CompilerLabels.label_keys_distinct_module (fst Mk) 64 &&
        (let r := Vm.run no_floats Vm.Debug 500 (C15Link.to_vm B) Vm.fresh_state in
         match C01SimDefs.vm_kind (fst r), ob_kind o, snd Mk with
         | Some KOk, KOk, KOk => true
         | Some (KErr EVarNotFound), KErr EVarNotFound, KErr EVarNotFound => true
         | _, _, _ => false
         end &&
         forallb (fun n => match option_map C01SimDefs.vm_tree (Vm.read_var_by_name (C15Link.to_vm B) (snd r) n),
                                 assoc n (ob_globals o) with
                           | Some (TrInt x), Some (TrInt y) => Z.eqb x y
                           | Some TrNil, Some TrNil => true
                           | None, None => true
                           | _, _ => false
                           end)
                 [s "r"; s "q"; s "z"; s "w"; s "seen"; s "clamped"; s "n"; s "a"; s "b"; s "c"; s "never"; s "t"])
    | _, _ => false
    end) [(f9_example, KOk); (f9_example_err, KErr EVarNotFound)] = true /\
  (match eval_program 500 f9_example_err [] with
   | PObs o => (ob_kind o, ob_globals o) = (KErr EVarNotFound, [(s "a", TrInt 1); (s "c", TrInt 5)])
   | _ => False
   end).
Proof. vm_compute. split; reflexivity. Qed.

(* corollary (for C08 / C18): a static call leaves the caller's part of the value stack alone.  For every function
   name / arity of the module there are the handle h the call sites use and its label pos such that the code at pos,
   started in a fresh frame fr (offset = length below) on the argument values above ANY stack [below] and ANY frames
   [rest], reaches - when the call has the value v (C01SimDefs9.sem9) - a Return instruction in a configuration whose
   stack is  below ++ mid ++ [v]  (below untouched, v on top), whose frames are  fr' :: rest  (rest untouched, fr' = fr up
   to the return address) and whose globals are those of the reference meaning.  (Return then cuts the stack at the
   frame's offset and pushes v: C01SimVm9.ex9_return.) *)
Theorem C01_f9_call_keeps_caller_stack :
  forall (F : Vm.fops) (bld : Vm.build) (M : module) (B : Compiler.compiled),
    C01SimDefs9.in_f9 M = true ->
    Compiler.compile M CompilerProofs.default_options = Compiler.COk B ->
    (N.of_nat (List.length (Compiler.p_ids B)) < Bits.two32)%N ->
    (N.of_nat (List.length (Compiler.p_bytecode B)) < 2147483648)%N ->
    CompilerLabels.label_keys_distinct_module M 64 = true ->
    forall name n, Compiler.sm_find name (C01SimDefs9.sig_of (C01SimDefs9.other_fns M)) = Some n ->
    exists h pos,
      Compiler.sm_find name (C01SimDefs9.ftab_of M) = Some (h, (N.of_nat n mod Bits.two32)%N) /\
      Vm.assoc h (Vm.p_labels (C15Link.to_vm B)) = Some pos /\
      forall vals g gv below fr rest hp v g',
        List.length vals = n -> Forall C01SimDefs.simple vals ->
        C01SimF1.grel (Compiler.p_ids B) (C01SimDefs9.gnames9 M) g gv -> C01SimF1.gsimple g ->
        N.to_nat (Vm.fr_off fr) = List.length below ->
        List.length below + C01SimF9b.need_fs (C01SimDefs9.other_fns M) < C01SimF1.cap ->
        List.length rest + List.length (C01SimDefs9.other_fns M) < Vm.call_stack_size ->
        C01SimDefs9.sem9 (C01SimDefs9.other_fns M) name vals g = (Some v, g') ->
        exists k gv' fr' hp' ipr mid,
          C01SimVm9.steps9 F bld (C15Link.to_vm B) C01SimF1.cap k
            (pos, (below ++ map C01SimDefs.to_vm vals)%list, gv, fr :: rest, hp)
            (ipr, (below ++ mid ++ [C01SimDefs.to_vm v])%list, gv', fr' :: rest, hp') /\
          Vm.fr_off fr' = Vm.fr_off fr /\ C01SimVm.code_at (C15Link.to_vm B) ipr Bytecode.IReturn /\
          C01SimF1.grel (Compiler.p_ids B) (C01SimDefs9.gnames9 M) g' gv'.
Proof. exact C01SimF9c.f9_call_keeps_caller_stack. Qed.
Print Assumptions C01_f9_call_keeps_caller_stack.
Example C01_f9_call_keeps_caller_stack_instance :
  Compiler.sm_find (s "clamp") (C01SimDefs9.sig_of (C01SimDefs9.other_fns f9_example)) = Some 1 /\
  C01SimDefs9.sem9 (C01SimDefs9.other_fns f9_example) (s "sub2") [RefSem.VInt 10; RefSem.VInt 7] []
    = (Some (RefSem.VInt (-3)), [(s "seen", RefSem.VInt 0)]) /\
  Nat.ltb (C01SimF9b.need_fs (C01SimDefs9.other_fns f9_example)) C01SimF1.cap = true.
Proof. vm_compute. repeat split; reflexivity. Qed.

(* ==== fragment F10 = F9 plus a call as a STATEMENT card (C01SimDefs10.in_f10), end to end ====
   A statement may now also be  Call f [e1; ...; ek]  (f declared later, k its number of parameters) - in main, in function
   bodies and inside If cards.  The compiler emits for it exactly the code of a call on a right-hand side (arguments,
   FunctionPointer, CallFunction) and nothing that removes the value: the value the callee returns STAYS ON THE VALUE STACK
   above the locals of the running frame.  It is never read (locals are addressed relative to the frame offset); the
   declaration of the next local overwrites the lowest such value (SetLocalVar of slot = number of locals) instead of
   extending the stack; the Pops at the end of a body remove as many values as there are locals - from the top, so these
   values first -, and what is left under the closing ScalarNil is cut by Return (in main it stays on the stack at Exit).
   The reference semantics drops the value.  Resource side: every call statement of a body may cost one stack slot
   (C01SimDefs10.njunk; frame_need10 adds their number; depth_ok10).
   Proved: C01_compile_correct_f10 (same shape and hypotheses as _f9), C01_f10_well_scoped, C01_f10_call_keeps_caller_stack and
   C01_f10_no_return_is_nil (a function whose body ends without a Return card returns nil: the closing ScalarNil; Return is
   reached with nil on top of the caller's intact stack).  Halves: Cao.C01SimRef10.eval_program_f10,
   Cao.C01SimComp10.compile_f10_shape_code / compile_f10_labels, Cao.C01SimF10b (VM), Cao.C01SimF10c (assembly).
   STILL OPEN for static calls: calls as ARGUMENTS of calls (nested call expressions), While / Repeat inside functions
   (with a call statement in a loop body the stack grows by one value per round until Stackoverflow - the resource
   hypothesis would have to bound the number of rounds), recursion and calls to earlier functions, dynamic calls. *)
From Cao Require C01SimDefs10 C01SimScope10 C01SimF10b C01SimF10c.

Theorem C01_compile_correct_f10 :
  forall (F : Vm.fops) (bld : Vm.build) (M : module) (B : Compiler.compiled) (fuel : nat) (host : list str) (o : obs),
    C01SimDefs10.in_f10 M = true ->
    C01SimDefs10.depth_ok10 M = true ->
    Compiler.compile M CompilerProofs.default_options = Compiler.COk B ->
    (N.of_nat (List.length (Compiler.p_ids B)) < Bits.two32)%N ->
    (N.of_nat (List.length (Compiler.p_bytecode B)) < 2147483648)%N ->
    CompilerLabels.label_keys_distinct_module M 64 = true ->
    eval_program fuel M host = PObs o ->
    exists N0 : nat, forall budget : nat, N0 <= budget ->
      let r := Vm.run F bld budget (C15Link.to_vm B) Vm.fresh_state in
      C01SimDefs.vm_kind (fst r) = Some (ob_kind o) /\
      forall n, C01SimDefs.no_collision (C01SimDefs10.gnames10 M) n ->
        option_map C01SimDefs.vm_tree (Vm.read_var_by_name (C15Link.to_vm B) (snd r) n) = assoc n (ob_globals o).
Proof. exact C01SimF10c.compile_correct_f10. Qed.
Print Assumptions C01_compile_correct_f10.

Theorem C01_f10_well_scoped :
  forall M : module,
    forallb (fun nf => negb (existsb (N.eqb 46) (fst nf))) (m_functions M) = true ->
    C01SimDefs10.in_f10 M = true -> well_scoped M = true.
Proof. exact C01SimScope10.f10_well_scoped. Qed.
Print Assumptions C01_f10_well_scoped.

(* instances.  f10_example: call statements in main (before and after the declaration of a local: the local y overwrites
   the value the first statement left), inside an IfTrue, in a function body (twice, before a declaration and before the
   end) and a function without Return whose nil is assigned.  f10_example_err: a call statement whose callee fails. *)
Definition f10_example : module :=
  prog [("main", fn [] [CCall (s "bump") [CScalarInt 1];
                        CSetVar (s "x") (CScalarInt 7);
                        CCall (s "bump") [CReadVar (s "x")];
                        CCall (s "bump") [CScalarInt 100];
                        CSetVar (s "y") (CCall (s "twice") [CReadVar (s "x")]);
                        CBin BIfTrue (CBin BLess (CReadVar (s "x")) (CReadVar (s "y"))) (CCall (s "bump") [CReadVar (s "y")]);
                        CSetGlobalVar (s "r") (CBin BAdd (CReadVar (s "x")) (CReadVar (s "y")));
                        CSetGlobalVar (s "w") (CCall (s "noret") [CScalarInt 5])]);
        ("twice", fn ["a"] [CCall (s "bump") [CReadVar (s "a")];
                            CSetVar (s "d") (CBin BAdd (CReadVar (s "a")) (CReadVar (s "a")));
                            CCall (s "bump") [CReadVar (s "d")];
                            CUn UReturn (CReadVar (s "d"))]);
        ("noret", fn ["p"] [CCall (s "bump") [CReadVar (s "p")];
                            CSetVar (s "q") (CReadVar (s "p"));
                            CCall (s "bump") [CReadVar (s "q")]]);
        ("bump", fn ["v"] [CSetGlobalVar (s "acc") (CBin BAdd (CReadVar (s "v")) (CReadVar (s "v")));
                           CSetGlobalVar (s "cnt") (CReadVar (s "v"));
                           CUn UReturn (CReadVar (s "v"))])].
Definition f10_example_err : module :=
  prog [("main", fn [] [CSetGlobalVar (s "a") (CScalarInt 1);
                        CCall (s "bad") [CReadVar (s "a")];
                        CSetGlobalVar (s "never") (CScalarInt 2)]);
        ("bad", fn ["z"] [CSetGlobalVar (s "c") (CReadVar (s "z"));
                          CUn UReturn (CReadVar (s "undefined"))])].
Example C01_compile_correct_f10_instance :
  forallb (fun Mk : module * okind =>
    match Compiler.compile (fst Mk) CompilerProofs.default_options, eval_program 500 (fst Mk) [] with
    | Compiler.COk B, PObs o =>
        C01SimDefs10.in_f10 (fst Mk) && negb (C01SimDefs9.in_f9 (fst Mk)) && C01SimDefs10.depth_ok10 (fst Mk) &&
        (N.of_nat (List.length (Compiler.p_ids B)) <? Bits.two32)%N &&
        (N.of_nat (List.length (Compiler.p_bytecode B)) <? 2147483648)%N &&
        CompilerLabels.label_keys_distinct_module (fst Mk) 64 &&
        forallb (fun nf => negb (existsb (N.eqb 46) (fst nf))) (m_functions (fst Mk)) && well_scoped (fst Mk) &&
        (let code := Bytecode.encode (C01SimDefs10.code_all10 (Compiler.p_ids B) (fst Mk)) in
         if list_eq_dec N.eq_dec (firstn (List.length code) (Compiler.p_bytecode B)) code then true else false) &&
        (let r := Vm.run no_floats Vm.Debug 2000 (C15Link.to_vm B) Vm.fresh_state in
         match C01SimDefs.vm_kind (fst r), ob_kind o, snd Mk with
         | Some KOk, KOk, KOk => true
         | Some (KErr EVarNotFound), KErr EVarNotFound, KErr EVarNotFound => true
         | _, _, _ => false
         end &&
         forallb (fun n => match option_map C01SimDefs.vm_tree (Vm.read_var_by_name (C15Link.to_vm B) (snd r) n),
                                 assoc n (ob_globals o) with
                           | Some (TrInt x), Some (TrInt y) => Z.eqb x y
                           | Some TrNil, Some TrNil => true
                           | None, None => true
                           | _, _ => false
                           end)
                 [s "r"; s "w"; s "acc"; s "cnt"; s "a"; s "c"; s "never"; s "x"; s "y"; s "d"])
    | _, _ => false
    end) [(f10_example, KOk); (f10_example_err, KErr EVarNotFound)] = true /\
  (match eval_program 500 f10_example [], eval_program 500 f10_example_err [] with
   | PObs o, PObs o' =>
       (ob_kind o, ob_globals o) = (KOk, [(s "acc", TrInt 10); (s "cnt", TrInt 5); (s "r", TrInt 21); (s "w", TrNil)]) /\
       (ob_kind o', ob_globals o') = (KErr EVarNotFound, [(s "a", TrInt 1); (s "c", TrInt 1)])
   | _, _ => False
   end) /\
  (* the VM really ends main with the values of the call statements on the stack *)
  (match Compiler.compile f10_example CompilerProofs.default_options with
   | Compiler.COk B => Stacks.vcount (Vm.st_stack (snd (Vm.run no_floats Vm.Debug 2000 (C15Link.to_vm B) Vm.fresh_state))) = 2
   | _ => False
   end).
Proof. vm_compute. repeat split; reflexivity. Qed.

(* C01_f9_call_keeps_caller_stack for F10: [mid] now also holds what the call statements of the callee left *)
Theorem C01_f10_call_keeps_caller_stack :
  forall (F : Vm.fops) (bld : Vm.build) (M : module) (B : Compiler.compiled),
    C01SimDefs10.in_f10 M = true ->
    Compiler.compile M CompilerProofs.default_options = Compiler.COk B ->
    (N.of_nat (List.length (Compiler.p_ids B)) < Bits.two32)%N ->
    (N.of_nat (List.length (Compiler.p_bytecode B)) < 2147483648)%N ->
    CompilerLabels.label_keys_distinct_module M 64 = true ->
    forall name n, Compiler.sm_find name (C01SimDefs9.sig_of (C01SimDefs9.other_fns M)) = Some n ->
    exists h pos,
      Compiler.sm_find name (C01SimDefs9.ftab_of M) = Some (h, (N.of_nat n mod Bits.two32)%N) /\
      Vm.assoc h (Vm.p_labels (C15Link.to_vm B)) = Some pos /\
      forall vals g gv below fr rest hp v g',
        List.length vals = n -> Forall C01SimDefs.simple vals ->
        C01SimF1.grel (Compiler.p_ids B) (C01SimDefs10.gnames10 M) g gv -> C01SimF1.gsimple g ->
        N.to_nat (Vm.fr_off fr) = List.length below ->
        List.length below + C01SimF10b.need_fs10 (C01SimDefs9.other_fns M) < C01SimF1.cap ->
        List.length rest + List.length (C01SimDefs9.other_fns M) < Vm.call_stack_size ->
        C01SimDefs10.sem10 (C01SimDefs9.other_fns M) name vals g = (Some v, g') ->
        exists k gv' fr' hp' ipr mid,
          C01SimVm9.steps9 F bld (C15Link.to_vm B) C01SimF1.cap k
            (pos, (below ++ map C01SimDefs.to_vm vals)%list, gv, fr :: rest, hp)
            (ipr, (below ++ mid ++ [C01SimDefs.to_vm v])%list, gv', fr' :: rest, hp') /\
          Vm.fr_off fr' = Vm.fr_off fr /\ C01SimVm.code_at (C15Link.to_vm B) ipr Bytecode.IReturn /\
          C01SimF1.grel (Compiler.p_ids B) (C01SimDefs10.gnames10 M) g' gv'.
Proof. exact C01SimF10c.f10_call_keeps_caller_stack. Qed.
Print Assumptions C01_f10_call_keeps_caller_stack.

(* a function that ends without a Return card returns nil.  For function number i+1 (name, f) of a compiled program of
   the fragment: whenever its body, run on the argument values (the calls meaning what the later functions do), ends
   normally - no Return card was executed -, the reference meaning of the call is nil, and the VM, started at the
   function's label in a fresh frame on the argument values above ANY stack [below], reaches the closing Return
   instruction with nil on top of  below ++ mid  (below intact; mid = what the call statements of the body left, cut by
   Return) and the globals of the reference meaning. *)
Theorem C01_f10_no_return_is_nil :
  forall (F : Vm.fops) (bld : Vm.build) (M : module) (B : Compiler.compiled),
    C01SimDefs10.in_f10 M = true ->
    Compiler.compile M CompilerProofs.default_options = Compiler.COk B ->
    (N.of_nat (List.length (Compiler.p_ids B)) < Bits.two32)%N ->
    (N.of_nat (List.length (Compiler.p_bytecode B)) < 2147483648)%N ->
    CompilerLabels.label_keys_distinct_module M 64 = true ->
    forall i name f, nth_error (C01SimDefs9.other_fns M) i = Some (name, f) ->
    exists h pos,
      Compiler.sm_find name (C01SimDefs9.ftab_of M) = Some (h, (N.of_nat (List.length (f_args f)) mod Bits.two32)%N) /\
      Vm.assoc h (Vm.p_labels (C15Link.to_vm B)) = Some pos /\
      forall vals g gv below fr rest hp R' g',
        List.length vals = List.length (f_args f) -> Forall C01SimDefs.simple vals ->
        C01SimF1.grel (Compiler.p_ids B) (C01SimDefs10.gnames10 M) g gv -> C01SimF1.gsimple g ->
        N.to_nat (Vm.fr_off fr) = List.length below ->
        List.length below + C01SimF10b.need_fs10 (C01SimDefs9.other_fns M) < C01SimF1.cap ->
        List.length rest + List.length (C01SimDefs9.other_fns M) < Vm.call_stack_size ->
        C01SimDefs10.runs10 (C01SimDefs10.sem10 (skipn (S i) (C01SimDefs9.other_fns M)))
          (combine (f_args f) (rev vals)) g (f_cards f) = (C01SimDefs9.ONorm9, R', g') ->
        C01SimDefs10.sem10 (C01SimDefs9.other_fns M) name vals g = (Some RefSem.VNil, g') /\
        exists k gv' fr' hp' ipr mid,
          C01SimVm9.steps9 F bld (C15Link.to_vm B) C01SimF1.cap k
            (pos, (below ++ map C01SimDefs.to_vm vals)%list, gv, fr :: rest, hp)
            (ipr, (below ++ mid ++ [Vm.VNil])%list, gv', fr' :: rest, hp') /\
          Vm.fr_off fr' = Vm.fr_off fr /\ C01SimVm.code_at (C15Link.to_vm B) ipr Bytecode.IReturn /\
          C01SimF1.grel (Compiler.p_ids B) (C01SimDefs10.gnames10 M) g' gv'.
Proof. exact C01SimF10c.f10_no_return_is_nil. Qed.
Print Assumptions C01_f10_no_return_is_nil.
(* instance: noret (function number 2 of f10_example; two call statements, a local, no Return) on the argument 5 *)
Example C01_f10_no_return_is_nil_instance :
  nth_error (C01SimDefs9.other_fns f10_example) 1 = Some (s "noret", fn ["p"] [CCall (s "bump") [CReadVar (s "p")];
                                                                              CSetVar (s "q") (CReadVar (s "p"));
                                                                              CCall (s "bump") [CReadVar (s "q")]]) /\
  fst (fst (C01SimDefs10.runs10 (C01SimDefs10.sem10 (skipn 2 (C01SimDefs9.other_fns f10_example)))
              (combine [s "p"] (rev [RefSem.VInt 5])) [] (f_cards (fn ["p"] [CCall (s "bump") [CReadVar (s "p")];
                                                                              CSetVar (s "q") (CReadVar (s "p"));
                                                                              CCall (s "bump") [CReadVar (s "q")]]))))
    = C01SimDefs9.ONorm9 /\
  C01SimDefs10.sem10 (C01SimDefs9.other_fns f10_example) (s "noret") [RefSem.VInt 5] []
    = (Some RefSem.VNil, [(s "acc", RefSem.VInt 10); (s "cnt", RefSem.VInt 5)]) /\
  Nat.ltb (C01SimF10b.need_fs10 (C01SimDefs9.other_fns f10_example)) C01SimF1.cap = true.
Proof. vm_compute. repeat split; reflexivity. Qed.
