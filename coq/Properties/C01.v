(* C01 - compiled programs compute what the card language defines (with the closure part C06 and
   the library part C09 on the side of the reference semantics).  Statements only; proofs in
   Cao.RefSemProofs.

   What is stated here is true of the reference semantics itself.  The property proper is the
   simulation theorem between this semantics and the models of the compiler and of the VM; it is
   added when those models are merged.  Its statement (DESIGN.md section 6, C01):

     Theorem compile_correct :
       forall (m : module) (host : list str) (B : program) (o : obs) (fuel : nat),
         well_scoped m = true ->
         Compiler.compile m = Ok B ->
         eval_program fuel m host = PObs o ->
         exists N0, forall N config, N0 <= N ->
           observe_run (Vm.run N config (host_natives host) B) = o \/
           resource_error (Vm.run N config (host_natives host) B)
     where observe_run reads the outcome kind, the globals by name (through B's variable table,
     deep-converted to [tree], nil entries dropped) and the host-call log, and resource_error is
     one of Timeout / Stackoverflow / CallStackOverflow / OutOfMemory (possibly inside a
     TaskFailure): refinement up to resource exhaustion, the resource side being what C03 / C04 /
     C05 state.  [PUnspec] results are outside the claim.  Until that proof exists the claim is
     carried by the differential check C01Check (the real compiler + VM against eval_program). *)
From Coq Require Import List NArith ZArith Bool Arith String Ascii.
Import ListNotations.
From Cao Require Import CardAst RefSem RefScope RefSemProofs.

(* the semantics is a function: one program, one host, one fuel - one result *)
Theorem C01_deterministic :
  forall fuel m host r1 r2, eval_program fuel m host = r1 -> eval_program fuel m host = r2 -> r1 = r2.
Proof. intros; subst; reflexivity. Qed.
Print Assumptions C01_deterministic.

(* more fuel never changes an answer: an observation (or an "outside the domain" verdict)
   reached with some fuel is reached with every larger fuel; out-of-fuel is explicit *)
Theorem C01_fuel_monotone :
  forall m host f f' r,
    eval_program f m host = r -> r <> PFuel -> f <= f' -> eval_program f' m host = r.
Proof. exact eval_program_fuel_monotone. Qed.
Print Assumptions C01_fuel_monotone.

(* the same for the evaluator under the program level, any task, any state *)
Theorem C01_eval_fuel_monotone :
  forall P host limit limit' f f' t s r,
    eval P host limit f t s = r -> r <> RFuel -> f <= f' -> (limit <= limit')%N ->
    eval P host limit' f' t s = r.
Proof. exact eval_fuel_monotone. Qed.
Print Assumptions C01_eval_fuel_monotone.

(* ---- programs of cao-lang/tests/integration_tests.rs with the globals they assert ---- *)
Local Open Scope string_scope.
Definition s (x : string) : str := map (fun a => N_of_ascii a) (list_ascii_of_string x).
Definition fn (args : list string) (cards : list card) : function := Build_function (map s args) cards.
Definition prog (fns : list (string * function)) : module :=
  Module [] (map (fun nf => (s (fst nf), snd nf)) fns) [].
Definition globals_of (r : presult) : option (okind * list (str * tree)) :=
  match r with PObs o => Some (ob_kind o, ob_globals o) | _ => None end.

(* simple_for_loop: result = 0 + 1 + 2 + 3 + 4 *)
Example C01_simple_for_loop :
  globals_of (eval_program 500
    (prog [("main", fn [] [CSetGlobalVar (s "result") (CScalarInt 0);
                           CRepeat (Some (s "i")) (CScalarInt 5) (CCall (s "Loop") [CReadVar (s "i")])]);
           ("Loop", fn ["i"] [CSetGlobalVar (s "result") (CBin BAdd (CReadVar (s "i")) (CReadVar (s "result")))])])
    []) = Some (KOk, [(s "result", TrInt 10)]).
Proof. vm_compute. reflexivity. Qed.

(* simple_while_test: pooh counts the 42 rounds *)
Example C01_simple_while :
  globals_of (eval_program 2000
    (prog [("main", fn [] [CSetVar (s "i") (CScalarInt 42);
                           CSetGlobalVar (s "pooh") (CScalarInt 0);
                           CBin BWhile (CReadVar (s "i"))
                             (CComposite (s "body")
                                [CSetGlobalVar (s "pooh") (CBin BAdd (CScalarInt 1) (CReadVar (s "pooh")));
                                 CSetVar (s "i") (CBin BSub (CReadVar (s "i")) (CScalarInt 1))])])])
    []) = Some (KOk, [(s "pooh", TrInt 42)]).
Proof. vm_compute. reflexivity. Qed.

(* read_set_property_shorthand_test: winnie.foo = 2 *)
Example C01_property_shorthand :
  globals_of (eval_program 500
    (prog [("main", fn [] [CSetGlobalVar (s "winnie") CCreateTable;
                           CSetVar (s "winnie.foo") (CScalarInt 1);
                           CSetVar (s "winnie.foo") (CBin BAdd (CScalarInt 1) (CReadVar (s "winnie.foo")))])])
    []) = Some (KOk, [(s "winnie", TrTable [(TrStr (s "foo"), TrInt 2)])]).
Proof. vm_compute. reflexivity. Qed.

(* callback_test: a function value passed as an argument and called four times *)
Example C01_callback :
  globals_of (eval_program 500
    (prog [("main", fn [] (CSetGlobalVar (s "i") (CScalarInt 0) ::
                           repeat (CCall (s "call_callback") [CFunction (s "callback")]) 4));
           ("call_callback", fn ["cb"] [CDynamicCall (CReadVar (s "cb")) []]);
           ("callback", fn [] [CSetGlobalVar (s "i") (CBin BAdd (CReadVar (s "i")) (CScalarInt 1))])])
    []) = Some (KOk, [(s "i", TrInt 4)]).
Proof. vm_compute. reflexivity. Qed.

(* jump_function_w_params_test, with the arguments passed by the call: the FIRST argument is bound
   to the LAST declared parameter *)
Example C01_argument_binding :
  globals_of (eval_program 500
    (prog [("main", fn [] [CCall (s "pooh") [CStringLiteral (s "winnie the pooh"); CScalarInt 42]]);
           ("pooh", fn ["foo"; "bar"] [CSetGlobalVar (s "g_foo") (CReadVar (s "foo"));
                                       CSetGlobalVar (s "g_bar") (CReadVar (s "bar"))])])
    []) = Some (KOk, [(s "g_foo", TrInt 42); (s "g_bar", TrStr (s "winnie the pooh"))]).
Proof. vm_compute. reflexivity. Qed.

(* closure_shared_capture_test: two closures share the captured variable of a function that has
   returned; the writer's last write is what the reader sees *)
Example C01_closure_shared_capture :
  match globals_of (eval_program 500
    (prog [("createClosures", fn []
              [CSetVar (s "foo") (CStringLiteral (s "winnie the pooh"));
               CSetGlobalVar (s "g_write")
                 (CClosure [] [CSetVar (s "foo") (CStringLiteral (s "tiggers"));
                               CSetVar (s "foo") (CStringLiteral (s "kanga"))]);
               CSetGlobalVar (s "g_read")
                 (CClosure [] [CSetGlobalVar (s "g_result") (CReadVar (s "foo"))])]);
           ("main", fn [] [CSetVar (s "fun") (CCall (s "createClosures") []);
                           CDynamicCall (CReadVar (s "g_write")) [];
                           CDynamicCall (CReadVar (s "g_read")) []])])
    []) with
  | Some (KOk, g) => assoc (s "g_result") g
  | _ => None
  end = Some (TrStr (s "kanga")).
Proof. vm_compute. reflexivity. Qed.

(* closure_capture_in_loops_is_sane_test: every iteration's closure keeps its own letter; std.map
   calls them back (the callback (_, cb) receives key and value) *)
Example C01_closure_capture_in_loops :
  match globals_of (eval_program 1000
    (prog [("main", fn []
       [CSetVar (s "letters") (CArray [CStringLiteral (s "a"); CStringLiteral (s "b"); CStringLiteral (s "c")]);
        CSetVar (s "callbacks") (CArray []);
        CForEach None None (Some (s "v")) (CReadVar (s "letters"))
          (CBin BAppendTable (CClosure [] [CUn UReturn (CReadVar (s "v"))]) (CReadVar (s "callbacks")));
        CSetGlobalVar (s "g_result")
          (CCall (s "std.map")
             [CClosure [s "_"; s "cb"] [CUn UReturn (CDynamicCall (CReadVar (s "cb")) [])];
              CReadVar (s "callbacks")])])])
    []) with
  | Some (KOk, g) => assoc (s "g_result") g
  | _ => None
  end = Some (TrTable [(TrInt 0, TrStr (s "a")); (TrInt 1, TrStr (s "b")); (TrInt 2, TrStr (s "c"))]).
Proof. vm_compute. reflexivity. Qed.

(* native_functions_can_call_cao_lang_function, with the menu's re-entrant native call1(f, x) *)
Example C01_native_reentry :
  match eval_program 500
    (prog [("main", fn [] [CSetGlobalVar (s "r")
                             (CDynamicCall (CNativeFunction n_call1) [CFunction (s "bar"); CScalarInt 1])]);
           ("bar", fn ["x"] [CUn UReturn (CBin BAdd (CReadVar (s "x")) (CScalarInt 41))])])
    [n_call1] with
  | PObs o => Some (ob_globals o, ob_log o)
  | _ => None
  end = Some ([(s "r", TrInt 42)], [(n_call1, [TrFn; TrInt 1])]).
Proof. vm_compute. reflexivity. Qed.

(* local_variable_doesnt_leak_out_of_scope: a callee does not see the caller's locals *)
Example C01_locals_do_not_leak :
  match eval_program 500
    (prog [("main", fn [] [CSetVar (s "foo") (CScalarInt 123); CCall (s "bar") []]);
           ("bar", fn [] [CReadVar (s "foo")])]) [] with
  | PObs o => Some (ob_kind o)
  | _ => None
  end = Some (KErr EVarNotFound).
Proof. vm_compute. reflexivity. Qed.

(* all of these programs are in the class the differential check covers *)
Example C01_examples_well_scoped :
  well_scoped (prog [("main", fn [] [CSetVar (s "i") (CScalarInt 42);
                           CSetGlobalVar (s "pooh") (CScalarInt 0);
                           CBin BWhile (CReadVar (s "i"))
                             (CComposite (s "body")
                                [CSetGlobalVar (s "pooh") (CBin BAdd (CScalarInt 1) (CReadVar (s "pooh")));
                                 CSetVar (s "i") (CBin BSub (CReadVar (s "i")) (CScalarInt 1))])])]) = true
  /\ (* a new local under a conditional is outside the class *)
  well_scoped (prog [("main", fn [] [CBin BIfTrue (CScalarInt 1) (CSetVar (s "x") (CScalarInt 1))])]) = false
  /\ (* and so is a statement in an operand slot *)
  well_scoped (prog [("main", fn [] [CSetGlobalVar (s "g") (CSetVar (s "x") (CScalarInt 1))])]) = false.
Proof. vm_compute. repeat split; reflexivity. Qed.
