(* C15 - error locations identify the failing card: the compile-time half.
   Statements only; proofs are in Cao.CompilerTrace.  The runtime half (which trace entry the VM
   reports) is not covered here. *)
From Coq Require Import List NArith ZArith.
From Cao Require Import ListUtil Bits CardAst Bytecode Compiler Wellformed CompilerProofs CompilerTrace.
From Cao Require CardEdit.
Import ListNotations.

(* emit_index_sound, per function: while the cards of a function are compiled (process_cards, i.e. the
   loop of process_function), every trace entry that is recorded carries the namespace of the function
   and a card index that Module::get_card (the C16 model, CardEdit.get_card / get_child) resolves to a
   card, in any module whose function number [cs_fn] has these cards - for all card kinds, nesting and
   closures.
   This is where the compiler's child numbering and Card::get_child have to agree. *)
Theorem C15_emit_index_sound :
  forall (cards : list card) (s s' : cstate),
    (cs_idx s = [] \/ exists x, cs_idx s = [x]) ->
    process_cards cards 0 s = ROk tt s' ->
    exists new, cs_trace s' = new ++ cs_trace s /\
      forall a ns idx, In (a, (ns, idx)) new ->
        ns = cs_ns s /\
        forall (m : module) name f,
          nth_error (m_functions m) (cs_fn s) = Some (name, f) -> f_cards f = cards ->
          exists c, CardEdit.get_card m idx = CardEdit.ROk c.
Proof. exact emit_index_sound. Qed.
Print Assumptions C15_emit_index_sound.

(* compile_error_loc, per function: a compilation error raised while the cards of a function are compiled
   (EmptyVariable, TooManyLocals, TooManyUpvalues, InvalidJump, SuperLimitReached) has a location whose card index
   resolves, through Module::get_card, to a card of that function *)
Theorem C15_compile_error_loc :
  forall (cards : list card) (s : cstate) (e : cerr) (l : option loc),
    (cs_idx s = [] \/ exists x, cs_idx s = [x]) ->
    process_cards cards 0 s = RErr e l ->
    exists ns idx, l = Some (ns, idx) /\ ns = cs_ns s /\
      forall (m : module) name f,
        nth_error (m_functions m) (cs_fn s) = Some (name, f) -> f_cards f = cards ->
        exists c, CardEdit.get_card m idx = CardEdit.ROk c.
Proof. exact compile_error_loc. Qed.
Print Assumptions C15_compile_error_loc.

(* finding N-C15-1 (confirmed on the crate at 79de9a2, repaired by 2f34106): the count card of a Repeat
   was compiled under sub-index [.., 0, 0] while Card::get_child(Repeat, 0) is the count card, so the
   location of its instructions did not resolve; now it does *)
Theorem C15_repeat_count_index_resolves :
  exists B idx,
    compile (main_module [CRepeat None (CScalarInt 3) CScalarNil]) default_options = COk B /\
    In (0%N, ([], idx)) (p_trace B) /\
    CardEdit.get_card (main_module [CRepeat None (CScalarInt 3) CScalarNil]) idx
    = CardEdit.ROk (CScalarInt 3).
Proof. exact repeat_count_index_resolves. Qed.
Print Assumptions C15_repeat_count_index_resolves.
