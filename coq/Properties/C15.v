(* C15 - error locations identify the failing card and its call chain.
   Statements only. Compile-time half (which location the compiler records, and that it resolves through
   Module::get_card): proofs in Cao.CompilerTrace. Run-time half (which trace the VM reports): proofs in
   Cao.C15Proofs, over the VM model Cao.Vm. *)
From Coq Require Import List NArith ZArith.
From Cao Require Import ListUtil Bits CardAst Bytecode Compiler Wellformed CompilerProofs CompilerTrace.
From Cao Require CardEdit Vm C15Link C15Proofs.
Import ListNotations.

(* emit_index_sound, per function: while the cards of a function are compiled (process_cards, i.e. the
   loop of process_function), every trace entry that is recorded carries the namespace of the function
   and a card index that Module::get_card (the C16 model, CardEdit.get_card / get_child) resolves to a
   card, in any module whose function number [cs_fn] has these cards - for all card kinds, nesting and
   closures.
   This is where the compiler's child numbering and Card::get_child have to agree. *)
Theorem C15_emit_index_sound :
  forall (cards : list card) (s s' : cstate),
    (cs_idx s = [] \/ exists x, cs_idx s = [x]) ->
    process_cards cards 0 s = ROk tt s' ->
    exists new, cs_trace s' = new ++ cs_trace s /\
      forall a ns idx, In (a, (ns, idx)) new ->
        ns = cs_ns s /\
        forall (m : module) name f,
          nth_error (m_functions m) (cs_fn s) = Some (name, f) -> f_cards f = cards ->
          exists c, CardEdit.get_card m idx = CardEdit.ROk c.
Proof. exact emit_index_sound. Qed.
Print Assumptions C15_emit_index_sound.

(* compile_error_loc, per function: a compilation error raised while the cards of a function are compiled
   (EmptyVariable, TooManyLocals, TooManyUpvalues, InvalidJump, SuperLimitReached) has a location whose card index
   resolves, through Module::get_card, to a card of that function *)
Theorem C15_compile_error_loc :
  forall (cards : list card) (s : cstate) (e : cerr) (l : option loc),
    (cs_idx s = [] \/ exists x, cs_idx s = [x]) ->
    process_cards cards 0 s = RErr e l ->
    exists ns idx, l = Some (ns, idx) /\ ns = cs_ns s /\
      forall (m : module) name f,
        nth_error (m_functions m) (cs_fn s) = Some (name, f) -> f_cards f = cards ->
        exists c, CardEdit.get_card m idx = CardEdit.ROk c.
Proof. exact compile_error_loc. Qed.
Print Assumptions C15_compile_error_loc.

(* finding N-C15-1 (confirmed on the crate at 79de9a2, repaired by 2f34106): the count card of a Repeat
   was compiled under sub-index [.., 0, 0] while Card::get_child(Repeat, 0) is the count card, so the
   location of its instructions did not resolve; now it does *)
Theorem C15_repeat_count_index_resolves :
  exists B idx,
    compile (main_module [CRepeat None (CScalarInt 3) CScalarNil]) default_options = COk B /\
    In (0%N, ([], idx)) (p_trace B) /\
    CardEdit.get_card (main_module [CRepeat None (CScalarInt 3) CScalarNil]) idx
    = CardEdit.ROk (CScalarInt 3).
Proof. exact repeat_count_index_resolves. Qed.
Print Assumptions C15_repeat_count_index_resolves.

(* ------------------------------------------------------------------ run-time half *)

(* the dispatch loop of `_run` reports an error at the address of the instruction that failed: it returns
   RErr e a s' only if it reached address a through instructions that all succeeded and then either the
   instruction that starts at a failed with e leaving the machine in s', or the budget was exhausted before
   dispatching it (Timeout), or a is past the end of the code *)
Theorem C15_loop_error_at :
  forall (F : Vm.fops) (bld : Vm.build) (P : Vm.program) (reenter : N -> Vm.state -> Vm.rres)
         (fuel : nat) (ip : N) (s : Vm.state) (e : Vm.err) (a : N) (s' : Vm.state),
    Vm.loop F bld P reenter fuel ip s = Vm.RErr e a s' ->
    exists s0, C15Proofs.reaches F bld P reenter ip s a s0 /\ C15Proofs.fails_at F bld P reenter a s0 e s'.
Proof. exact C15Proofs.loop_error_at. Qed.
Print Assumptions C15_loop_error_at.

(* one instruction - any opcode, any native of the menu, re-entry through run_function included - keeps the
   invariant that the source address of every call frame is 0 (the frame pushed by Vm::run), the address of a
   CallFunction instruction (opcode 11), or the position of a label (the frames of Vm::run_function, A-32) *)
Theorem C15_step_frames_ok :
  forall (F : Vm.fops) (bld : Vm.build) (P : Vm.program) (reenter : N -> Vm.state -> Vm.rres),
    (forall ip s, C15Proofs.frames_ok (C15Proofs.src_ok P) s ->
                  C15Proofs.rres_ok (C15Proofs.src_ok P) (reenter ip s)) ->
    forall ip s, C15Proofs.frames_ok (C15Proofs.src_ok P) s ->
                 C15Proofs.sres_ok (C15Proofs.src_ok P) (Vm.step F bld P reenter ip s).
Proof.
  intros F bld P reenter H. apply C15Proofs.step_frames_ok.
  - apply C15Proofs.src_ok_label.
  - apply C15Proofs.src_ok_call.
  - exact H.
Qed.
Print Assumptions C15_step_frames_ok.

(* error_trace_shape: when `run` fails, the trace is [trace(a)] ++ [trace(src f) | f <- call frames, top first]
   filtered to the entries that exist, where a is the address of the failing instruction (as in
   C15_loop_error_at, reached from address 0 with the frame of Vm::run pushed) and every frame source is 0, a
   CallFunction instruction or a label position - for every program, start state with such frames, budget,
   build profile and float instance *)
Theorem C15_error_trace_shape :
  forall (F : Vm.fops) (bld : Vm.build) (budget : nat) (P : Vm.program) (s : Vm.state)
         (e : Vm.err) (t : list N) (s' : Vm.state),
    C15Proofs.frames_ok (C15Proofs.src_ok P) s ->
    Vm.run F bld budget P s = (Vm.OErr e t, s') ->
    (t = [] /\ e = Vm.ECallStackOverflow /\ Vm.push_frame s (Vm.mkFrame 0 0 0 None) = None) \/
    exists a s_fail s_start s0,
      t = Vm.opt_list (Vm.assoc a (Vm.p_trace P) ::
                       map (fun f => Vm.assoc (Vm.fr_src f) (Vm.p_trace P)) (Vm.st_calls s_fail)) /\
      Forall (fun f => C15Proofs.src_ok P (Vm.fr_src f)) (Vm.st_calls s_fail) /\
      Vm.push_frame s (Vm.mkFrame 0 0 0 None) = Some s_start /\
      C15Proofs.reaches F bld P (Vm.run_at F bld P false (N.of_nat budget) (pred Vm.max_depth)) 0
                        (Vm.set_rem s_start (N.of_nat budget)) a s0 /\
      C15Proofs.fails_at F bld P (Vm.run_at F bld P false (N.of_nat budget) (pred Vm.max_depth)) a s0 e s_fail.
Proof. exact C15Proofs.error_trace_shape. Qed.
Print Assumptions C15_error_trace_shape.

(* finding N-C15-2 (known class 12 of C15Check), as a theorem about the model: Vm::run_function turns a failed
   nested run into NErr with the same payload; the failing address is dropped and the call stack is cut back to
   the height it had when run_function was entered, so the trace the outer run builds afterwards cannot name
   the card that failed nor the frames of the nested run *)
Theorem C15_nested_error_keeps_payload_only :
  forall (P : Vm.program) (reenter : N -> Vm.state -> Vm.rres) (cn : N -> Vm.state -> Vm.nres)
         (a h ar : N) (s : Vm.state) (src : N) (s1 s2 : Vm.state) (e : Vm.err) (ip : N) (s3 : Vm.state),
    Vm.hget (Vm.st_heap s) a = Some (Vm.OFun h ar) ->
    (Vm.code_len P =? 0)%N = false ->
    Vm.assoc h (Vm.p_labels P) = Some src ->
    (N.of_nat (Vm.scount s) <? ar)%N = false ->
    let f := Vm.mkFrame src (Vm.last_pos P) (N.of_nat (Vm.scount s) - ar) None in
    Vm.push_frame s f = Some s1 -> Vm.push_frame s1 f = Some s2 ->
    reenter src s2 = Vm.RErr e ip s3 ->
    exists s', Vm.run_function P reenter cn (Vm.VObj a) s = Vm.NErr e s' /\
               Vm.st_calls s' = skipn (length (Vm.st_calls s3) - length (Vm.st_calls s)) (Vm.st_calls s3).
Proof. exact C15Proofs.nested_error_keeps_payload_only. Qed.
Print Assumptions C15_nested_error_keeps_payload_only.

(* ------------------------------------------------------------------ the two halves together *)

(* For a program B of the compiler model handed to the VM model (C15Link.to_vm): if the compiler recorded the
   location l for address a, the first entry of the trace built for a failure at a stands for l *)
Theorem C15_reported_head_is_compiler_entry :
  forall (B : compiled) (a : N) (s : Vm.state) (l : loc),
    C15Link.keys_increasing (p_trace B) = true ->
    In (a, l) (p_trace B) ->
    exists rest, map (C15Link.trace_loc B) (Vm.build_trace (C15Link.to_vm B) a s) = l :: rest.
Proof. exact C15Proofs.reported_head_is_compiler_entry. Qed.
Print Assumptions C15_reported_head_is_compiler_entry.

(* ... and if that entry was recorded while the cards of function number [cs_fn s0] were compiled
   (C15_emit_index_sound), trace[0] carries the namespace of that function and resolves, through
   Module::get_card, to a card of it. What is NOT proved: that every entry of `compile m` stems from the
   process_cards run of the function that (namespace, function index) designate in m, or is one of the two
   function-level forms - C15Check.trace_resolves_of checks exactly this on every generated case (code 1). *)
Theorem C15_error_head_resolves :
  forall (cards : list card) (s0 s1 : cstate) (B : compiled) (a : N) (ns : list str) (idx : card_index)
         (vs : Vm.state),
    (cs_idx s0 = [] \/ exists x, cs_idx s0 = [x]) ->
    process_cards cards 0 s0 = ROk tt s1 ->
    (forall new, cs_trace s1 = new ++ cs_trace s0 -> In (a, (ns, idx)) new) ->
    C15Link.keys_increasing (p_trace B) = true ->
    In (a, (ns, idx)) (p_trace B) ->
    (exists rest, map (C15Link.trace_loc B) (Vm.build_trace (C15Link.to_vm B) a vs) = (ns, idx) :: rest) /\
    ns = cs_ns s0 /\
    forall (m : module) name f,
      nth_error (m_functions m) (cs_fn s0) = Some (name, f) -> f_cards f = cards ->
      exists c, CardEdit.get_card m idx = CardEdit.ROk c.
Proof.
  intros cards s0 s1 B a ns idx vs Hidx Hpc Hnew Hk Hin.
  destruct (emit_index_sound cards s0 s1 Hidx Hpc) as (new & Hsplit & Hall).
  destruct (Hall a ns idx (Hnew new Hsplit)) as [Hns Hres].
  split; [exact (@C15Proofs.reported_head_is_compiler_entry B a vs (ns, idx) Hk Hin)|].
  split; [exact Hns|exact Hres].
Qed.
Print Assumptions C15_error_head_resolves.
