(* C15 - error locations identify the failing card and its call chain.
   Statements only. Compile-time half (which location the compiler records, and that it resolves through
   Module::get_card): proofs in Cao.CompilerTrace (some card of the function), Cao.CompilerOwner /
   CompilerOwnerProg (the very card that emitted the instruction; CallFunction = Call / DynamicCall card) and
   Cao.C15Resolve (the module tree; the assembled theorem C15_error_trace_resolves).
   Run-time half (which trace the VM reports): proofs in Cao.C15Proofs, over the VM model Cao.Vm.
   Last section (Cao.CompilerOwnerFull / CompilerOwnerFullProg / C15Full, examples in C15FullExamples): the run list
   is no longer a bare ghost - it is shown to be exactly the enumeration of all card positions of all functions of
   the IR stream (C15_card_run_list_is_all_positions, C15_run_list_complete, C15_get_card_has_run), and every trace
   entry is classified by two decidable tests (C15_compile_trace_classified, C15_error_trace_classified): owner /
   N-C15-4 (jump of While, IfTrue, IfFalse, IfElse: names exactly the card's child 1) / N-C15-3 (function epilogue:
   opcode class and location given exactly, C15_epilogue_resolution says what that location resolves to).
   Still open: the runs are identified with the activations of process_card through the card tree (process_card
   recurses once per get_child child; the list has one real execution per position) - there is no instrumented
   compiler that logs activations; the synthetic leaf cards that compiler.rs feeds to process_card for Repeat
   (ScalarInt 0 / 1) and for main's final Abort are, as in the model, instructions of the enclosing card / of the
   epilogue; N-C15-2 (nested runs lose the location) is unchanged. *)
From Coq Require Import List NArith ZArith.
From Cao Require Import ListUtil Bits CardAst Bytecode Compiler Wellformed CompilerProofs CompilerTrace.
From Cao Require CardEdit Vm C15Link C15Proofs C15Check CompilerOwner CompilerOwnerProg C15Resolve C15Examples.
From Cao Require CompilerOwnerFull CompilerOwnerFullProg C15Full C15FullExamples.
Import ListNotations.

(* emit_index_sound, per function: while the cards of a function are compiled (process_cards, i.e. the
   loop of process_function), every trace entry that is recorded carries the namespace of the function
   and a card index that Module::get_card (the C16 model, CardEdit.get_card / get_child) resolves to a
   card, in any module whose function number [cs_fn] has these cards - for all card kinds, nesting and
   closures.
   This is where the compiler's child numbering and Card::get_child have to agree. *)
Theorem C15_emit_index_sound :
  forall (cards : list card) (s s' : cstate),
    (cs_idx s = [] \/ exists x, cs_idx s = [x]) ->
    process_cards cards 0 s = ROk tt s' ->
    exists new, cs_trace s' = new ++ cs_trace s /\
      forall a ns idx, In (a, (ns, idx)) new ->
        ns = cs_ns s /\
        forall (m : module) name f,
          nth_error (m_functions m) (cs_fn s) = Some (name, f) -> f_cards f = cards ->
          exists c, CardEdit.get_card m idx = CardEdit.ROk c.
Proof. exact emit_index_sound. Qed.
Print Assumptions C15_emit_index_sound.

(* compile_error_loc, per function: a compilation error raised while the cards of a function are compiled
   (EmptyVariable, TooManyLocals, TooManyUpvalues, InvalidJump, SuperLimitReached) has a location whose card index
   resolves, through Module::get_card, to a card of that function *)
Theorem C15_compile_error_loc :
  forall (cards : list card) (s : cstate) (e : cerr) (l : option loc),
    (cs_idx s = [] \/ exists x, cs_idx s = [x]) ->
    process_cards cards 0 s = RErr e l ->
    exists ns idx, l = Some (ns, idx) /\ ns = cs_ns s /\
      forall (m : module) name f,
        nth_error (m_functions m) (cs_fn s) = Some (name, f) -> f_cards f = cards ->
        exists c, CardEdit.get_card m idx = CardEdit.ROk c.
Proof. exact compile_error_loc. Qed.
Print Assumptions C15_compile_error_loc.

(* finding N-C15-1 (confirmed on the crate at 79de9a2, repaired by 2f34106): the count card of a Repeat
   was compiled under sub-index [.., 0, 0] while Card::get_child(Repeat, 0) is the count card, so the
   location of its instructions did not resolve; now it does *)
Theorem C15_repeat_count_index_resolves :
  exists B idx,
    compile (main_module [CRepeat None (CScalarInt 3) CScalarNil]) default_options = COk B /\
    In (0%N, ([], idx)) (p_trace B) /\
    CardEdit.get_card (main_module [CRepeat None (CScalarInt 3) CScalarNil]) idx
    = CardEdit.ROk (CScalarInt 3).
Proof. exact repeat_count_index_resolves. Qed.
Print Assumptions C15_repeat_count_index_resolves.

(* ------------------------------------------------------------------ run-time half *)

(* the dispatch loop of `_run` reports an error at the address of the instruction that failed: it returns
   RErr e a s' only if it reached address a through instructions that all succeeded and then either the
   instruction that starts at a failed with e leaving the machine in s', or the budget was exhausted before
   dispatching it (Timeout), or a is past the end of the code *)
Theorem C15_loop_error_at :
  forall (F : Vm.fops) (bld : Vm.build) (P : Vm.program) (reenter : N -> Vm.state -> Vm.rres)
         (fuel : nat) (ip : N) (s : Vm.state) (e : Vm.err) (a : N) (s' : Vm.state),
    Vm.loop F bld P reenter fuel ip s = Vm.RErr e a s' ->
    exists s0, C15Proofs.reaches F bld P reenter ip s a s0 /\ C15Proofs.fails_at F bld P reenter a s0 e s'.
Proof. exact C15Proofs.loop_error_at. Qed.
Print Assumptions C15_loop_error_at.

(* one instruction - any opcode, any native of the menu, re-entry through run_function included - keeps the
   invariant that the source address of every call frame is 0 (the frame pushed by Vm::run), the address of a
   CallFunction instruction (opcode 11), or the position of a label (the frames of Vm::run_function, A-32) *)
Theorem C15_step_frames_ok :
  forall (F : Vm.fops) (bld : Vm.build) (P : Vm.program) (reenter : N -> Vm.state -> Vm.rres),
    (forall ip s, C15Proofs.frames_ok (C15Proofs.src_ok P) s ->
                  C15Proofs.rres_ok (C15Proofs.src_ok P) (reenter ip s)) ->
    forall ip s, C15Proofs.frames_ok (C15Proofs.src_ok P) s ->
                 C15Proofs.sres_ok (C15Proofs.src_ok P) (Vm.step F bld P reenter ip s).
Proof.
  intros F bld P reenter H. apply C15Proofs.step_frames_ok.
  - apply C15Proofs.src_ok_label.
  - apply C15Proofs.src_ok_call.
  - exact H.
Qed.
Print Assumptions C15_step_frames_ok.

(* error_trace_shape: when `run` fails, the trace is [trace(a)] ++ [trace(src f) | f <- call frames, top first]
   filtered to the entries that exist, where a is the address of the failing instruction (as in
   C15_loop_error_at, reached from address 0 with the frame of Vm::run pushed) and every frame source is 0, a
   CallFunction instruction or a label position - for every program, start state with such frames, budget,
   build profile and float instance *)
Theorem C15_error_trace_shape :
  forall (F : Vm.fops) (bld : Vm.build) (budget : nat) (P : Vm.program) (s : Vm.state)
         (e : Vm.err) (t : list N) (s' : Vm.state),
    C15Proofs.frames_ok (C15Proofs.src_ok P) s ->
    Vm.run F bld budget P s = (Vm.OErr e t, s') ->
    (t = [] /\ e = Vm.ECallStackOverflow /\ Vm.push_frame s (Vm.mkFrame 0 0 0 None) = None) \/
    exists a s_fail s_start s0,
      t = Vm.opt_list (Vm.assoc a (Vm.p_trace P) ::
                       map (fun f => Vm.assoc (Vm.fr_src f) (Vm.p_trace P)) (Vm.st_calls s_fail)) /\
      Forall (fun f => C15Proofs.src_ok P (Vm.fr_src f)) (Vm.st_calls s_fail) /\
      Vm.push_frame s (Vm.mkFrame 0 0 0 None) = Some s_start /\
      C15Proofs.reaches F bld P (Vm.run_at F bld P false (N.of_nat budget) (pred Vm.max_depth)) 0
                        (Vm.set_rem s_start (N.of_nat budget)) a s0 /\
      C15Proofs.fails_at F bld P (Vm.run_at F bld P false (N.of_nat budget) (pred Vm.max_depth)) a s0 e s_fail.
Proof. exact C15Proofs.error_trace_shape. Qed.
Print Assumptions C15_error_trace_shape.

(* finding N-C15-2 (known class 12 of C15Check), as a theorem about the model: Vm::run_function turns a failed
   nested run into NErr with the same payload; the failing address is dropped and the call stack is cut back to
   the height it had when run_function was entered, so the trace the outer run builds afterwards cannot name
   the card that failed nor the frames of the nested run *)
Theorem C15_nested_error_keeps_payload_only :
  forall (P : Vm.program) (reenter : N -> Vm.state -> Vm.rres) (cn : N -> Vm.state -> Vm.nres)
         (a h ar : N) (s : Vm.state) (src : N) (s1 s2 : Vm.state) (e : Vm.err) (ip : N) (s3 : Vm.state),
    Vm.hget (Vm.st_heap s) a = Some (Vm.OFun h ar) ->
    (Vm.code_len P =? 0)%N = false ->
    Vm.assoc h (Vm.p_labels P) = Some src ->
    (N.of_nat (Vm.scount s) <? ar)%N = false ->
    let f := Vm.mkFrame src (Vm.last_pos P) (N.of_nat (Vm.scount s) - ar) None in
    Vm.push_frame s f = Some s1 -> Vm.push_frame s1 f = Some s2 ->
    reenter src s2 = Vm.RErr e ip s3 ->
    exists s', Vm.run_function P reenter cn (Vm.VObj a) s = Vm.NErr e s' /\
               Vm.st_calls s' = skipn (length (Vm.st_calls s3) - length (Vm.st_calls s)) (Vm.st_calls s3).
Proof. exact C15Proofs.nested_error_keeps_payload_only. Qed.
Print Assumptions C15_nested_error_keeps_payload_only.

(* ------------------------------------------------------------------ the two halves together *)

(* For a program B of the compiler model handed to the VM model (C15Link.to_vm): if the compiler recorded the
   location l for address a, the first entry of the trace built for a failure at a stands for l *)
Theorem C15_reported_head_is_compiler_entry :
  forall (B : compiled) (a : N) (s : Vm.state) (l : loc),
    C15Link.keys_increasing (p_trace B) = true ->
    In (a, l) (p_trace B) ->
    exists rest, map (C15Link.trace_loc B) (Vm.build_trace (C15Link.to_vm B) a s) = l :: rest.
Proof. exact C15Proofs.reported_head_is_compiler_entry. Qed.
Print Assumptions C15_reported_head_is_compiler_entry.

(* ... and if that entry was recorded while the cards of function number [cs_fn s0] were compiled
   (C15_emit_index_sound), trace[0] carries the namespace of that function and resolves, through
   Module::get_card, to a card of it. (Kept as the per-function statement; the statement for `compile m` and the
   module tree, with the emitting card instead of "a card", is C15_compile_trace_resolves /
   C15_error_trace_resolves below.) *)
Theorem C15_error_head_resolves :
  forall (cards : list card) (s0 s1 : cstate) (B : compiled) (a : N) (ns : list str) (idx : card_index)
         (vs : Vm.state),
    (cs_idx s0 = [] \/ exists x, cs_idx s0 = [x]) ->
    process_cards cards 0 s0 = ROk tt s1 ->
    (forall new, cs_trace s1 = new ++ cs_trace s0 -> In (a, (ns, idx)) new) ->
    C15Link.keys_increasing (p_trace B) = true ->
    In (a, (ns, idx)) (p_trace B) ->
    (exists rest, map (C15Link.trace_loc B) (Vm.build_trace (C15Link.to_vm B) a vs) = (ns, idx) :: rest) /\
    ns = cs_ns s0 /\
    forall (m : module) name f,
      nth_error (m_functions m) (cs_fn s0) = Some (name, f) -> f_cards f = cards ->
      exists c, CardEdit.get_card m idx = CardEdit.ROk c.
Proof.
  intros cards s0 s1 B a ns idx vs Hidx Hpc Hnew Hk Hin.
  destruct (emit_index_sound cards s0 s1 Hidx Hpc) as (new & Hsplit & Hall).
  destruct (Hall a ns idx (Hnew new Hsplit)) as [Hns Hres].
  split; [exact (@C15Proofs.reported_head_is_compiler_entry B a vs (ns, idx) Hk Hin)|].
  split; [exact Hns|exact Hres].
Qed.
Print Assumptions C15_error_head_resolves.

(* ------------------------------------------------------------------ which card an entry names *)

(* card_owns_its_instructions (CompilerOwner.JB, read for one card): in a successful run of process_card on a card
   c of a function (at the index idx that designates it), from a state whose byte count is exact, every
   instruction pushed (address a, recorded location l) lies in the byte range of the run and is attributed: the
   INNERMOST process_card run r that contains a - c itself or a card below it, each such run being a real
   execution of process_card on that card at the index that designates it, and a part of this computation: its
   start state has recorded at least the trace of s, all that its end state has recorded is in the trace of s'
   (run_ok) - has l = the index of r's
   card, or (finding N-C15-4) r's card is While / IfTrue / IfFalse / IfElse and l is the index of its child 1
   (own_loc); a CallFunction instruction is the own instruction of a Call / DynamicCall card and carries exactly
   that card's index. The list of runs is a ghost of the proof: it is existentially quantified, anchored to
   executions by run_ok, and its ranges are nested or disjoint by construction.
   Guard: the buffer stays below 2^32 bytes (push_instruction records `len as u32`). *)
Theorem C15_card_owns_its_instructions :
  forall (cards : list card) (c : card) (idx : list N) (ctx : list card) (s s' : cstate),
    cs_idx s = idx -> at_ctx cards idx (c :: ctx) -> cs_pc s = CompilerWf.bytes (cs_code s) ->
    process_card c s = ROk tt s' -> (cs_pc s' <= Bits.two32)%N ->
    exists (newx : list CompilerOwner.xentry) (runs : list CompilerOwner.run),
      cs_trace s' = map fst newx ++ cs_trace s /\
      CompilerOwner.addrs (cs_code s') (cs_pc s') =
        map CompilerOwner.xaddr newx ++ CompilerOwner.addrs (cs_code s) (cs_pc s) /\
      CompilerOwner.runs_in cards (cs_ns s) (cs_fn s) (cs_pc s) (cs_pc s') (cs_trace s) (cs_trace s') runs /\
      Forall (CompilerOwner.attr runs [] (cs_ns s) (cs_fn s) (cs_pc s) (cs_pc s')) newx.
Proof.
  intros cards c idx ctx s s' Hi Hat Hpc Hrun Hg.
  pose proof (CompilerOwner.process_card_jb cards c idx ctx [] s Hi Hat Hpc) as H. rewrite Hrun in H.
  destruct H as (_ & _ & _ & _ & _ & _ & H). exact (H Hg).
Qed.
Print Assumptions C15_card_owns_its_instructions.

(* ir_stream_in_tree (the lifting from one function to the module tree): every function of the IR stream of
   `compile M` is a function of M's tree with `std` injected: its namespace designates a submodule (module_at,
   first name match, the resolver of the correspondence check), its function index is its position in that
   submodule's function list, and it has that function's cards *)
Theorem C15_ir_stream_in_tree :
  forall (M : module) (limit : N) (fs : list function_ir),
    into_ir_stream M limit = inr fs ->
    forall f, In f fs ->
      exists sub fn, C15Check.module_at (C15Check.with_std M) (fi_ns f) = Some sub /\
                     nth_error (m_functions sub) (fi_index f) = Some (fi_name f, fn) /\ f_cards fn = fi_cards f.
Proof. exact C15Resolve.ir_stream_in_tree. Qed.
Print Assumptions C15_ir_stream_in_tree.

(* compile_trace_resolves: for a program B = compile M o below 2^32 bytes there is a list of process_card runs
   (gruns_real: each one an execution of process_card on a card of a function of the IR stream, which is a function
   of the tree; byte ranges inside the program) such that every trace entry (a, l) of B satisfies entry_resolves:
   EITHER a lies in a run; then for the innermost run (f, r) that contains a, l carries the namespace and the
   function index of f and, looked up in M's tree (namespace -> submodule, then CardEdit.get_card), resolves to
   r's card - or, for the jumps of While / IfTrue / IfFalse / IfElse (N-C15-4), to its child 1 -, and if the byte
   at a is the CallFunction opcode (11) then r's card is a Call or DynamicCall card and l resolves to exactly it;
   OR a lies in no run (a function-level instruction: the epilogues, finding N-C15-3) and then the byte at a is
   not CallFunction *)
Theorem C15_compile_trace_resolves :
  forall (M : module) (o : options) (B : compiled),
    compile M o = COk B -> (N.of_nat (length (p_bytecode B)) <= Bits.two32)%N ->
    exists gruns, C15Resolve.gruns_real M o B gruns /\
      forall a l, In (a, l) (p_trace B) -> C15Resolve.entry_resolves M B gruns a l.
Proof. exact C15Resolve.compile_trace_resolves. Qed.
Print Assumptions C15_compile_trace_resolves.

(* what entry_resolves gives for the source address of a call frame: if the byte there is CallFunction, the entry
   resolves in the tree to a Call / DynamicCall card, under the namespace of that card's function *)
Theorem C15_call_entry_is_call_card :
  forall (M : module) (B : compiled) (gruns : list CompilerOwnerProg.grun) (a : N) (l : loc),
    C15Resolve.entry_resolves M B gruns a l -> C15Resolve.byte_at B a = 11%N ->
    exists f r, CompilerOwnerProg.gdeepest gruns (f, r) a /\ fst l = fi_ns f /\
                CompilerOwner.is_call_card (CompilerOwner.r_card r) = true /\
                C15Resolve.resolves_to M l (CompilerOwner.r_card r).
Proof. exact C15Resolve.entry_resolves_call. Qed.
Print Assumptions C15_call_entry_is_call_card.

(* error_trace_resolves: compile M o = COk B (below 2^32 bytes) and a failing run of to_vm B from a state whose
   frames have admissible sources (the hypotheses of C15_error_trace_shape). Unless the frame of Vm::run itself
   could not be pushed, the reported trace, read as locations, is
       [entry(a)] ++ [entry(src f) | f <- call frames of the failing state, innermost first]
   (existing entries only), a = the address of the instruction that failed in this run (reaches / fails_at), and
   - trace[0] = entry(a) satisfies entry_resolves: it resolves in M's tree to the card whose compilation emitted
     the instruction at a (innermost process_card run containing a), with the carve-outs N-C15-4 (jumps of
     While / If cards: child 1) and N-C15-3 (a in no run: function-level epilogue instruction);
   - every frame source is 0 (the frame of Vm::run: the program entry), a CallFunction byte, or a label position
     (the frames of Vm::run_function), its entry satisfies entry_resolves, hence (C15_call_entry_is_call_card) the
     entry of every frame whose source is a CallFunction resolves to the Call / DynamicCall card that emitted it,
     under the namespace of that card's function.
   N-C15-2 is not an exception to this statement but a limit of what it says: an error inside a nested run
   (Vm::run_function, called by a native) reaches this run as the failure of the CallNative instruction, so a is
   the address of that CallNative and the frames are those of the outer run
   (C15_nested_error_keeps_payload_only). *)
Theorem C15_error_trace_resolves :
  forall (F : Vm.fops) (bld : Vm.build) (budget : nat) (M : module) (o : options) (B : compiled)
         (s : Vm.state) (e : Vm.err) (t : list N) (s' : Vm.state),
    compile M o = COk B -> (N.of_nat (length (p_bytecode B)) <= Bits.two32)%N ->
    C15Proofs.frames_ok (C15Proofs.src_ok (C15Link.to_vm B)) s ->
    Vm.run F bld budget (C15Link.to_vm B) s = (Vm.OErr e t, s') ->
    (t = [] /\ e = Vm.ECallStackOverflow /\ Vm.push_frame s (Vm.mkFrame 0 0 0 None) = None) \/
    exists gruns a s_fail s_start s0,
      C15Resolve.gruns_real M o B gruns /\
      map (C15Link.trace_loc B) t =
        Vm.opt_list (C15Resolve.entry_at B a ::
                     map (fun f => C15Resolve.entry_at B (Vm.fr_src f)) (Vm.st_calls s_fail)) /\
      (forall l, C15Resolve.entry_at B a = Some l -> C15Resolve.entry_resolves M B gruns a l) /\
      Forall (fun f => (Vm.fr_src f = 0%N \/ C15Resolve.byte_at B (Vm.fr_src f) = 11%N \/
                        exists label, Vm.assoc label (Vm.p_labels (C15Link.to_vm B)) = Some (Vm.fr_src f)) /\
                       forall l, C15Resolve.entry_at B (Vm.fr_src f) = Some l ->
                                 C15Resolve.entry_resolves M B gruns (Vm.fr_src f) l)
             (Vm.st_calls s_fail) /\
      Vm.push_frame s (Vm.mkFrame 0 0 0 None) = Some s_start /\
      C15Proofs.reaches F bld (C15Link.to_vm B)
        (Vm.run_at F bld (C15Link.to_vm B) false (N.of_nat budget) (pred Vm.max_depth)) 0
        (Vm.set_rem s_start (N.of_nat budget)) a s0 /\
      C15Proofs.fails_at F bld (C15Link.to_vm B)
        (Vm.run_at F bld (C15Link.to_vm B) false (N.of_nat budget) (pred Vm.max_depth)) a s0 e s_fail.
Proof. exact C15Resolve.error_trace_resolves. Qed.
Print Assumptions C15_error_trace_resolves.

(* example (vm_compute, any float instance): main -> lib.outer -> lib.deep.boom, which calls a missing native;
   compile (default options, debug) followed by Vm.run (budget 1000, fresh state) reports
   ProcedureNotFound with a trace of four entries whose namespaces are lib.deep, lib, root, root and which
   resolve, in the module tree, to the failing CallNative card, the Call card inside the IfTrue of lib.outer, the
   Call card of main, and the program entry (first card of main: the frame of Vm::run) *)
Theorem C15_example_call_chain :
  forall F : Vm.fops,
  exists h t,
    C15Examples.run_loc F C15Examples.chain_module 1000 = Some (Vm.EProcedureNotFound h, t) /\
    map fst t = [[C15Examples.w_lib; C15Examples.w_deep]; [C15Examples.w_lib]; []; []] /\
    map (C15Examples.resolve C15Examples.chain_module) t =
      [Some C15Examples.card_boom; Some C15Examples.card_call_boom; Some C15Examples.card_call_outer;
       Some (CScalarInt 1)].
Proof. exact C15Examples.chain_trace_resolves. Qed.
Print Assumptions C15_example_call_chain.

(* finding N-C15-4 (new, reported): the GotoIfFalse that a While card emits (opcode 30 at address 9 of
   `while 1 { nil }`) is recorded under sub-index 1, so its location resolves to the loop body, not to the While
   card; the same holds for the back jump and for the jumps of IfTrue / IfFalse / IfElse (compiler.rs pushes
   sub-index 1 before encode_if_then). A Timeout that strikes at such a jump names the body / then-branch. *)
Theorem C15_while_jump_names_body :
  exists B idx,
    compile C15Examples.while_module default_options = COk B /\
    nth 9 (p_bytecode B) 255%N = 30%N /\
    In (9%N, ([], idx)) (p_trace B) /\
    CardEdit.get_card C15Examples.while_module idx = CardEdit.ROk CScalarNil.
Proof. exact C15Examples.while_jump_names_body. Qed.
Print Assumptions C15_while_jump_names_body.

(* ------------------------------------------------------------------ the run list is complete; total classification *)

(* card_run_list_is_all_positions (CompilerOwnerFull.JF, read for one card): as C15_card_owns_its_instructions, but
   the run list is no longer arbitrary: its (index, card) pairs are, in order, EXACTLY [subcards idx c] - c itself and
   every card below it (children numbered as Card::get_child numbers them, closure bodies included), each once; and
   the attribution is exact ([attrF]): the innermost run r containing the address of a pushed instruction carries
   the location of index own_idx = (r's index, or 1 :: r's index if r's card is While / IfTrue / IfFalse / IfElse),
   with an opcode in own_ops (those four cards: a jump; CallFunction only for Call / DynamicCall cards) *)
Theorem C15_card_run_list_is_all_positions :
  forall (cards : list card) (c : card) (idx : list N) (ctx : list card) (s s' : cstate),
    cs_idx s = idx -> at_ctx cards idx (c :: ctx) -> cs_pc s = CompilerWf.bytes (cs_code s) ->
    process_card c s = ROk tt s' -> (cs_pc s' <= Bits.two32)%N ->
    exists (newx : list CompilerOwnerFull.oentry) (runs : list CompilerOwner.run),
      cs_trace s' = map fst newx ++ cs_trace s /\
      CompilerOwnerFull.oaddrs (cs_code s') (cs_pc s') =
        map CompilerOwnerFull.oaddr newx ++ CompilerOwnerFull.oaddrs (cs_code s) (cs_pc s) /\
      CompilerOwner.runs_in cards (cs_ns s) (cs_fn s) (cs_pc s) (cs_pc s') (cs_trace s) (cs_trace s') runs /\
      map CompilerOwnerFull.rkey runs = CompilerOwnerFull.subcards idx c /\
      Forall (CompilerOwnerFull.attrF runs [] (cs_ns s) (cs_fn s) (cs_pc s) (cs_pc s')) newx.
Proof.
  intros cards c idx ctx s s' Hi Hat Hpc Hrun Hg.
  pose proof (CompilerOwnerFull.process_card_jf cards c idx ctx [] s Hi Hat Hpc) as H. rewrite Hrun in H.
  destruct H as (_ & _ & _ & _ & _ & _ & H). exact (H Hg).
Qed.
Print Assumptions C15_card_run_list_is_all_positions.

(* run_list_complete: a run list whose keys are those of the whole IR stream (what C15_compile_trace_classified
   provides) holds a run, on that very card, for every card position the compiler can be at in any function of the
   stream (at_ctx: a top-level card, or a get_child child of such a position) *)
Theorem C15_run_list_complete :
  forall (fs : list function_ir) (gruns : list CompilerOwnerProg.grun) (f : function_ir)
         (idx : list N) (c : card) (ctx : list card),
    map CompilerOwnerFullProg.gkeyof gruns = CompilerOwnerFullProg.stream_keys fs -> In f fs ->
    at_ctx (fi_cards f) idx (c :: ctx) ->
    exists r, In (f, r) gruns /\ CompilerOwner.r_idx r = idx /\ CompilerOwner.r_card r = c.
Proof. exact C15Full.position_has_run. Qed.
Print Assumptions C15_run_list_complete.

(* ... in terms of Module::get_card: every card that get_card reaches in a function of the stream has a run, and the
   location of that run's index is the looked-up location *)
Theorem C15_get_card_has_run :
  forall (fs : list function_ir) (gruns : list CompilerOwnerProg.grun) (f : function_ir) (sub : module)
         (name : str) (fn : function) (indices : list nat) (c : card),
    map CompilerOwnerFullProg.gkeyof gruns = CompilerOwnerFullProg.stream_keys fs -> In f fs ->
    nth_error (m_functions sub) (fi_index f) = Some (name, fn) -> f_cards fn = fi_cards f ->
    CardEdit.get_card sub {| ci_function := fi_index f; ci_indices := indices |} = CardEdit.ROk c ->
    exists r, In (f, r) gruns /\ CompilerOwner.r_card r = c /\
              CompilerOwner.mkl (fi_ns f) (fi_index f) (CompilerOwner.r_idx r) =
                (fi_ns f, {| ci_function := fi_index f; ci_indices := indices |}).
Proof. exact C15Full.get_card_has_run. Qed.
Print Assumptions C15_get_card_has_run.

(* compile_trace_classified: for B = compile M o below 2^32 bytes there are the IR stream fs and a run list gruns
   with gruns_full: real executions of process_card on cards of functions of fs (as gruns_real), AND
   map gkeyof gruns = stream_keys fs: one run per card position of every function, in compilation order; and every
   trace entry (a, l) of B satisfies entry_classified, a case distinction by two boolean tests:
     no_run_b gruns a          : a lies in no run (function epilogue, N-C15-3): the byte at a is Pop / CloseUpvalue /
                                 ScalarNil / Return / Exit and l is the epilogue location epi_loc k f of the k-th
                                 function f of fs (k = 0, main: index [number of cards mod 2^32]; k > 0: the index of
                                 the last top-level card, or the empty index);
     else, with (f, r) an innermost run containing a, l has the namespace and function index of f and
     quirk (r_card r)          : (N-C15-4) the byte at a is Goto / GotoIfTrue / GotoIfFalse, l is exactly the index
                                 of r's child 1 and resolves in M's tree to that child;
     otherwise                 : l is exactly the index of r's card, resolves to r's card, and if the byte at a is
                                 CallFunction then r's card is a Call / DynamicCall card *)
Theorem C15_compile_trace_classified :
  forall (M : module) (o : options) (B : compiled),
    compile M o = COk B -> (N.of_nat (length (p_bytecode B)) <= Bits.two32)%N ->
    exists fs gruns, C15Full.gruns_full M o B fs gruns /\
      forall a l, In (a, l) (p_trace B) -> C15Full.entry_classified M B fs gruns a l.
Proof. exact C15Full.compile_trace_classified. Qed.
Print Assumptions C15_compile_trace_classified.

(* a test on the entry alone: an entry whose opcode is neither a jump (28, 29, 30) nor one of the five epilogue
   opcodes (16, 46, 7, 22, 10) names, exactly, the card whose activation emitted the instruction *)
Theorem C15_plain_entry_names_owner :
  forall (M : module) (B : compiled) (fs : list function_ir) (gruns : list CompilerOwnerProg.grun) (a : N) (l : loc),
    C15Full.entry_classified M B fs gruns a l ->
    C15Full.is_jump_byte (C15Resolve.byte_at B a) = false -> C15Full.is_epi_byte (C15Resolve.byte_at B a) = false ->
    exists f r, CompilerOwnerProg.gdeepest gruns (f, r) a /\
                l = CompilerOwner.mkl (fi_ns f) (fi_index f) (CompilerOwner.r_idx r) /\
                C15Resolve.resolves_to M l (CompilerOwner.r_card r).
Proof. exact C15Full.plain_entry_names_owner. Qed.
Print Assumptions C15_plain_entry_names_owner.

(* N-C15-3 characterised: what the epilogue locations resolve to, in a module whose function number fi_index f has
   the cards of f: main's (fewer than 2^32 cards) - CardNotFound; another function's - its LAST top-level card (a
   Timeout striking at the ScalarNil / Return of a called function names that card), InvalidIndex if it has none *)
Theorem C15_epilogue_resolution :
  forall (sub : module) (f : function_ir) (name : str) (fn : function),
    nth_error (m_functions sub) (fi_index f) = Some (name, fn) -> f_cards fn = fi_cards f ->
    ((N.of_nat (length (fi_cards f)) < Bits.two32)%N ->
     CardEdit.get_card sub (snd (CompilerOwnerFullProg.epi_loc 0 f)) = CardEdit.RErr (CardEdit.CardNotFound 0)) /\
    (forall k, CardEdit.get_card sub (snd (CompilerOwnerFullProg.epi_loc (S k) f)) =
               match fi_cards f with
               | [] => CardEdit.RErr CardEdit.InvalidIndex
               | c :: r => CardEdit.ROk (last (c :: r) c)
               end).
Proof. exact C15Full.epilogue_resolution. Qed.
Print Assumptions C15_epilogue_resolution.

(* error_trace_classified: C15_error_trace_resolves with the complete run list (gruns_full) and the total
   classification (entry_classified) of trace[0] and of the entry of every call frame *)
Theorem C15_error_trace_classified :
  forall (F : Vm.fops) (bld : Vm.build) (budget : nat) (M : module) (o : options) (B : compiled)
         (s : Vm.state) (e : Vm.err) (t : list N) (s' : Vm.state),
    compile M o = COk B -> (N.of_nat (length (p_bytecode B)) <= Bits.two32)%N ->
    C15Proofs.frames_ok (C15Proofs.src_ok (C15Link.to_vm B)) s ->
    Vm.run F bld budget (C15Link.to_vm B) s = (Vm.OErr e t, s') ->
    (t = [] /\ e = Vm.ECallStackOverflow /\ Vm.push_frame s (Vm.mkFrame 0 0 0 None) = None) \/
    exists fs gruns a s_fail s_start s0,
      C15Full.gruns_full M o B fs gruns /\
      map (C15Link.trace_loc B) t =
        Vm.opt_list (C15Resolve.entry_at B a ::
                     map (fun f => C15Resolve.entry_at B (Vm.fr_src f)) (Vm.st_calls s_fail)) /\
      (forall l, C15Resolve.entry_at B a = Some l -> C15Full.entry_classified M B fs gruns a l) /\
      Forall (fun f => (Vm.fr_src f = 0%N \/ C15Resolve.byte_at B (Vm.fr_src f) = 11%N \/
                        exists label, Vm.assoc label (Vm.p_labels (C15Link.to_vm B)) = Some (Vm.fr_src f)) /\
                       forall l, C15Resolve.entry_at B (Vm.fr_src f) = Some l ->
                                 C15Full.entry_classified M B fs gruns (Vm.fr_src f) l)
             (Vm.st_calls s_fail) /\
      Vm.push_frame s (Vm.mkFrame 0 0 0 None) = Some s_start /\
      C15Proofs.reaches F bld (C15Link.to_vm B)
        (Vm.run_at F bld (C15Link.to_vm B) false (N.of_nat budget) (pred Vm.max_depth)) 0
        (Vm.set_rem s_start (N.of_nat budget)) a s0 /\
      C15Proofs.fails_at F bld (C15Link.to_vm B)
        (Vm.run_at F bld (C15Link.to_vm B) false (N.of_nat budget) (pred Vm.max_depth)) a s0 e s_fail.
Proof. exact C15Full.error_trace_classified. Qed.
Print Assumptions C15_error_trace_classified.

(* example (vm_compute): main = [while 1 { if 2 { closure { if 3 { nil } else { abort } } } }], g = [7; 8], default
   options. Every entry of the root namespace: (address, opcode byte, (function, indices), get_card result).
   Owned entries resolve to the emitting card at every depth, closure body included; the jumps of While (9, 65), IfTrue
   (23) and IfElse (42, 48) name the child 1 (N-C15-4); main's final Exit (70) carries [1] = [number of cards] and
   resolves to nothing, g's ScalarNil / Return (89, 90) carry the index of g's last card (N-C15-3).
   (Instances of the hypotheses of the theorems above: C15FullExamples.nested_compiles, nested_abort_has_run,
   nested_entry_14_names_owner, nested_g_epilogue, chain_run_fails.) *)
Theorem C15_example_nested_table :
  C15FullExamples.root_table C15FullExamples.nested_module =
    [(0, 5, (0, [0; 0]), Some (CScalarInt 1));
     (9, 30, (0, [0; 1]), Some C15FullExamples.ex_iftrue);
     (14, 5, (0, [0; 1; 0]), Some (CScalarInt 2));
     (23, 30, (0, [0; 1; 1]), Some C15FullExamples.ex_closure);
     (28, 28, (0, [0; 1; 1]), Some C15FullExamples.ex_closure);
     (33, 5, (0, [0; 1; 1; 0; 0]), Some (CScalarInt 3));
     (42, 30, (0, [0; 1; 1; 0; 1]), Some CScalarNil);
     (47, 7, (0, [0; 1; 1; 0; 1]), Some CScalarNil);
     (48, 28, (0, [0; 1; 1; 0; 1]), Some CScalarNil);
     (53, 10, (0, [0; 1; 1; 0; 2]), Some CAbort);
     (54, 7, (0, [0; 1; 1]), Some C15FullExamples.ex_closure);
     (55, 22, (0, [0; 1; 1]), Some C15FullExamples.ex_closure);
     (56, 42, (0, [0; 1; 1]), Some C15FullExamples.ex_closure);
     (65, 28, (0, [0; 1]), Some C15FullExamples.ex_iftrue);
     (70, 10, (0, [1]), None);
     (71, 5, (1, [0]), Some (CScalarInt 7));
     (80, 5, (1, [1]), Some (CScalarInt 8));
     (89, 7, (1, [1]), Some (CScalarInt 8));
     (90, 22, (1, [1]), Some (CScalarInt 8))]%N.
Proof. exact C15FullExamples.nested_table. Qed.
Print Assumptions C15_example_nested_table.

(* the conclusion of C15_compile_trace_classified + C15_run_list_complete on that module: the run list holds a run of
   process_card on the Abort card (else branch of the IfElse in the closure in the IfTrue in the While) at its index *)
Theorem C15_example_nested_abort_has_run :
  exists B fs gruns f r,
    compile C15FullExamples.nested_module default_options = COk B /\
    C15Full.gruns_full C15FullExamples.nested_module default_options B fs gruns /\
    In (f, r) gruns /\ CompilerOwner.r_idx r = [2; 0; 1; 1; 0]%N /\ CompilerOwner.r_card r = CAbort /\
    fi_ns f = [] /\ fi_index f = 0%nat.
Proof. exact C15FullExamples.nested_abort_has_run. Qed.
Print Assumptions C15_example_nested_abort_has_run.
