(* C06 - closures capture variables by reference with correct identity and lifetime.
   Statements only; proofs in Cao.C06Proofs.  Beside each theorem an example on a concrete program.

   What is stated here is true of the REFERENCE SEMANTICS (RefSem.v), for all programs: a variable
   is a cell (an index into the cell store), an environment maps names to cells, a closure record
   keeps the scopes (name -> cell) visible where it was created.  The real compiler + VM are tied
   to this semantics by the differential check C06Check (harness/src/c06.rs).

   The VM-side half (last part of this file; proofs in Cao.VmUpvalueProofs / VmUpvalueStep / VmUpvalueSem, over the
   VM model Cao.Vm, which follows /repo HEAD: CloseUpvalue carries the index of the local that goes out of
   scope, register_upvalue indexes the stack relative to the frame and keeps the rest of the list):

     C06_vm_ok_meaning, C06_fresh_state_vm_ok,
     C06_open_upvalues_preserved (one instruction: every opcode, every native of the menu, re-entry through
       Vm::run_function included), C06_open_upvalues_preserved_run (a whole `run`)
         - the open-upvalue list (a linked list through the heap, head st_open) is strictly descending by
           stack slot, hence at most one open upvalue per slot; every node is an OPEN upvalue object; the list
           holds every open upvalue object of the heap (so every open upvalue of every closure).
         - DIFFERENCE from the statement that stood here before ("Forall (fun l => l < stack_height vm) locs"):
           that bound is NOT an invariant of the VM for arbitrary bytecode.  Pop (and every other instruction
           that lowers the stack) does not look at the list, so a slot can be popped while an open upvalue
           still points at it: C06_open_slot_may_be_dead is a run that ends that way.  What the VM keeps is
           "slot < capacity of the stack array" (an access through an open upvalue stays inside the array),
           and CloseUpvalue k / Return re-establish "slot < frame offset + k" / "slot < frame offset"
           (C06_vm_close_keeps_value, C06_vm_return_closes).  "slot < height" at every point of a COMPILED
           program needs the compiler's discipline (a CloseUpvalue before the pops of a scope); it is not
           proved here.
     C06_vm_register_shares     RegisterUpvalue(index, local): an open upvalue of the slot is reused - two
                                closures that capture the same live local hold the same upvalue address - ;
                                otherwise one is allocated and inserted in order.
     C06_vm_quiet_instructions  no other instruction (all but CallNative, Return, RegisterUpvalue, CloseUpvalue and
                                CallFunction of a native value) touches the list or the state of an upvalue object;
     C06_vm_second_capture_shares  so a second capture of a still-open local gets the first capture's object.
     C06_vm_objects_stable, C06_vm_objects_stable_run, C06_vm_heap_mono_meaning
                                across every instruction and every run: a closure object keeps its label and arity
                                (its upvalue list only grows), a closed upvalue stays closed, an open one never moves.
     C06_vm_closures_closed     every upvalue address stored in a closure object is an upvalue object (all
                                instructions, natives, re-entry, runs from the fresh state).
     C06_vm_read_write_open     ReadUpvalue / SetUpvalue through an open upvalue read / write the stack slot
                                itself, the cell that ReadLocalVar / SetLocalVar of the enclosing function use.
     C06_vm_close_keeps_value,  CloseUpvalue k / Return: exactly the open upvalues with slot >= offset + k
     C06_vm_return_closes,      (>= offset) are closed, each keeping the value its slot holds at that moment;
     C06_vm_closed_upvalue_is_private
                                afterwards ReadUpvalue / SetUpvalue use the object's own cell, which no write
                                to the value stack touches.
     C06_vm_closure_body        Closure h arity creates an object that stores h; RegisterUpvalue keeps it;
                                CallFunction on a closure value jumps to the label h of THAT object and runs
                                with that object as the frame's closure.
     Examples on the compile output of the three witness programs of findings/C06 (Cao.VmUpvalueWitness).

   The refinement between the two halves, FIRST STEP (last part of this file; C06SimDefs.v, C06SimVm.v, C06SimVm2.v,
   C06SimVm3.v): the representation relation [rep] between the cells of the reference store and the VM's stack slots /
   upvalue objects (a cell lives in the slot while its scope is alive, in the upvalue object after CloseUpvalue /
   Return), and its preservation by single instructions, each doing what RefSem does to the designated cell:
     C06_rep_read_upvalue, C06_rep_write_upvalue   ReadUpvalue / SetUpvalue, open and closed
     C06_rep_read_local, C06_rep_write_local       ReadLocalVar / SetLocalVar of the declaring function
     C06_rep_close_upvalue, C06_rep_return         scope end: captured cells move into the upvalue objects, every
                                                   upvalue address of every closure keeps denoting its cell
     C06_rep_register_upvalue                      the capture: the new upvalue address denotes the slot's cell, shared
     C06_ex_closure_sim_witness                    one program (a write through one closure read by its sibling after
                                                   the scope exit) compiled, run and compared with eval_program by
                                                   computation; C06_ex_rep_*_hyps: the hypotheses on its run.

   The refinement THROUGH THE COMPILER, fragment FC (closures over the locals of main, two sibling closures sharing a
   captured variable, writes seen by main; end of this file; C06SimFcDefs.v, C06SimFcRef.v .. C06SimFcRef4.v,
   C06SimFcScope.v): the reference half is PROVED for every program of the fragment - C06_fc_reference_meaning:
   eval_program computes the direct meaning obs_fc, in which all closures and main work on ONE store -, with
   C06_fc_well_scoped; the compiler half (the exact code / labels emitted, code_all_fc / labels_fc) and the VM half are
   DEFINED and CHECKED BY COMPUTATION on the instances C06_fc_instance / C06_fc_instance_ok only.  Missing for the
   closed theorem C06_closure_sim_fc: the proofs of these two halves for all programs of FC.

   Still only STATED (not proved): the whole-program refinement (the induction that chains the steps above along
   compiled code, C06_closure_sim_f1),

     Definition cell_rel (R : cell -> upvalue) (s : RefSem.state) (vm : Vm.state) : Prop :=
       forall c u, R c = u ->
         (is_open vm u   -> nth_error (stack vm) (upvalue_location vm u) = Some (vrel (cell_value s c)))
      /\ (is_closed vm u -> closed_value vm u = vrel (cell_value s c)).
     Theorem closure_refinement :
       forall m B, well_scoped m = true -> Compiler.compile m = Ok B ->
       forall n, exists R, vm_ok vm_n /\ cell_rel R s_n vm_n /\
         (forall cl c, closure_of R cl designates c -> the i-th upvalue address of the VM closure object is R c).
     (it needs a simulation between RefSem.eval and runs of compiled code, i.e. the compiler-correctness
      statement of C01 extended to closures; the theorems below are its VM-side lemmas, the theorems above its
      reference-side lemmas, and the differential check C06Check ties the real compiler + VM to RefSem.) *)
From Coq Require Import List NArith ZArith Bool Arith String Ascii.
Import ListNotations.
From Cao Require Import CardAst RefSem RefScope RefSemProofs C06Proofs C06Wf C06Check.

(* ---- programs for the examples ---- *)
Local Open Scope string_scope.
Local Open Scope list_scope.
Definition s (x : string) : str := map (fun a => N_of_ascii a) (list_ascii_of_string x).
Definition fn (args : list string) (cards : list card) : function := Build_function (map s args) cards.
Definition prog (fns : list (string * function)) : module :=
  Module [] (map (fun nf => (s (fst nf), snd nf)) fns) [].
Definition log1 (c : card) : card := CCallNative n_log1 [c].
Definition logged (r : presult) : option (list tree) :=
  match r with
  | PObs o => match ob_kind o with
              | KOk => Some (flat_map (fun e => snd e) (ob_log o))
              | _ => None
              end
  | _ => None
  end.

(* ------------------------------------------------------------------------------------------ *)
(* the stores only grow                                                                       *)
(* ------------------------------------------------------------------------------------------ *)
Theorem C06_stores_only_grow :
  forall P host limit f t s o e s',
    eval P host limit f t s = ROk o e s' ->
    List.length (st_cells s) <= List.length (st_cells s') /\ exists l, st_clos s' = st_clos s ++ l.
Proof. exact eval_ext. Qed.
Print Assumptions C06_stores_only_grow.

(* ------------------------------------------------------------------------------------------ *)
(* (a) capture by reference                                                                   *)
(* ------------------------------------------------------------------------------------------ *)
Theorem C06_capture_by_reference :
  forall P rec fi e params body s,
  exists cl s',
    eval_card P rec fi e (CClosure params body) s = ROk (ONorm [VClosure (List.length (st_clos s))]) e s' /\
    nth_error (st_clos s') (List.length (st_clos s)) = Some cl /\
    st_cells s' = st_cells s /\
    cl_body cl = body /\ cl_params cl = params /\ cl_fi cl = fi /\
    forall x c, lookup_var e x = Some c ->
      lookup_scopes x (cl_up cl) = Some c /\
      forall args s1 sc s2, ~ In x params -> bind_params params args s1 = (sc, s2) ->
        lookup_var {| e_scopes := [sc]; e_up := cl_up cl |} x = Some c.
Proof. exact capture_by_reference. Qed.
Print Assumptions C06_capture_by_reference.

Theorem C06_write_seen_through_shared_cell :
  forall P rec fi e1 e1' x c v val s s1,
    plain x ->
    rec (TkArgs false fi e1 [v]) s = ROk (ONorm [val]) e1' s1 ->
    lookup_var e1' x = Some c -> c < List.length (st_cells s1) ->
    let s2 := set_cells (upd (st_cells s1) c val) s1 in
    eval_card P rec fi e1 (CSetVar x v) s = ok [] e1' s2 /\
    forall e2 fi2 rec2, lookup_var e2 x = Some c ->
      eval_card P rec2 fi2 e2 (CReadVar x) s2 = ok [val] e2 s2.
Proof. exact write_seen_through_shared_cell. Qed.
Print Assumptions C06_write_seen_through_shared_cell.

(* x := 1; inc := fn(){ x := x + 1 }; get := fn(){ return x };
   inc(); log(get()); x := x * 10; log(get()); inc(); log(x); log(get())
   - the scope, the writer and the reader see one variable: 2, 20, 21, 21 *)
Example C06_ex_siblings_share :
  logged (eval_program 500
    (prog [("main", fn []
       [CSetVar (s "x") (CScalarInt 1);
        CSetVar (s "inc") (CClosure [] [CSetVar (s "x") (CBin BAdd (CReadVar (s "x")) (CScalarInt 1))]);
        CSetVar (s "get") (CClosure [] [CUn UReturn (CReadVar (s "x"))]);
        CDynamicCall (CReadVar (s "inc")) [];
        log1 (CDynamicCall (CReadVar (s "get")) []);
        CSetVar (s "x") (CBin BMul (CReadVar (s "x")) (CScalarInt 10));
        log1 (CDynamicCall (CReadVar (s "get")) []);
        CDynamicCall (CReadVar (s "inc")) [];
        log1 (CReadVar (s "x"));
        log1 (CDynamicCall (CReadVar (s "get")) [])])])
    [n_log1]) = Some [TrInt 2; TrInt 20; TrInt 21; TrInt 21].
Proof. vm_compute. reflexivity. Qed.

(* a closure nested in a closure writes a local of the grandparent FUNCTION f, which was called
   with two arguments and holds another local; a parameter is captured too: 1 + 20 + 300 = 321 *)
Example C06_ex_nested_capture_of_grandparent :
  logged (eval_program 500
    (prog [("main", fn [] [log1 (CCall (s "f") [CScalarInt 300; CScalarInt 20])]);
           ("f", fn ["a"; "b"]
              [CSetVar (s "pad") (CScalarInt 7);
               CSetVar (s "x") (CScalarInt 1);
               CSetVar (s "outer") (CClosure []
                  [CSetVar (s "inner") (CClosure []
                     [CSetVar (s "x") (CBin BAdd (CReadVar (s "x")) (CBin BAdd (CReadVar (s "a")) (CReadVar (s "b"))))]);
                   CDynamicCall (CReadVar (s "inner")) []]);
               CDynamicCall (CReadVar (s "outer")) [];
               CUn UReturn (CReadVar (s "x"))])])
    [n_log1]) = Some [TrInt 321].
Proof. vm_compute. reflexivity. Qed.

(* ------------------------------------------------------------------------------------------ *)
(* (b) every iteration has its own cells                                                      *)
(* ------------------------------------------------------------------------------------------ *)
Theorem C06_iteration_cells_distinct_repeat :
  forall P host limit fi e i n body k s j1 lo1 hi1 j2 lo2 hi2,
    repeat_iter P host limit fi e i n body k s j1 lo1 hi1 ->
    repeat_iter P host limit fi e i n body k s j2 lo2 hi2 ->
    j1 < j2 ->
    lo1 <= hi1 /\ hi1 <= lo2 /\ (i <> None -> lo1 < hi1).
Proof. exact iteration_cells_distinct_repeat. Qed.
Print Assumptions C06_iteration_cells_distinct_repeat.

Theorem C06_iteration_cells_distinct_foreach :
  forall P host limit fi e iv kv vv p body k s j1 lo1 hi1 j2 lo2 hi2,
    foreach_iter P host limit fi e iv kv vv p body k s j1 lo1 hi1 ->
    foreach_iter P host limit fi e iv kv vv p body k s j2 lo2 hi2 ->
    j1 < j2 ->
    lo1 <= hi1 /\ hi1 <= lo2 /\ ((vv <> None \/ kv <> None \/ iv <> None) -> lo1 < hi1).
Proof. exact iteration_cells_distinct_foreach. Qed.
Print Assumptions C06_iteration_cells_distinct_foreach.

(* fs := {}; repeat 3 as i { x := i * 10; fs += fn(){ x := x + 1; return x + i };  leaf() }
   foreach f in fs { log(f()) }; foreach f in fs { log(f()) }
   - three different x (and i): 1, 12, 23, then 2, 13, 24 *)
Example C06_ex_iterations_capture_distinct_variables :
  logged (eval_program 1000
    (prog [("main", fn []
       [CSetVar (s "fs") CCreateTable;
        CRepeat (Some (s "i")) (CScalarInt 3)
          (CComposite (s "c")
             [CSetVar (s "x") (CBin BMul (CReadVar (s "i")) (CScalarInt 10));
              CBin BAppendTable
                (CClosure [] [CSetVar (s "x") (CBin BAdd (CReadVar (s "x")) (CScalarInt 1));
                              CUn UReturn (CBin BAdd (CReadVar (s "x")) (CReadVar (s "i")))])
                (CReadVar (s "fs"));
              CCall (s "leaf") []]);
        CForEach None None (Some (s "f")) (CReadVar (s "fs")) (log1 (CDynamicCall (CReadVar (s "f")) []));
        CForEach None None (Some (s "f")) (CReadVar (s "fs")) (log1 (CDynamicCall (CReadVar (s "f")) []))]);
      ("leaf", fn [] [CUn UReturn (CScalarInt 5)])])
    [n_log1]) = Some [TrInt 1; TrInt 12; TrInt 23; TrInt 2; TrInt 13; TrInt 24].
Proof. vm_compute. reflexivity. Qed.

(* ------------------------------------------------------------------------------------------ *)
(* (c) lifetime                                                                               *)
(* ------------------------------------------------------------------------------------------ *)
(* leaving a scope is not an operation on the store: a return drops the callee's environment and
   passes the store on; the end of an iteration continues in the outer environment with the store
   the body ended with *)
Theorem C06_return_keeps_store :
  forall r o e s, finish_call r = ROk o e s -> e = empty_env /\ exists o' e', r = ROk o' e' s.
Proof. exact finish_call_store. Qed.
Print Assumptions C06_return_keeps_store.

Theorem C06_repeat_scope_exit :
  forall P host limit rec fi e i n k body s0 e1 s1 vs e' s2,
    (limit <? st_steps s0)%N = false ->
    v_cmp (st_heap (bump s0)) (VInt k) n = Some (Some Lt) ->
    declare_opt i (VInt k) (push_scope e) (bump s0) = (e1, s1) ->
    rec (TkCard fi e1 body) s1 = ROk (ONorm vs) e' s2 ->
    F P host limit rec (TkRepeat fi e i n k body) s0 = rec (TkRepeat fi e i n (wrap64 (k + 1)) body) s2.
Proof. exact repeat_scope_exit. Qed.
Print Assumptions C06_repeat_scope_exit.

Theorem C06_foreach_scope_exit :
  forall P host limit rec fi e iv kv vv p k body s0 tb key val e1 s1 e2 s2 e3 s3 vs e' s4,
    (limit <? st_steps s0)%N = false ->
    nth_error (st_heap (bump s0)) p = Some tb -> nth_error tb k = Some (key, val) ->
    declare_opt vv val (push_scope e) (bump s0) = (e1, s1) ->
    declare_opt kv (of_key key) e1 s1 = (e2, s2) ->
    declare_opt iv (VInt (Z.of_nat k)) e2 s2 = (e3, s3) ->
    rec (TkCard fi e3 body) s3 = ROk (ONorm vs) e' s4 ->
    F P host limit rec (TkForEach fi e iv kv vv p k body) s0 = rec (TkForEach fi e iv kv vv p (S k) body) s4.
Proof. exact foreach_scope_exit. Qed.
Print Assumptions C06_foreach_scope_exit.

(* every state the semantics reaches from a well-formed state is well formed: every cell that a
   closure record or the current environment mentions is allocated ([init_state] with the
   environment of main is well formed, so this covers every state of every program run) *)
Theorem C06_reachable_states_well_formed :
  st_ok init_state /\
  forall P host limit f t s o e' s',
    st_ok s -> task_ok s t -> eval P host limit f t s = ROk o e' s' ->
    st_ok s' /\ env_ok (List.length (st_cells s')) e'.
Proof. split; [exact init_state_ok | exact eval_keeps_cells_allocated]. Qed.
Print Assumptions C06_reachable_states_well_formed.

(* and whatever is evaluated afterwards (the rest of the loop, the caller after the return, ...)
   keeps the closure record - it still designates the cell c for x - and keeps the cell allocated *)
Theorem C06_cell_outlives_scope :
  forall P host limit f t s o e' s' id cl x c,
    st_ok s -> task_ok s t ->
    nth_error (st_clos s) id = Some cl -> lookup_scopes x (cl_up cl) = Some c ->
    eval P host limit f t s = ROk o e' s' ->
    c < List.length (st_cells s) /\
    nth_error (st_clos s') id = Some cl /\ c < List.length (st_cells s') /\ st_ok s'.
Proof. exact cell_outlives_scope_wf. Qed.
Print Assumptions C06_cell_outlives_scope.

(* counter(start) returns { inc, get } over its parameter and a local; the frame of counter is gone
   when they are called; two counters do not share: 11, 12, 101, 12 *)
Example C06_ex_cells_outlive_the_frame :
  logged (eval_program 1000
    (prog [("main", fn []
       [CSetVar (s "a") (CCall (s "counter") [CScalarInt 10]);
        CSetVar (s "b") (CCall (s "counter") [CScalarInt 100]);
        log1 (CDynamicCall (CReadVar (s "a.inc")) []);
        log1 (CDynamicCall (CReadVar (s "a.inc")) []);
        log1 (CDynamicCall (CReadVar (s "b.inc")) []);
        log1 (CDynamicCall (CReadVar (s "a.get")) [])]);
      ("counter", fn ["start"]
       [CSetVar (s "o") CCreateTable;
        CSetVar (s "step") (CScalarInt 1);
        CSetVar (s "o.inc") (CClosure [] [CSetVar (s "start") (CBin BAdd (CReadVar (s "start")) (CReadVar (s "step")));
                                           CUn UReturn (CReadVar (s "start"))]);
        CSetVar (s "o.get") (CClosure [] [CUn UReturn (CReadVar (s "start"))]);
        CUn UReturn (CReadVar (s "o"))])])
    [n_log1]) = Some [TrInt 11; TrInt 12; TrInt 101; TrInt 12].
Proof. vm_compute. reflexivity. Qed.

(* ------------------------------------------------------------------------------------------ *)
(* (d) identity                                                                               *)
(* ------------------------------------------------------------------------------------------ *)
Theorem C06_closure_body_identity :
  forall P host limit rec fi e params body s0 f t o e' s args,
    let id := List.length (st_clos s0) in
    let s1 := set_clos (st_clos s0 ++ [{| cl_params := params; cl_body := body;
                                          cl_up := e_scopes e ++ e_up e; cl_fi := fi |}]) s0 in
    eval_card P rec fi e (CClosure params body) s0 = ROk (ONorm [VClosure id]) e s1 /\
    (eval P host limit f t s1 = ROk o e' s ->
     (limit <? st_steps s)%N = false -> List.length params <= List.length args ->
     F P host limit rec (TkCallVal (VClosure id) args) s =
     let '(sc, s2) := bind_params params args (bump s) in
     finish_call (rec (TkSeq fi {| e_scopes := [sc]; e_up := e_scopes e ++ e_up e |} body) s2)).
Proof. exact closure_body_identity. Qed.
Print Assumptions C06_closure_body_identity.

(* two functions with the same text shape in two modules: the closure expressions sit at the same
   card position; each value runs the body of its own expression *)
Example C06_ex_same_position_in_two_modules :
  logged (eval_program 500
    (Module [(s "ma", Module [] [(s "mk", fn [] [CUn UReturn (CClosure [] [log1 (CStringLiteral (s "t2"))])])] [])]
            [(s "main", fn [] [CSetVar (s "f") (CCall (s "mk") []);
                               CSetVar (s "g") (CCall (s "ma.mk") []);
                               CDynamicCall (CReadVar (s "g")) [];
                               CDynamicCall (CReadVar (s "f")) [];
                               CDynamicCall (CReadVar (s "g")) []]);
             (s "mk", fn [] [CUn UReturn (CClosure [] [log1 (CStringLiteral (s "t1"))])])]
            [])
    [n_log1]) = Some [TrStr (s "t2"); TrStr (s "t1"); TrStr (s "t2")].
Proof. vm_compute. reflexivity. Qed.

(* the identity oracle of the differential check (C06Check.identity_ok, independent of RefSem): the
   tag entry after a site marker must be the expected one *)
Example C06_ex_identity_oracle :
  let expect := [(s "w1", s "t1"); (s "w2", s "t2")] in
  C06Check.identity_ok expect [s "w1"; s "t1"; s "t7"; s "w2"; s "t2"] = Some true /\
  C06Check.identity_ok expect [s "w1"; s "t1"; s "w2"; s "t1"] = Some false /\      (* the other body ran *)
  C06Check.identity_ok expect [s "w1"; s "t1"; s "w2"] = Some false /\              (* no body ran *)
  C06Check.identity_ok expect [s "w3"; s "t1"] = None.                              (* unknown site *)
Proof. vm_compute. repeat split; reflexivity. Qed.

(* all example programs are in the class the differential check covers *)
Example C06_examples_well_scoped :
  well_scoped
    (prog [("main", fn []
       [CSetVar (s "fs") CCreateTable;
        CRepeat (Some (s "i")) (CScalarInt 3)
          (CComposite (s "c")
             [CSetVar (s "x") (CBin BMul (CReadVar (s "i")) (CScalarInt 10));
              CBin BAppendTable
                (CClosure [] [CSetVar (s "x") (CBin BAdd (CReadVar (s "x")) (CScalarInt 1));
                              CUn UReturn (CBin BAdd (CReadVar (s "x")) (CReadVar (s "i")))])
                (CReadVar (s "fs"));
              CCall (s "leaf") []]);
        CForEach None None (Some (s "f")) (CReadVar (s "fs")) (log1 (CDynamicCall (CReadVar (s "f")) []))]);
      ("leaf", fn [] [CUn UReturn (CScalarInt 5)])]) = true.
Proof. vm_compute. reflexivity. Qed.

(* ========================================================================================== *)
(* The VM half: the open-upvalue list of the VM model                                         *)
(* ========================================================================================== *)
From Coq Require Import Sorted.
From Cao Require Import Stacks Vm VmUpvalueProofs VmUpvalueStep VmUpvalueSem VmUpvalueFrame VmUpvalueWitness.

(* [vm_ok s] (VmUpvalueProofs) spelled out.  [open_list s l]: following u_next from st_open visits exactly the
   nodes l = [(address, slot); ...] and ends at null. *)
Theorem C06_vm_ok_meaning : forall s : Vm.state, vm_ok s ->
  exists l : list (N * nat),
    open_list s l /\
    StronglySorted (fun x y => y < x) (map snd l) /\           (* strictly descending slots *)
    NoDup (map fst l) /\
    (forall a loc, In (a, loc) l ->                            (* every node is an OPEN upvalue object of its slot *)
       exists v nx, hget (Vm.st_heap s) a = Some (OUp (mkUp (Some loc) v nx))) /\
    Forall (fun x => snd x < List.length (vdata (st_stack s))) l /\   (* inside the stack array *)
    (forall a u loc, hget (Vm.st_heap s) a = Some (OUp u) -> u_loc u = Some loc -> In (a, loc) l) /\
    (forall ca h ar ups ua u loc,                              (* in particular the open upvalues of every closure *)
       hget (Vm.st_heap s) ca = Some (OClo h ar ups) -> In ua ups ->
       hget (Vm.st_heap s) ua = Some (OUp u) -> u_loc u = Some loc -> In (ua, loc) l) /\
    vcount (st_stack s) < List.length (vdata (st_stack s)) /\
    Forall (fun f => N.to_nat (fr_off f) < List.length (vdata (st_stack s))) (st_calls s).
Proof. exact vm_ok_meaning. Qed.
Print Assumptions C06_vm_ok_meaning.

Theorem C06_fresh_state_vm_ok : vm_ok fresh_state.
Proof. exact fresh_state_vm_ok. Qed.
Print Assumptions C06_fresh_state_vm_ok.

(* one instruction - any opcode, any native of the menu, re-entry through run_function included - keeps vm_ok;
   [sres_ok r]: the state of r is vm_ok unless r is an abort (panic / UB / crash / divergence of the model) *)
Theorem C06_open_upvalues_preserved :
  forall (F : fops) (bld : build) (P : program) (reenter : N -> Vm.state -> rres),
    (forall ip s, vm_ok s -> rres_ok (reenter ip s)) ->
    forall ip s, vm_ok s -> sres_ok (step F bld P reenter ip s).
Proof. exact step_vm_ok. Qed.
Print Assumptions C06_open_upvalues_preserved.

Theorem C06_open_upvalues_preserved_next :
  forall (F : fops) (bld : build) (P : program) (reenter : N -> Vm.state -> rres),
    (forall ip s, vm_ok s -> rres_ok (reenter ip s)) ->
    forall ip s ip' s', vm_ok s -> step F bld P reenter ip s = SNext ip' s' -> vm_ok s'.
Proof.
  intros F bld P re Hre ip s ip' s' Hs E. pose proof (step_vm_ok F bld P re Hre ip s Hs) as H.
  rewrite E in H. exact H.
Qed.
Print Assumptions C06_open_upvalues_preserved_next.

(* a whole run (nested runs of Vm::run_function included): whatever state it ends in, normally or with an error *)
Theorem C06_open_upvalues_preserved_run :
  forall F bld budget P s o s',
    vm_ok s -> run F bld budget P s = (o, s') -> (forall a, o <> OAbort a) -> vm_ok s'.
Proof. exact run_vm_ok. Qed.
Print Assumptions C06_open_upvalues_preserved_run.

(* "every open slot is below the stack height" is not an invariant: hand-written bytecode
   ScalarNil; Closure; RegisterUpvalue 0 local; Pop; Exit  ends normally with an empty value stack and an open
   upvalue (object 1) that still points at slot 0 *)
Theorem C06_open_slot_may_be_dead : forall F bld,
  let r := run F bld 100 dead_slot_program fresh_state in
  fst r = OOk /\ vm_ok (snd r) /\ open_list (snd r) [(1%N, 0)] /\ scount (snd r) = 0 /\ ~ open_live (snd r).
Proof. exact open_slot_may_be_dead. Qed.
Print Assumptions C06_open_slot_may_be_dead.

(* ------------------------------------------------------------------------------------------ *)
(* (a') RegisterUpvalue index, is_local = true                                                *)
(* ------------------------------------------------------------------------------------------ *)
Theorem C06_vm_register_shares :
  forall F bld P reenter ip0 s index is_local s1 ca ch car cups off l loc,
    opcode_at P ip0 = 45%N ->
    read_le (p_code P) (ip0 + 1) 1 = Some index -> read_le (p_code P) (ip0 + 1 + 1) 1 = Some is_local ->
    is_local <> 0%N ->
    spop s = (s1, VObj ca) -> hget (Vm.st_heap s1) ca = Some (OClo ch car cups) ->   (* the closure on top *)
    top_offset s1 = Some off -> loc = off + N.to_nat index -> loc < scount s1 ->     (* the captured local *)
    vm_ok s -> open_list s l ->
    (* the slot has an open upvalue [a]: the closure gets that object; nothing else changes *)
    (forall a, In (a, loc) l ->
       step F bld P reenter ip0 s =
       SNext (ip0 + 1 + 2) (set_heap s1 (hset (Vm.st_heap s1) ca (OClo ch car (cups ++ [a]))))) /\
    (* it has none: a new open upvalue object is allocated and inserted in order *)
    (~ In loc (slots l) ->
       let ua := N.of_nat (List.length (Vm.st_heap s1)) in
       exists s', step F bld P reenter ip0 s = SNext (ip0 + 1 + 2) s' /\ vm_ok s' /\
         open_list s' (ins_desc ua loc l) /\
         hget (Vm.st_heap s') ca = Some (OClo ch car (cups ++ [ua])) /\
         (exists nx, hget (Vm.st_heap s') ua = Some (OUp (mkUp (Some loc) VNil nx))) /\
         st_stack s' = st_stack s1 /\ st_calls s' = st_calls s1 /\ st_globals s' = st_globals s1 /\
         (forall x, oview (hget (Vm.st_heap s1) x) = None -> x <> ua -> x <> ca ->
                    hget (Vm.st_heap s') x = hget (Vm.st_heap s1) x) /\
         heap_mono (Vm.st_heap s1) (Vm.st_heap s')).
Proof. exact register_shares. Qed.
Print Assumptions C06_vm_register_shares.

(* no other instruction touches the list: every instruction except CallNative (4), Return (22), RegisterUpvalue (45),
   CloseUpvalue (46) - and CallFunction (11) when the popped callee is a native function value - leaves the head of
   the list and the (slot, next) view of every upvalue object unchanged ([same_upvalues s s']: st_open s' = st_open s
   and every object is an open upvalue of slot k with successor n in s' iff it is in s); so the open list is the same
   list, open upvalues stay open at their slot, closed ones stay closed, none is created *)
Theorem C06_vm_quiet_instructions :
  forall F bld P reenter ip0 s,
    ~ In (nth (N.to_nat ip0) (p_code P) 255%N) [4; 22; 45; 46]%N ->
    (nth (N.to_nat ip0) (p_code P) 255%N = 11%N -> not_native_callee s) ->
    vm_ok s ->
    match step F bld P reenter ip0 s with
    | SNext _ s' | SExit s' | SErr _ _ s' =>
        vm_ok s' /\ same_upvalues s s' /\ (forall l, open_list s l -> open_list s' l)
    | SStop _ _ => True
    end.
Proof.
  intros F bld P re ip0 s Hq H11 Hs. pose proof (step_quiet_same_upvalues F bld P re ip0 s Hq H11 Hs) as H.
  destruct (step F bld P re ip0 s); try exact H; destruct H as (A & B & _); (split; [exact A|]); (split; [exact B|]);
    intros l Hl; eapply same_upvalues_open_list; eauto.
Qed.
Print Assumptions C06_vm_quiet_instructions.

(* and, SetUpvalue (43) excluded too, the upvalue objects are the very same objects, values included: the value of a
   closed upvalue is changed by SetUpvalue through it (C06_vm_closed_upvalue_is_private) and by nothing else that is
   not a call of a native or one of the three list instructions *)
Theorem C06_vm_quiet_instructions_same_objects :
  forall F bld P reenter ip0 s,
    ~ In (nth (N.to_nat ip0) (p_code P) 255%N) [4; 22; 43; 45; 46]%N ->
    (nth (N.to_nat ip0) (p_code P) 255%N = 11%N -> not_native_callee s) ->
    vm_ok s ->
    match step F bld P reenter ip0 s with
    | SNext _ s' | SExit s' | SErr _ _ s' =>
        vm_ok s' /\ forall a u, hget (Vm.st_heap s') a = Some (OUp u) <-> hget (Vm.st_heap s) a = Some (OUp u)
    | SStop _ _ => True
    end.
Proof. exact step_quiet_same_objects. Qed.
Print Assumptions C06_vm_quiet_instructions_same_objects.

(* hence two closures that capture the same live local hold the same upvalue address: [ua] is the open upvalue of
   slot [loc] in s' (for instance s' is the state after the RegisterUpvalue that created it, by
   C06_vm_register_shares: ins_desc ua loc l contains (ua, loc)); t is reached from s' by instructions that leave
   the upvalues alone (C06_vm_quiet_instructions; same_upvalues is transitive); a RegisterUpvalue in t for that slot
   hands out [ua] again *)
Theorem C06_vm_second_capture_shares :
  forall F bld P reenter s' l' ua loc t ip0 index is_local t1 cb ch car cups off,
    open_list s' l' -> In (ua, loc) l' ->
    vm_ok t -> same_upvalues s' t ->
    opcode_at P ip0 = 45%N ->
    read_le (p_code P) (ip0 + 1) 1 = Some index -> read_le (p_code P) (ip0 + 1 + 1) 1 = Some is_local ->
    is_local <> 0%N ->
    spop t = (t1, VObj cb) -> hget (Vm.st_heap t1) cb = Some (OClo ch car cups) ->
    top_offset t1 = Some off -> loc = off + N.to_nat index -> loc < scount t1 ->
    step F bld P reenter ip0 t =
    SNext (ip0 + 1 + 2) (set_heap t1 (hset (Vm.st_heap t1) cb (OClo ch car (cups ++ [ua])))).
Proof. exact second_capture_shares. Qed.
Print Assumptions C06_vm_second_capture_shares.

(* ------------------------------------------------------------------------------------------ *)
(* (b') an open upvalue is the stack slot                                                     *)
(* ------------------------------------------------------------------------------------------ *)
(* [upvalue_of s idx ua u]: upvalue idx of the closure of the running frame is the object ua = OUp u.
   sraw_get / sraw_set: access to a cell of the stack array by its absolute index. *)
Theorem C06_vm_read_write_open :
  forall F bld P reenter,
    (* ReadUpvalue idx through an open upvalue pushes the content of the slot *)
    (forall ip0 s idx ua u loc,
       opcode_at P ip0 = 44%N -> op_u32 P (ip0 + 1) = Some idx -> upvalue_of s idx ua u -> u_loc u = Some loc ->
       step F bld P reenter ip0 s = push_next (ip0 + 1 + 4) s (sraw_get s loc)) /\
    (* SetUpvalue idx through an open upvalue overwrites the slot and nothing else *)
    (forall ip0 s s1 wv idx ua u loc,
       opcode_at P ip0 = 43%N -> op_u32 P (ip0 + 1) = Some idx -> spop s = (s1, wv) -> upvalue_of s1 idx ua u ->
       u_loc u = Some loc ->
       step F bld P reenter ip0 s = SNext (ip0 + 1 + 4) (sraw_set s1 loc wv)) /\
    (* the enclosing function's ReadLocalVar / SetLocalVar of a live local use the same cell *)
    (forall ip0 s hd off,
       opcode_at P ip0 = 20%N -> op_u32 P (ip0 + 1) = Some hd -> top_offset s = Some off ->
       off + N.to_nat hd < scount s ->
       step F bld P reenter ip0 s = push_next (ip0 + 1 + 4) s (sraw_get s (off + N.to_nat hd))) /\
    (forall ip0 s s1 v hd off,
       opcode_at P ip0 = 19%N -> op_u32 P (ip0 + 1) = Some hd -> top_offset s = Some off ->
       spop_w_offset s off = (s1, v) -> off + N.to_nat hd < scount s1 ->
       step F bld P reenter ip0 s = SNext (ip0 + 1 + 4) (sraw_set s1 (off + N.to_nat hd) v)) /\
    (* and a write is seen by the next read of that cell, by whichever instruction *)
    (forall s i v, i < List.length (vdata (st_stack s)) -> sraw_get (sraw_set s i v) i = v) /\
    (forall s i j v, i <> j -> sraw_get (sraw_set s i v) j = sraw_get s j) /\
    (forall s i v, Vm.st_heap (sraw_set s i v) = Vm.st_heap s /\ st_open (sraw_set s i v) = st_open s).
Proof.
  intros F bld P re. split.
  { intros ip0 s idx ua u loc Hop Ei Hu Hl. rewrite (read_upvalue F bld P re ip0 s idx ua u Hop Ei Hu), Hl. reflexivity. }
  split.
  { intros ip0 s s1 wv idx ua u loc Hop Ei Ep Hu Hl.
    rewrite (write_upvalue F bld P re ip0 s s1 wv idx ua u Hop Ei Ep Hu), Hl. reflexivity. }
  split; [apply read_local|]. split; [apply write_local|].
  split; [apply sraw_set_get|]. split; [apply sraw_set_get_other|]. intros; split; reflexivity.
Qed.
Print Assumptions C06_vm_read_write_open.

(* ------------------------------------------------------------------------------------------ *)
(* (c') closing                                                                               *)
(* ------------------------------------------------------------------------------------------ *)
(* kept_by top l = the nodes of l with slot < top.  same_but_heap_open: value stack (nothing is popped), frames,
   globals, log and counters are unchanged, the heap has the same size. *)
Theorem C06_vm_close_keeps_value :
  forall F bld P reenter ip0 s idx off l,
    opcode_at P ip0 = 46%N -> op_u32 P (ip0 + 1) = Some idx -> top_offset s = Some off ->
    vm_ok s -> open_list s l ->
    let top := off + N.to_nat idx in
    exists s', step F bld P reenter ip0 s = SNext (ip0 + 1 + 4) s' /\ vm_ok s' /\
      open_list s' (kept_by top l) /\                       (* exactly the nodes below [top] stay open ... *)
      Forall (fun x => snd x < top) (kept_by top l) /\
      same_but_heap_open s s' /\
      (forall a loc, In (a, loc) l -> top <= loc ->         (* ... the others keep the value their slot has now *)
         exists nx, hget (Vm.st_heap s') a = Some (OUp (mkUp None (sraw_get s loc) nx))) /\
      (* the open upvalues below [top] and every other object are unchanged *)
      (forall x, (forall loc, In (x, loc) l -> loc < top) -> hget (Vm.st_heap s') x = hget (Vm.st_heap s) x).
Proof.
  intros F bld P re ip0 s idx off l Hop Ei Eo Hs Hl top.
  destruct (close_upvalue_spec F bld P re ip0 s idx off l Hop Ei Eo Hs Hl) as (s' & A & B & C & D & E & G).
  exists s'. repeat (split; [assumption|]). split; [apply kept_by_below|]. repeat (split; [assumption|]). exact G.
Qed.
Print Assumptions C06_vm_close_keeps_value.

(* Return: the frame is dropped, the upvalues of the frame's slots (slot >= its offset) are closed as above, then the
   stack is cut at the offset and the return value pushed *)
Theorem C06_vm_return_closes :
  forall F bld P reenter ip0 s fr prev rest l,
    opcode_at P ip0 = 22%N -> st_calls s = fr :: prev :: rest ->
    vm_ok s -> open_list s l ->
    let off := N.to_nat (fr_off fr) in
    exists s2, close_upvalues_from off (set_calls s (prev :: rest)) = ClOk s2 /\
      step F bld P reenter ip0 s =
        push_next (fr_dst prev) (fst (sclear_until s2 off)) (snd (sclear_until s2 off)) /\
      vm_ok s2 /\ open_list s2 (kept_by off l) /\ Forall (fun x => snd x < off) (kept_by off l) /\
      st_stack s2 = st_stack s /\ st_calls s2 = prev :: rest /\
      (forall a loc, In (a, loc) l -> off <= loc ->
         exists nx, hget (Vm.st_heap s2) a = Some (OUp (mkUp None (sraw_get s loc) nx))) /\
      (forall x, (forall loc, In (x, loc) l -> loc < off) -> hget (Vm.st_heap s2) x = hget (Vm.st_heap s) x).
Proof.
  intros F bld P re ip0 s fr prev rest l Hop Ec Hs Hl off.
  destruct (return_closes F bld P re ip0 s fr prev rest l Hop Ec Hs Hl) as (s2 & A & B & C & D & E & G & H & I).
  exists s2. repeat (split; [assumption|]). split; [apply kept_by_below|]. repeat (split; [assumption|]). exact I.
Qed.
Print Assumptions C06_vm_return_closes.

(* a closed upvalue is a private cell of the heap: reads return its own value, writes replace it; the value stack is
   not involved, and no write to the value stack (sraw_set, i.e. SetLocalVar / SetUpvalue through an open upvalue /
   a push into the reused slot) changes the heap *)
Theorem C06_vm_closed_upvalue_is_private :
  forall F bld P reenter,
    (forall ip0 s idx ua u,
       opcode_at P ip0 = 44%N -> op_u32 P (ip0 + 1) = Some idx -> upvalue_of s idx ua u -> u_loc u = None ->
       step F bld P reenter ip0 s = push_next (ip0 + 1 + 4) s (u_val u)) /\
    (forall ip0 s s1 wv idx ua u,
       opcode_at P ip0 = 43%N -> op_u32 P (ip0 + 1) = Some idx -> spop s = (s1, wv) -> upvalue_of s1 idx ua u ->
       u_loc u = None ->
       step F bld P reenter ip0 s =
       SNext (ip0 + 1 + 4) (set_heap s1 (hset (Vm.st_heap s1) ua (OUp (mkUp None wv (u_next u)))))) /\
    (forall s i v, Vm.st_heap (sraw_set s i v) = Vm.st_heap s) /\
    (forall s v s', spush s v = Some s' -> Vm.st_heap s' = Vm.st_heap s).
Proof.
  intros F bld P re. split.
  { intros ip0 s idx ua u Hop Ei Hu Hl. rewrite (read_upvalue F bld P re ip0 s idx ua u Hop Ei Hu), Hl. reflexivity. }
  split.
  { intros ip0 s s1 wv idx ua u Hop Ei Ep Hu Hl.
    rewrite (write_upvalue F bld P re ip0 s s1 wv idx ua u Hop Ei Ep Hu), Hl. reflexivity. }
  split; [reflexivity|]. apply spush_heap.
Qed.
Print Assumptions C06_vm_closed_upvalue_is_private.

(* ------------------------------------------------------------------------------------------ *)
(* (d') the body of a closure value                                                           *)
(* ------------------------------------------------------------------------------------------ *)
Theorem C06_vm_closure_body :
  forall F bld P reenter,
    (* Closure h arity: a new object that stores the label handle h (and no upvalues yet) *)
    (forall ip0 s h ar,
       opcode_at P ip0 = 42%N -> op_u32 P (ip0 + 1) = Some h -> op_u32 P (ip0 + 1 + 4) = Some ar ->
       step F bld P reenter ip0 s =
       push_next (ip0 + 1 + 8) (set_heap s (Vm.st_heap s ++ [OClo h ar []]))
                 (VObj (N.of_nat (List.length (Vm.st_heap s))))) /\
    (* CallFunction (the DynamicCall card) on a closure value: jump to the position of the label stored in the
       object; the new frame runs with this object as its closure (its upvalues are the ones Read/SetUpvalue use) *)
    (forall ip0 s s1 a h ar ups top rest pos,
       opcode_at P ip0 = 11%N -> spop s = (s1, VObj a) -> hget (Vm.st_heap s1) a = Some (OClo h ar ups) ->
       st_calls s1 = top :: rest -> (ar <= N.of_nat (scount s1))%N ->
       S (List.length (st_calls s1)) < call_stack_size ->
       assoc h (p_labels P) = Some pos ->
       step F bld P reenter ip0 s =
       SNext pos (set_calls s1 (mkFrame ip0 (ip0 + 1) (N.of_nat (scount s1) - ar) (Some a)
                                :: mkFrame (fr_src top) (ip0 + 1) (fr_off top) (fr_clo top) :: rest))).
Proof. intros F bld P re. split; [apply closure_creation|apply call_closure_body]. Qed.
Print Assumptions C06_vm_closure_body.

(* ------------------------------------------------------------------------------------------ *)
(* identity and lifetime of the objects, for EVERY instruction and for whole runs             *)
(* ------------------------------------------------------------------------------------------ *)
(* [heap_mono h h']: every object of h is in h' at the same address, as a later state of itself *)
Theorem C06_vm_heap_mono_meaning : forall h h', heap_mono h h' ->
  (* a closure keeps the label of its body and its arity for ever; its upvalue list only grows (RegisterUpvalue) *)
  (forall a lbl ar ups, hget h a = Some (OClo lbl ar ups) ->
     exists more, hget h' a = Some (OClo lbl ar (ups ++ more))) /\
  (* a closed upvalue stays a closed upvalue *)
  (forall a u, hget h a = Some (OUp u) -> u_loc u = None ->
     exists u', hget h' a = Some (OUp u') /\ u_loc u' = None) /\
  (* an upvalue that is open later was open at the same slot before: it never moves, it is never re-opened *)
  (forall a u u' l, hget h a = Some (OUp u) -> hget h' a = Some (OUp u') -> u_loc u' = Some l -> u_loc u = Some l) /\
  (forall a lbl ar, hget h a = Some (OFun lbl ar) -> hget h' a = Some (OFun lbl ar)).
Proof. exact heap_mono_meaning. Qed.
Print Assumptions C06_vm_heap_mono_meaning.

(* [stable_from s0 x] = vm_ok x /\ heap_mono (heap of s0) (heap of x); one instruction - any opcode, any native,
   re-entry included - keeps it, for every start state s0 *)
Theorem C06_vm_objects_stable :
  forall (F : fops) (bld : build) (P : program) (s0 : Vm.state) (reenter : N -> Vm.state -> rres),
    (forall ip s, stable_from s0 s -> rres_inv (stable_from s0) (reenter ip s)) ->
    forall ip s, stable_from s0 s -> sres_inv (stable_from s0) (step F bld P reenter ip s).
Proof. exact step_stable. Qed.
Print Assumptions C06_vm_objects_stable.

Theorem C06_vm_objects_stable_run :
  forall F bld budget P s o s',
    vm_ok s -> run F bld budget P s = (o, s') -> (forall a, o <> OAbort a) ->
    vm_ok s' /\ heap_mono (Vm.st_heap s) (Vm.st_heap s').
Proof. exact run_stable. Qed.
Print Assumptions C06_vm_objects_stable_run.

(* heap closedness: every upvalue address stored in a closure object is an upvalue object
   ([closed_ok x] = vm_ok x /\ clo_ok (heap of x)) - for every instruction, every native, re-entry, and whole runs
   from the fresh state; so ReadUpvalue / SetUpvalue with an index inside the closure's list never meet a dangling
   or wrongly typed address (the [upvalue_of] hypothesis of the access theorems above reduces to: the running
   frame has a closure object and the index is in range) *)
Theorem C06_vm_closures_closed :
  closed_ok fresh_state /\
  (forall (F : fops) (bld : build) (P : program) (reenter : N -> Vm.state -> rres),
     (forall ip s, closed_ok s -> rres_inv closed_ok (reenter ip s)) ->
     forall ip s, closed_ok s -> sres_inv closed_ok (step F bld P reenter ip s)) /\
  (forall F bld budget P s o s',
     closed_ok s -> run F bld budget P s = (o, s') -> (forall a, o <> OAbort a) -> closed_ok s') /\
  (forall s, closed_ok s ->
     forall ca lbl ar ups idx ua, hget (Vm.st_heap s) ca = Some (OClo lbl ar ups) -> nth_error ups idx = Some ua ->
       exists u, hget (Vm.st_heap s) ua = Some (OUp u)).
Proof.
  split; [exact fresh_state_closed|]. split; [exact step_closed|]. split; [exact run_closed|].
  intros s (_ & Hc) ca lbl ar ups idx ua Hca Hn. eapply Hc; [exact Hca|eapply nth_error_In; exact Hn].
Qed.
Print Assumptions C06_vm_closures_closed.

(* ------------------------------------------------------------------------------------------ *)
(* examples: the crate's compile output for the witnesses of findings/C06, run on the VM model *)
(* ------------------------------------------------------------------------------------------ *)
(* the programs use integers only: a float instance that is never consulted *)
Definition nofloat : fops :=
  mkFops (fun _ _ => 0%N) (fun _ _ => 0%N) (fun _ _ => 0%N) (fun _ _ => 0%N) (fun _ _ => None)
         (fun _ => 0%N) (fun _ => 0%Z).
(* a run with budget n ends in ETimeout after n - 1 instructions: the states below are states of the one run *)
Definition vm_run (P : program) (budget : nat) : outcome * Vm.state := run nofloat Debug budget P fresh_state.

(* the model logs what the real VM logged (VmUpvalueWitness: s*_program_log are the observed logs) *)
Example C06_ex_vm_witnesses_log_as_the_real_vm :
  (fst (vm_run s1_program 2000) = OOk /\ st_log (snd (vm_run s1_program 2000)) = s1_program_log) /\
  (fst (vm_run s2_program 2000) = OOk /\ st_log (snd (vm_run s2_program 2000)) = s2_program_log) /\
  (fst (vm_run s3_program 2000) = OOk /\ st_log (snd (vm_run s3_program 2000)) = s3_program_log).
Proof. vm_compute. repeat split; reflexivity. Qed.

(* S-1  mk(p){ tf := {}; repeat 2 as i { leaf(); append(fn(){ p := p*10 + i; return p }, tf) }; ... }
   first iteration, the closure (object 3) is built: its upvalues are object 4 -> slot 0 (p = 6) and
   object 5 -> slot 4 (i = 0), the list is descending; slot 5 above the captured i holds the value leaf() left *)
Example C06_ex_vm_S1_first_iteration :
  let st := snd (vm_run s1_program 27) in
  open_list st [(5%N, 4); (4%N, 0)] /\ closures_of (Vm.st_heap st) = [(3%N, [4%N; 5%N])] /\
  sraw_get st 0 = VInt 6 /\ sraw_get st 4 = VInt 0 /\ sraw_get st 5 = VInt 5.
Proof. split; [apply chain_of_sound with (fuel := 5)|]; vm_compute; repeat split; reflexivity. Qed.

(* second iteration: the new closure (object 7) SHARES object 4 for p - RegisterUpvalue found the open upvalue
   of slot 0 - and gets a NEW object 8 for this iteration's i in the same slot 4: the upvalue of the first
   iteration (object 5) was closed by CloseUpvalue at the end of the body and keeps i = 0 *)
Example C06_ex_vm_S1_second_iteration :
  let st := snd (vm_run s1_program 51) in
  open_list st [(8%N, 4); (4%N, 0)] /\
  closures_of (Vm.st_heap st) = [(3%N, [4%N; 5%N]); (7%N, [4%N; 8%N])] /\
  hget (Vm.st_heap st) 5 = Some (OUp (mkUp None (VInt 0) (Some 4%N))) /\
  sraw_get st 0 = VInt 6 /\ sraw_get st 4 = VInt 1.
Proof. split; [apply chain_of_sound with (fuel := 5)|]; vm_compute; repeat split; reflexivity. Qed.

(* the end of the run: mk has returned, nothing is open; the three closures (two iterations + the returned getter,
   object 13) still share object 4, now closed, with the last value of p (6 -> 60 -> 601), and the two iterations
   keep their own i = 0 and i = 1 *)
Example C06_ex_vm_S1_after_the_frame :
  let st := snd (vm_run s1_program 2000) in
  st_open st = None /\
  closures_of (Vm.st_heap st) = [(3%N, [4%N; 5%N]); (7%N, [4%N; 8%N]); (13%N, [4%N])] /\
  upvalues_of (Vm.st_heap st) =
    [(4%N, mkUp None (VInt 601) None); (5%N, mkUp None (VInt 0) (Some 4%N)); (8%N, mkUp None (VInt 1) (Some 4%N))].
Proof. vm_compute. repeat split; reflexivity. Qed.

(* S-3  show(p, q){ foreach (v = p) in tb { f := fn(){ log1(p); return q }; ... } }: the closure captures the loop
   variable p (slot 9) first and the parameter q (slot 2) second: the second upvalue is linked BEHIND the first *)
Example C06_ex_vm_S3_inserted_in_order :
  open_list (snd (vm_run s3_program 25)) [(3%N, 9); (4%N, 2)].
Proof. apply chain_of_sound with (fuel := 5). vm_compute. reflexivity. Qed.

(* S-2  foreach (k) in tb { foreach (v = k) in ta { log1(std.map(fn(){ return k }, ta)) } }: while std.map runs the
   closure (object 3) its one upvalue (object 4) is open at slot 13, the VALUE variable k = 2 of the inner loop
   (the outer loop's variables are in slots 2-8); at the end of the run it is closed
   with that value *)
Example C06_ex_vm_S2_captures_the_inner_variable :
  let st := snd (vm_run s2_program 40) in
  open_list st [(4%N, 13)] /\ closures_of (Vm.st_heap st) = [(3%N, [4%N])] /\ sraw_get st 13 = VInt 2 /\
  upvalues_of (Vm.st_heap (snd (vm_run s2_program 2000))) = [(4%N, mkUp None (VInt 2) None)].
Proof. split; [apply chain_of_sound with (fuel := 5)|]; vm_compute; repeat split; reflexivity. Qed.

(* ========================================================================================== *)
(* The refinement between the two halves: the representation relation and its preservation    *)
(* ========================================================================================== *)
(* C06SimDefs: a reference cell (RefSem.st_cells) lives in a stack slot ([LSlot i]) while the scope that declared the
   variable is alive - an open upvalue object that points at slot i denotes the same cell - and in a closed upvalue
   object ([LUp a]) after CloseUpvalue / Return.  [rep K R top cells vm]: every cell that R maps exists in the
   reference store and its place in vm holds the VM image of its value ([vrel]: nil, integers, closure values
   through K), no two cells share a place, slot cells are below [top] <= height of the value stack.
   [up_cell R vm ua c]: the upvalue object ua denotes the cell c (R c is the slot it points at, or the object
   itself once closed).  The theorems say, for EVERY VM state that represents a reference store: the instruction
   does to the VM what the reference semantics does to the cell the variable designates, and the relation holds
   afterwards - the one-step lemmas of closure_sim for variable access, capture and scope end.  (Proofs:
   C06SimVm.v, C06SimVm2.v, C06SimVm3.v, on top of the C06_vm_* theorems above.)
   NOT proved (still open): the induction over the reference evaluation that chains these steps along the code the
   compiler emits for a fragment of programs (C06_closure_sim_f1: needs the compile shape of Closure cards - Goto
   over the body, Closure, CopyLast / RegisterUpvalue per captured name, CloseUpvalue for captured locals in
   scope_end - and the frame discipline of DynamicCall); C06_ex_closure_sim_witness below is one program on which
   compiler + VM and the reference semantics are compared end to end by computation. *)
From Cao Require Import C06SimDefs C06SimVm C06SimVm2 C06SimVm3 C06SimWitness C06SimWitnessProofs.
From Coq Require Import Lia.

(* ReadUpvalue: the closure reads the captured variable - the value of the cell the upvalue denotes is pushed,
   through an open upvalue (the slot of the declaring scope) as through a closed one (the object's own value) *)
Theorem C06_rep_read_upvalue :
  forall (F : fops) (bld : build) (P : program) (reenter : N -> Vm.state -> rres) (K : clomap) (R : cellmap)
         ip0 s idx ua u top cells c,
    opcode_at P ip0 = 44%N -> op_u32 P (ip0 + 1) = Some idx -> upvalue_of s idx ua u ->
    rep K R top cells s -> up_cell R s ua c -> S (scount s) < cap s ->
    exists v w s', nth_error cells c = Some v /\ vrel K v w /\
      step F bld P reenter ip0 s = SNext (ip0 + 1 + 4) s' /\ spush s w = Some s' /\ rep K R top cells s'.
Proof. exact rep_read_upvalue. Qed.
Print Assumptions C06_rep_read_upvalue.

(* SetUpvalue: exactly the cell the upvalue denotes is assigned (RefSem.upd on the cell store): in the slot while
   open - where the declaring function and every sibling closure read it -, in the object once closed *)
Theorem C06_rep_write_upvalue :
  forall (F : fops) (bld : build) (P : program) (reenter : N -> Vm.state -> rres) (K : clomap) (R : cellmap)
         ip0 s s1 wv idx ua u top cells c v,
    opcode_at P ip0 = 43%N -> op_u32 P (ip0 + 1) = Some idx -> spop s = (s1, wv) -> upvalue_of s1 idx ua u ->
    rep K R top cells s -> top < scount s -> scount s < cap s -> up_cell R s ua c -> vrel K v wv ->
    exists s', step F bld P reenter ip0 s = SNext (ip0 + 1 + 4) s' /\ scount s' = scount s - 1 /\
      rep K R top (RefSem.upd cells c v) s'.
Proof. exact rep_write_upvalue. Qed.
Print Assumptions C06_rep_write_upvalue.

(* ReadLocalVar / SetLocalVar of the declaring function, scope alive: the same cell, in the slot *)
Theorem C06_rep_read_local :
  forall (F : fops) (bld : build) (P : program) (reenter : N -> Vm.state -> rres) (K : clomap) (R : cellmap)
         ip0 s hd off top cells c,
    opcode_at P ip0 = 20%N -> op_u32 P (ip0 + 1) = Some hd -> top_offset s = Some off ->
    rep K R top cells s -> R c = Some (LSlot (off + N.to_nat hd)) -> S (scount s) < cap s ->
    exists v w s', nth_error cells c = Some v /\ vrel K v w /\
      step F bld P reenter ip0 s = SNext (ip0 + 1 + 4) s' /\ spush s w = Some s' /\ rep K R top cells s'.
Proof. exact rep_read_local. Qed.
Print Assumptions C06_rep_read_local.

Theorem C06_rep_write_local :
  forall (F : fops) (bld : build) (P : program) (reenter : N -> Vm.state -> rres) (K : clomap) (R : cellmap)
         ip0 s hd off top cells c v,
    opcode_at P ip0 = 19%N -> op_u32 P (ip0 + 1) = Some hd -> top_offset s = Some off ->
    rep K R top cells s -> top < scount s -> scount s < cap s ->
    R c = Some (LSlot (off + N.to_nat hd)) -> vrel K v (sraw_get s (scount s - 1)) ->
    exists s', step F bld P reenter ip0 s = SNext (ip0 + 1 + 4) s' /\ scount s' = scount s - 1 /\
      rep K R top (RefSem.upd cells c v) s'.
Proof. exact rep_write_local. Qed.
Print Assumptions C06_rep_write_local.

(* CloseUpvalue k (what scope_end emits for a captured local): the cells of the slots >= offset + k that are
   captured move into the upvalue objects ([close_map]; a cell of such a slot that nothing captured becomes
   unreachable), with their values; every upvalue address denotes the cell it denoted before - the variable outlives
   its scope and sibling closures still share it -; closure objects are untouched; nothing is popped *)
Theorem C06_rep_close_upvalue :
  forall (F : fops) (bld : build) (P : program) (reenter : N -> Vm.state -> rres) (K : clomap) (R : cellmap)
         ip0 s idx off l top cells,
    opcode_at P ip0 = 46%N -> op_u32 P (ip0 + 1) = Some idx -> top_offset s = Some off ->
    vm_ok s -> open_list s l -> rep K R top cells s ->
    let newtop := off + N.to_nat idx in
    newtop <= top ->
    exists s', step F bld P reenter ip0 s = SNext (ip0 + 1 + 4) s' /\ vm_ok s' /\ open_list s' (kept_by newtop l) /\
      st_stack s' = st_stack s /\ st_calls s' = st_calls s /\ Vm.st_globals s' = Vm.st_globals s /\
      rep K (close_map newtop l R) newtop cells s' /\
      (forall ua c, up_cell R s ua c -> up_cell (close_map newtop l R) s' ua c) /\
      (forall a o, hget (Vm.st_heap s) a = Some o -> (forall u, o <> OUp u) -> hget (Vm.st_heap s') a = Some o).
Proof. exact rep_close_upvalue. Qed.
Print Assumptions C06_rep_close_upvalue.

(* RegisterUpvalue index, local - the capture: the closure under construction (the popped copy) gets one more upvalue
   address, and that address denotes the cell of local [index] of the running frame (capture by reference; the
   open upvalue of the slot is reused when a sibling captured the variable before, else a new one is linked into the
   list); the relation and the denotation of every other upvalue address are kept, no other object changes *)
Theorem C06_rep_register_upvalue :
  forall (F : fops) (bld : build) (P : program) (reenter : N -> Vm.state -> rres) (K : clomap) (R : cellmap)
         ip0 s index is_local s1 ca ch car cups off l top cells c,
    opcode_at P ip0 = 45%N ->
    read_le (p_code P) (ip0 + 1) 1 = Some index -> read_le (p_code P) (ip0 + 1 + 1) 1 = Some is_local ->
    is_local <> 0%N ->
    spop s = (s1, VObj ca) -> hget (Vm.st_heap s1) ca = Some (OClo ch car cups) ->
    top_offset s1 = Some off ->
    vm_ok s -> open_list s l -> rep K R top cells s -> top < scount s ->
    R c = Some (LSlot (off + N.to_nat index)) ->
    exists s' ua l', step F bld P reenter ip0 s = SNext (ip0 + 1 + 2) s' /\ vm_ok s' /\ open_list s' l' /\
      (forall x, In x l -> In x l') /\
      scount s' = scount s - 1 /\ st_calls s' = st_calls s1 /\
      hget (Vm.st_heap s') ca = Some (OClo ch car (cups ++ [ua])) /\ up_cell R s' ua c /\
      rep K R top cells s' /\
      (forall ua' c', up_cell R s ua' c' -> up_cell R s' ua' c') /\
      (forall a o, a <> ca -> hget (Vm.st_heap s) a = Some o -> (forall u, o <> OUp u) -> hget (Vm.st_heap s') a = Some o).
Proof. exact rep_register_upvalue. Qed.
Print Assumptions C06_rep_register_upvalue.

(* Return: the frame's slots go away, captured cells move into the upvalue objects as for CloseUpvalue, the caller
   finds the return value on top of its part of the stack *)
Theorem C06_rep_return :
  forall (F : fops) (bld : build) (P : program) (reenter : N -> Vm.state -> rres) (K : clomap) (R : cellmap)
         ip0 s fr prev rest l top cells,
    opcode_at P ip0 = 22%N -> st_calls s = fr :: prev :: rest ->
    vm_ok s -> open_list s l -> rep K R top cells s -> top < scount s ->
    let off := N.to_nat (fr_off fr) in
    off <= top ->
    exists s', step F bld P reenter ip0 s = SNext (fr_dst prev) s' /\ vm_ok s' /\ open_list s' (kept_by off l) /\
      st_calls s' = prev :: rest /\ Vm.st_globals s' = Vm.st_globals s /\
      scount s' = S off /\ sraw_get s' off = sraw_get s (scount s - 1) /\
      (forall i, i < off -> sraw_get s' i = sraw_get s i) /\
      rep K (close_map off l R) off cells s' /\
      (forall ua c, up_cell R s ua c -> up_cell (close_map off l R) s' ua c) /\
      (forall a o, hget (Vm.st_heap s) a = Some o -> (forall u, o <> OUp u) -> hget (Vm.st_heap s') a = Some o).
Proof. exact rep_return. Qed.
Print Assumptions C06_rep_return.

(* ---- the witness program (C06SimWitness.sim_example): end to end, and the hypotheses above on its run ---- *)
(* repeat 1 { x := 5; inc := fn(){ x := x + 1 }; get := fn(){ out := x }; r1 := inc(); r2 := get(); x := x + 10;
              seen_open := out };  r3 := inc(); r4 := get()
   compiled by Compiler.compile and run on the VM model, against RefSem.eval_program: the same outcome and the same
   globals; out = 17 is main's write (+10) and inc's write AFTER the scope of x has ended, read by the sibling get;
   at the end both closure objects hold the one upvalue object, closed, with 17 *)
Example C06_ex_closure_sim_witness :
  match sim_compiled, eval_program 300 sim_example [] with
  | Some B, PObs o =>
      (ob_kind o, ob_globals o) =
        (KOk, [(ws "inc", TrFn); (ws "get", TrFn); (ws "r1", TrNil); (ws "out", TrInt 17); (ws "r2", TrNil);
               (ws "seen_open", TrInt 6); (ws "r3", TrNil); (ws "r4", TrNil)]) /\
      let r := Vm.run wnofloat Debug 300 sim_program fresh_state in
      fst r = OOk /\
      map (fun n => Vm.read_var_by_name sim_program (snd r) (ws n)) ["out"; "seen_open"; "r4"]%string
        = [Some (VInt 17); Some (VInt 6); Some VNil] /\
      closures_of (Vm.st_heap (snd r)) = [(0%N, [1%N]); (2%N, [1%N])] /\
      upvalues_of (Vm.st_heap (snd r)) = [(1%N, mkUp None (VInt 17) None)]
  | _, _ => False
  end.
Proof. vm_compute. repeat split; reflexivity. Qed.

(* the representation on that run: the one cell of x (cell 0 of the reference store) lives in slot 2 while the
   Repeat body runs, in the upvalue object 1 afterwards; no closure value is stored in a cell *)
Definition K_wit : clomap := fun _ => None.
Definition R_open : cellmap := fun c => match c with 0 => Some (LSlot 2) | _ => None end.
Definition R_closed : cellmap := fun c => match c with 0 => Some (LUp 1%N) | _ => None end.

Ltac rep_wit :=
  constructor;
  [ intros [|c] l H; cbn in H; [injection H as <-|discriminate]; eexists; (split; [reflexivity|]);
    vm_compute; first [constructor | (do 2 eexists; split; [reflexivity|constructor])]
  | intros [|c] [|c'] l H1 H2; cbn in H1, H2; try discriminate; reflexivity
  | intros [|c] i H; cbn in H; [first [injection H as <-; lia | discriminate] | discriminate]
  | vm_compute; lia ].
Ltac upv_wit := do 6 eexists; do 4 (split; [vm_compute; reflexivity|]); vm_compute; reflexivity.

(* instruction 66 of the run is get's ReadUpvalue after the scope exit (closed upvalue, value 17 written by the
   sibling inc); instruction 32 the same ReadUpvalue while x is alive (open upvalue of slot 2, value 6) *)
Example C06_ex_rep_read_upvalue_hyps :
  (opcode_at sim_program (sim_ip 66) = 44%N /\ op_u32 sim_program (sim_ip 66 + 1) = Some 0%N /\
   upvalue_of (sim_st 66) 0 1 (mkUp None (VInt 17) None) /\
   rep K_wit R_closed 0 [RefSem.VInt 17] (sim_st 66) /\ up_cell R_closed (sim_st 66) 1 0 /\
   S (scount (sim_st 66)) < cap (sim_st 66)) /\
  (opcode_at sim_program (sim_ip 32) = 44%N /\ op_u32 sim_program (sim_ip 32 + 1) = Some 0%N /\
   upvalue_of (sim_st 32) 0 1 (mkUp (Some 2) VNil None) /\
   rep K_wit R_open 3 [RefSem.VInt 6] (sim_st 32) /\ up_cell R_open (sim_st 32) 1 0 /\
   S (scount (sim_st 32)) < cap (sim_st 32)).
Proof.
  split.
  - split; [vm_compute; reflexivity|]. split; [vm_compute; reflexivity|]. split; [upv_wit|]. split; [rep_wit|].
    split; [eexists; split; vm_compute; reflexivity | vm_compute; lia].
  - split; [vm_compute; reflexivity|]. split; [vm_compute; reflexivity|]. split; [upv_wit|]. split; [rep_wit|].
    split; [eexists; split; vm_compute; reflexivity | vm_compute; lia].
Qed.

(* instruction 60: inc's SetUpvalue after the scope exit (closed; 16 -> 17); instruction 26: the same while x is
   alive (open; 5 -> 6) *)
Example C06_ex_rep_write_upvalue_hyps :
  (exists s1, opcode_at sim_program (sim_ip 60) = 43%N /\ op_u32 sim_program (sim_ip 60 + 1) = Some 0%N /\
     spop (sim_st 60) = (s1, VInt 17) /\ upvalue_of s1 0 1 (mkUp None (VInt 16) None) /\
     rep K_wit R_closed 0 [RefSem.VInt 16] (sim_st 60) /\ 0 < scount (sim_st 60) /\
     scount (sim_st 60) < cap (sim_st 60) /\ up_cell R_closed (sim_st 60) 1 0 /\ vrel K_wit (RefSem.VInt 17) (VInt 17)) /\
  (exists s1, opcode_at sim_program (sim_ip 26) = 43%N /\ op_u32 sim_program (sim_ip 26 + 1) = Some 0%N /\
     spop (sim_st 26) = (s1, VInt 6) /\ upvalue_of s1 0 1 (mkUp (Some 2) VNil None) /\
     rep K_wit R_open 3 [RefSem.VInt 5] (sim_st 26) /\ 3 < scount (sim_st 26) /\
     scount (sim_st 26) < cap (sim_st 26) /\ up_cell R_open (sim_st 26) 1 0 /\ vrel K_wit (RefSem.VInt 6) (VInt 6)).
Proof.
  split; eexists.
  - split; [vm_compute; reflexivity|]. split; [vm_compute; reflexivity|]. split; [vm_compute; reflexivity|].
    split; [upv_wit|]. split; [rep_wit|]. split; [vm_compute; lia|]. split; [vm_compute; lia|].
    split; [eexists; split; vm_compute; reflexivity | constructor].
  - split; [vm_compute; reflexivity|]. split; [vm_compute; reflexivity|]. split; [vm_compute; reflexivity|].
    split; [upv_wit|]. split; [rep_wit|]. split; [vm_compute; lia|]. split; [vm_compute; lia|].
    split; [eexists; split; vm_compute; reflexivity | constructor].
Qed.

(* instruction 37: main's ReadLocalVar 2 (x = 6, after inc ran); instruction 40: main's SetLocalVar 2 (x := 16) *)
Example C06_ex_rep_local_hyps :
  (opcode_at sim_program (sim_ip 37) = 20%N /\ op_u32 sim_program (sim_ip 37 + 1) = Some 2%N /\
   top_offset (sim_st 37) = Some 0 /\ rep K_wit R_open 3 [RefSem.VInt 6] (sim_st 37) /\
   R_open 0 = Some (LSlot (0 + N.to_nat 2)) /\ S (scount (sim_st 37)) < cap (sim_st 37)) /\
  (opcode_at sim_program (sim_ip 40) = 19%N /\ op_u32 sim_program (sim_ip 40 + 1) = Some 2%N /\
   top_offset (sim_st 40) = Some 0 /\ rep K_wit R_open 3 [RefSem.VInt 6] (sim_st 40) /\
   3 < scount (sim_st 40) /\ scount (sim_st 40) < cap (sim_st 40) /\
   R_open 0 = Some (LSlot (0 + N.to_nat 2)) /\
   vrel K_wit (RefSem.VInt 16) (sraw_get (sim_st 40) (scount (sim_st 40) - 1))).
Proof.
  split.
  - split; [vm_compute; reflexivity|]. split; [vm_compute; reflexivity|]. split; [vm_compute; reflexivity|].
    split; [rep_wit|]. split; [reflexivity | vm_compute; lia].
  - split; [vm_compute; reflexivity|]. split; [vm_compute; reflexivity|]. split; [vm_compute; reflexivity|].
    split; [rep_wit|]. split; [vm_compute; lia|]. split; [vm_compute; lia|]. split; [reflexivity|].
    vm_compute. constructor.
Qed.

(* instruction 43: the CloseUpvalue 2 at the end of the Repeat body; the cell of x moves from slot 2 into object 1 *)
Example C06_ex_rep_close_upvalue_hyps :
  opcode_at sim_program (sim_ip 43) = 46%N /\ op_u32 sim_program (sim_ip 43 + 1) = Some 2%N /\
  top_offset (sim_st 43) = Some 0 /\ vm_ok (sim_st 43) /\ open_list (sim_st 43) [(1%N, 2)] /\
  rep K_wit R_open 3 [RefSem.VInt 16] (sim_st 43) /\ 0 + N.to_nat 2 <= 3 /\
  close_map (0 + N.to_nat 2) [(1%N, 2)] R_open 0 = R_closed 0.
Proof.
  split; [vm_compute; reflexivity|]. split; [vm_compute; reflexivity|]. split; [vm_compute; reflexivity|].
  split; [apply sim_st_vm_ok|]. split; [apply chain_of_sound with (fuel := 3); vm_compute; reflexivity|].
  split; [rep_wit|]. split; [vm_compute; lia | reflexivity].
Qed.

(* instruction 14: the first capture of x (a new upvalue object is created); instruction 19: the sibling's capture
   (the open upvalue of slot 2 is found and shared) *)
Example C06_ex_rep_register_upvalue_hyps :
  (exists s1, opcode_at sim_program (sim_ip 14) = 45%N /\
     read_le (p_code sim_program) (sim_ip 14 + 1) 1 = Some 2%N /\
     read_le (p_code sim_program) (sim_ip 14 + 1 + 1) 1 = Some 1%N /\ 1%N <> 0%N /\
     spop (sim_st 14) = (s1, VObj 0) /\ hget (Vm.st_heap s1) 0 = Some (OClo 4232050211 0 []) /\
     top_offset s1 = Some 0 /\ vm_ok (sim_st 14) /\ open_list (sim_st 14) [] /\
     rep K_wit R_open 3 [RefSem.VInt 5] (sim_st 14) /\ 3 < scount (sim_st 14) /\
     R_open 0 = Some (LSlot (0 + N.to_nat 2))) /\
  (exists s1, opcode_at sim_program (sim_ip 19) = 45%N /\
     read_le (p_code sim_program) (sim_ip 19 + 1) 1 = Some 2%N /\
     read_le (p_code sim_program) (sim_ip 19 + 1 + 1) 1 = Some 1%N /\ 1%N <> 0%N /\
     spop (sim_st 19) = (s1, VObj 2) /\ hget (Vm.st_heap s1) 2 = Some (OClo 1604228800 0 []) /\
     top_offset s1 = Some 0 /\ vm_ok (sim_st 19) /\ open_list (sim_st 19) [(1%N, 2)] /\
     rep K_wit R_open 3 [RefSem.VInt 5] (sim_st 19) /\ 3 < scount (sim_st 19) /\
     R_open 0 = Some (LSlot (0 + N.to_nat 2))).
Proof.
  split; eexists.
  - split; [vm_compute; reflexivity|]. split; [vm_compute; reflexivity|]. split; [vm_compute; reflexivity|].
    split; [discriminate|]. split; [vm_compute; reflexivity|]. split; [vm_compute; reflexivity|].
    split; [vm_compute; reflexivity|]. split; [apply sim_st_vm_ok|].
    split; [apply chain_of_sound with (fuel := 3); vm_compute; reflexivity|].
    split; [rep_wit|]. split; [vm_compute; lia | reflexivity].
  - split; [vm_compute; reflexivity|]. split; [vm_compute; reflexivity|]. split; [vm_compute; reflexivity|].
    split; [discriminate|]. split; [vm_compute; reflexivity|]. split; [vm_compute; reflexivity|].
    split; [vm_compute; reflexivity|]. split; [apply sim_st_vm_ok|].
    split; [apply chain_of_sound with (fuel := 3); vm_compute; reflexivity|].
    split; [rep_wit|]. split; [vm_compute; lia | reflexivity].
Qed.

(* instruction 28: the Return of inc, called while x is alive (frame offset 3 = top: no cell lives in the frame) *)
Example C06_ex_rep_return_hyps :
  exists fr prev rest,
    opcode_at sim_program (sim_ip 28) = 22%N /\ st_calls (sim_st 28) = fr :: prev :: rest /\
    vm_ok (sim_st 28) /\ open_list (sim_st 28) [(1%N, 2)] /\
    rep K_wit R_open 3 [RefSem.VInt 6] (sim_st 28) /\ 3 < scount (sim_st 28) /\ N.to_nat (fr_off fr) <= 3.
Proof.
  do 3 eexists. split; [vm_compute; reflexivity|]. split; [vm_compute; reflexivity|]. split; [apply sim_st_vm_ok|].
  split; [apply chain_of_sound with (fuel := 3); vm_compute; reflexivity|].
  split; [rep_wit|]. split; [vm_compute; lia | vm_compute; lia].
Qed.

(* ------------------------------------------------------------------------------------------ *)
(* THE REFINEMENT THROUGH THE COMPILER, fragment FC (closures over the locals of main)         *)
(* ------------------------------------------------------------------------------------------ *)
(* Fragment FC (C06SimFcDefs.in_fc): one function `main`; cards of main:  SetGlobalVar g e | SetVar x e (declares the
   data local x or assigns it) | SetVar c (Closure [] body) (declares the local c holding a closure; c a new name) |
   SetGlobalVar r (DynamicCall (ReadVar c) []) (calls the closure c; r := nil).  A closure body is a list of
   SetGlobalVar g e | SetVar x e  with x a data local of main declared BEFORE the closure: a captured variable.
   Expressions: C01's F1 (ScalarInt, ScalarNil, ReadVar, Not, Add Sub Mul Less ...) that never read a closure local; in a
   body a ReadVar of a data local of main declared before the closure is captured, every other name is a global.
   The direct meaning C06SimFcDefs.obs_fc keeps ONE store of main's data locals; a closure body runs on that store
   (restricted to the names visible where the closure was created) and its writes go to that store: capture by
   reference, sharing between sibling closures and visibility of the writes in main are built into the meaning.

   (Left out of FC: the call  DynamicCall (ReadVar c) []  standing directly as a card of main.  The compiler emits
   ReadLocalVar c; CallFunction and no Pop there, so the returned nil stays on the value stack above the locals; a later
   declaration  SetVar z e  - SetLocalVar (number of locals) - overwrites the lowest such leftover, and the Pops at the
   end of main remove leftovers instead of locals (harmless: Exit follows, CloseUpvalue k names its slot).  On an instance
   with such calls between declarations and captures compile + Vm.run still agree with eval_program; the stack shape
   "locals ++ leftovers" is what a proof would have to carry.)

   PROVED (reference half, C06SimFcRef.v .. C06SimFcRef4.v): C06_fc_reference_meaning - for every program of FC,
     eval_program fuel M host = PObs o  implies  (ob_kind o, ob_globals o) = obs_fc (main_cards M):
   RefSem's cells / scopes / closure records compute exactly that meaning (the invariant C06SimFcRef2.inv: main's scope
   maps each data local to a cell holding its value, injectively; each closure local's cell holds VClosure k, record k
   keeps the body and a scope that agrees with main's scope on the names visible at creation).
   VALIDATED BY COMPUTATION ONLY (the Examples below): the compiler half - compile M emits
   encode (C06SimFcDefs.code_all_fc ..) (Goto over the body, body with ReadUpvalue / SetUpvalue, ScalarNil Return,
   Closure label 0, CopyLast RegisterUpvalue slot 1 per captured slot in order of first use, SetLocalVar; at the end of
   main CloseUpvalue slot for a captured local and Pop for the others) and the closure labels C06SimFcDefs.labels_fc -
   and the VM half - Vm.run of the compiled code gives the kind and the globals of obs_fc.
   MISSING for the closed theorem C06_closure_sim_fc (compile = COk B and eval_program = PObs o imply Vm.run agrees):
   the proofs of these two halves for all programs of FC (the compiler half in the style of C01SimComp5/9 with
   compile_begin / resolve_upvalue / emit_upvalues / pop_locals with captured locals; the VM half in the style of
   C01SimF5/F9b using C06_rep_register_upvalue, C06_rep_read_upvalue / write_upvalue, C06_vm_closure_body). *)
From Cao Require C06SimFcDefs C06SimFcRef4 C01SimDefs Compiler CompilerProofs C15Link.

Theorem C06_fc_reference_meaning :
  forall (fuel : nat) (M : module) (host : list str) (o : obs),
    C06SimFcDefs.in_fc M = true -> eval_program fuel M host = PObs o ->
    (ob_kind o, ob_globals o) = C06SimFcDefs.obs_fc (C01SimDefs.main_cards M).
Proof. exact C06SimFcRef4.eval_program_fc. Qed.
Print Assumptions C06_fc_reference_meaning.

(* x, y data locals; inc := fn(){ x := x + y } and get := fn(){ out := x; o2 := out - z } are siblings that share x
   (get also captures z, declared between them; inc cannot see z); main calls inc, get, writes x itself, calls get
   again and reads x back: out = 22 - the write of inc (12) and main's write (+10) seen by get -, fin = 22;
   then an unset global is read: VarNotFound, the card after it does not run. *)
Definition fc_call0 (c : string) : card := CDynamicCall (CReadVar (s c)) [].
Definition fc_example : module :=
  prog [("main", fn []
    [CSetVar (s "x") (CScalarInt 5);
     CSetVar (s "y") (CScalarInt 7);
     CSetVar (s "inc") (CClosure [] [CSetVar (s "x") (CBin BAdd (CReadVar (s "x")) (CReadVar (s "y")))]);
     CSetVar (s "z") (CScalarInt 100);
     CSetVar (s "get") (CClosure [] [CSetGlobalVar (s "out") (CReadVar (s "x"));
                                     CSetGlobalVar (s "o2") (CBin BSub (CReadVar (s "out")) (CReadVar (s "z")))]);
     CSetGlobalVar (s "r0") (fc_call0 "inc");
     CSetGlobalVar (s "r") (fc_call0 "get");
     CSetVar (s "x") (CBin BAdd (CReadVar (s "x")) (CScalarInt 10));
     CSetGlobalVar (s "r") (fc_call0 "get");
     CSetGlobalVar (s "fin") (CReadVar (s "x"));
     CSetGlobalVar (s "bad") (CReadVar (s "nope"));
     CSetGlobalVar (s "never") (CScalarInt 1)])].
(* the same without the failing read: the run reaches the end of main (CloseUpvalue / Pop, Exit) *)
Definition fc_example_ok : module :=
  prog [("main", fn []
    [CSetVar (s "x") (CScalarInt 1);
     CSetVar (s "inc") (CClosure [] [CSetVar (s "x") (CBin BAdd (CReadVar (s "x")) (CScalarInt 1))]);
     CSetVar (s "get") (CClosure [] [CSetGlobalVar (s "out") (CReadVar (s "x"))]);
     CSetGlobalVar (s "r") (fc_call0 "inc");
     CSetGlobalVar (s "r") (fc_call0 "inc");
     CSetGlobalVar (s "r") (fc_call0 "get");
     CSetGlobalVar (s "seen") (CReadVar (s "out"));
     CSetVar (s "x") (CBin BMul (CReadVar (s "x")) (CScalarInt 10));
     CSetGlobalVar (s "r") (fc_call0 "get");
     CSetGlobalVar (s "mine") (CReadVar (s "x"))])].

Definition fc_mainh (M : module) : N :=
  match Compiler.into_ir_stream M 64 with inr (f :: _) => Compiler.fi_handle f | _ => 0%N end.
Definition fc_agrees (M : module) (fuel : nat) (names : list string) (expect : okind * list (str * tree)) : Prop :=
  match Compiler.compile M CompilerProofs.default_options, eval_program fuel M [] with
  | Compiler.COk B, PObs o =>
      let cards := C01SimDefs.main_cards M in
      C06SimFcDefs.in_fc M = true /\
      (ob_kind o, ob_globals o) = expect /\
      C06SimFcDefs.obs_fc cards = expect /\
      (* the compiler half, on this program: the code and the closure labels *)
      (let code := Bytecode.encode (C06SimFcDefs.code_all_fc (Compiler.p_ids B) (fc_mainh M) cards) in
       firstn (List.length code) (Compiler.p_bytecode B) = code) /\
      Forall (fun kv => Compiler.nm_find (fst kv) (Compiler.p_labels B) = Some (snd kv))
             (C06SimFcDefs.labels_fc (Compiler.p_ids B) (fc_mainh M) [] 0 0 cards) /\
      (* the VM half, on this program *)
      let r := Vm.run C06SimWitness.wnofloat Vm.Debug fuel (C15Link.to_vm B) Vm.fresh_state in
      C01SimDefs.vm_kind (fst r) = Some (ob_kind o) /\
      map (fun n => option_map C01SimDefs.vm_tree (Vm.read_var_by_name (C15Link.to_vm B) (snd r) (s n))) names
      = map (fun n => RefSem.assoc (s n) (ob_globals o)) names
  | _, _ => False
  end.

Example C06_fc_instance :
  fc_agrees fc_example 500 ["out"; "o2"; "r0"; "r"; "fin"; "bad"; "never"; "x"; "inc"]
    (KErr RefSem.EVarNotFound, [(s "r0", TrNil); (s "out", TrInt 22); (s "o2", TrInt (-78)); (s "r", TrNil); (s "fin", TrInt 22)]).
Proof. vm_compute. repeat split; repeat constructor. Qed.
Example C06_fc_instance_ok :
  fc_agrees fc_example_ok 500 ["out"; "seen"; "r"; "mine"; "x"; "inc"; "get"]
    (KOk, [(s "r", TrNil); (s "out", TrInt 30); (s "seen", TrInt 3); (s "mine", TrInt 30)]).
Proof. vm_compute. repeat split; repeat constructor. Qed.

(* the programs of FC lie in the class the properties quantify over *)
From Cao Require C06SimFcScope.
Theorem C06_fc_well_scoped :
  forall M : module, C06SimFcDefs.in_fc M = true -> well_scoped M = true.
Proof. exact C06SimFcScope.in_fc_well_scoped. Qed.
Print Assumptions C06_fc_well_scoped.
Example C06_fc_instance_well_scoped :
  C06SimFcDefs.in_fc fc_example = true /\ well_scoped fc_example = true /\
  C06SimFcDefs.in_fc fc_example_ok = true /\ well_scoped fc_example_ok = true.
Proof. vm_compute. repeat split; reflexivity. Qed.

(* corners of the fragment: a closure f created BEFORE main declares the local w reads w as a GLOBAL (the local w is
   invisible to it, in RefSem, in the meaning - `restrict` - and in the code - ReadGlobalVar); a closure that captures
   two locals in the order b, a (upvalue 0 = slot 1, upvalue 1 = slot 0) and only writes a; a local that no closure
   captures (Pop, not CloseUpvalue, at the end of main); a captured variable assigned by main between two calls *)
Definition fc_example_edges : module :=
  prog [("main", fn []
    [CSetVar (s "a") (CScalarInt 1);
     CSetVar (s "b") (CScalarInt 2);
     CSetGlobalVar (s "w") (CScalarInt 40);
     CSetVar (s "f") (CClosure [] [CSetGlobalVar (s "gw") (CBin BAdd (CReadVar (s "w")) (CReadVar (s "b")));
                                   CSetVar (s "a") (CBin BSub (CReadVar (s "b")) (CScalarInt 10))]);
     CSetVar (s "w") (CScalarInt 7);
     CSetVar (s "u") (CBin BAdd (CReadVar (s "w")) (CReadVar (s "a")));
     CSetVar (s "h") (CClosure [] [CSetGlobalVar (s "hw") (CBin BMul (CReadVar (s "w")) (CReadVar (s "a")))]);
     CSetGlobalVar (s "r") (fc_call0 "f");
     CSetGlobalVar (s "r") (fc_call0 "h");
     CSetVar (s "b") (CScalarInt 100);
     CSetGlobalVar (s "r") (fc_call0 "f");
     CSetGlobalVar (s "r") (fc_call0 "h");
     CSetGlobalVar (s "a_end") (CReadVar (s "a"));
     CSetGlobalVar (s "u_end") (CReadVar (s "u"))])].
Example C06_fc_instance_edges :
  fc_agrees fc_example_edges 600 ["w"; "gw"; "hw"; "r"; "a_end"; "u_end"; "a"; "f"]
    (KOk, [(s "w", TrInt 40); (s "gw", TrInt 140); (s "r", TrNil); (s "hw", TrInt 630); (s "a_end", TrInt 90); (s "u_end", TrInt 8)]).
Proof. vm_compute. repeat split; repeat constructor. Qed.
