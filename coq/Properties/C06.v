(* C06 - closures capture variables by reference with correct identity and lifetime.
   Statements only; proofs in Cao.C06Proofs.  Beside each theorem an example on a concrete program.

   What is stated here is true of the REFERENCE SEMANTICS (RefSem.v), for all programs: a variable
   is a cell (an index into the cell store), an environment maps names to cells, a closure record
   keeps the scopes (name -> cell) visible where it was created.  The real compiler + VM are tied
   to this semantics by the differential check C06Check (harness/src/c06.rs).

   The VM-side half of the property (to be proved once Bytecode.v / Compiler.v / Vm.v follow the
   encoding of /repo `next`: CloseUpvalue carries the index of the local that goes out of scope,
   resolve_upvalue searches innermost first).  Statement:

     Definition open_upvalues_sorted_unique (vm : Vm.state) : Prop :=
       let locs := map (fun u => upvalue_location vm u) (open_upvalue_list vm) in
       StronglySorted (fun a b => a > b) locs                 (* strictly descending by stack slot: at
                                                                most one open upvalue per slot *)
       /\ Forall (fun l => l < stack_height vm) locs           (* every open slot is a live slot *)
       /\ forall u, In u (open_upvalue_list vm) <-> is_open vm u.  (* the list holds exactly the open
                                                                      upvalue objects *)
     Theorem open_upvalues_preserved :
       forall vm vm', open_upvalues_sorted_unique vm -> Vm.step vm = Running vm' ->
                      open_upvalues_sorted_unique vm'.
     (register_upvalue inserts in order or returns the existing upvalue of the slot; CloseUpvalue k
      closes exactly the open upvalues with location >= frame_base + k; Return closes those with
      location >= frame_base; no other instruction touches the list, and none lowers the stack
      below an open location.)

     Definition cell_rel (R : cell -> upvalue) (s : RefSem.state) (vm : Vm.state) : Prop :=
       forall c u, R c = u ->
         (is_open vm u   -> nth_error (stack vm) (upvalue_location vm u) = Some (vrel (cell_value s c))
                            (* while the declaring scope is alive the cell IS the stack slot of the
                               local: the enclosing function reads / writes the slot, the closures
                               go through the open upvalue *))
      /\ (is_closed vm u -> closed_value vm u = vrel (cell_value s c)).
                            (* after the scope ended the cell is the upvalue object's own value *)
     Theorem closure_refinement :
       forall m B, well_scoped m = true -> Compiler.compile m = Ok B ->
       forall n, exists R, (* after n steps of the VM that correspond to a prefix of the evaluation
                              of the reference semantics *)
         open_upvalues_sorted_unique (vm_n) /\ cell_rel R s_n vm_n
         /\ (* a scope end (CloseUpvalue k) / Return closes exactly the upvalues of the cells of
               the scopes that RefSem drops there, copying the current value: lemmas
               [repeat_scope_exit], [foreach_scope_exit], [finish_call_store] below are the
               reference side of this step *)
         (forall cl c, closure_of R cl designates c -> the i-th upvalue address of the VM closure object is R c).
     With [capture_by_reference] (a closure record holds cells), [iteration_cells_distinct_*]
     (a fresh cell per iteration <-> a fresh upvalue object per iteration, because the previous one
     was closed at the scope end), [cell_outlives_scope] and [closure_body_identity] (the label
     stored in the closure object is injective in (function, card index): C08/C10) this gives C06
     for the implementation model. *)
From Coq Require Import List NArith ZArith Bool Arith String Ascii.
Import ListNotations.
From Cao Require Import CardAst RefSem RefScope RefSemProofs C06Proofs C06Wf C06Check.

(* ---- programs for the examples ---- *)
Local Open Scope string_scope.
Local Open Scope list_scope.
Definition s (x : string) : str := map (fun a => N_of_ascii a) (list_ascii_of_string x).
Definition fn (args : list string) (cards : list card) : function := Build_function (map s args) cards.
Definition prog (fns : list (string * function)) : module :=
  Module [] (map (fun nf => (s (fst nf), snd nf)) fns) [].
Definition log1 (c : card) : card := CCallNative n_log1 [c].
Definition logged (r : presult) : option (list tree) :=
  match r with
  | PObs o => match ob_kind o with
              | KOk => Some (flat_map (fun e => snd e) (ob_log o))
              | _ => None
              end
  | _ => None
  end.

(* ------------------------------------------------------------------------------------------ *)
(* the stores only grow                                                                       *)
(* ------------------------------------------------------------------------------------------ *)
Theorem C06_stores_only_grow :
  forall P host limit f t s o e s',
    eval P host limit f t s = ROk o e s' ->
    List.length (st_cells s) <= List.length (st_cells s') /\ exists l, st_clos s' = st_clos s ++ l.
Proof. exact eval_ext. Qed.
Print Assumptions C06_stores_only_grow.

(* ------------------------------------------------------------------------------------------ *)
(* (a) capture by reference                                                                   *)
(* ------------------------------------------------------------------------------------------ *)
Theorem C06_capture_by_reference :
  forall P rec fi e params body s,
  exists cl s',
    eval_card P rec fi e (CClosure params body) s = ROk (ONorm [VClosure (List.length (st_clos s))]) e s' /\
    nth_error (st_clos s') (List.length (st_clos s)) = Some cl /\
    st_cells s' = st_cells s /\
    cl_body cl = body /\ cl_params cl = params /\ cl_fi cl = fi /\
    forall x c, lookup_var e x = Some c ->
      lookup_scopes x (cl_up cl) = Some c /\
      forall args s1 sc s2, ~ In x params -> bind_params params args s1 = (sc, s2) ->
        lookup_var {| e_scopes := [sc]; e_up := cl_up cl |} x = Some c.
Proof. exact capture_by_reference. Qed.
Print Assumptions C06_capture_by_reference.

Theorem C06_write_seen_through_shared_cell :
  forall P rec fi e1 e1' x c v val s s1,
    plain x ->
    rec (TkArgs false fi e1 [v]) s = ROk (ONorm [val]) e1' s1 ->
    lookup_var e1' x = Some c -> c < List.length (st_cells s1) ->
    let s2 := set_cells (upd (st_cells s1) c val) s1 in
    eval_card P rec fi e1 (CSetVar x v) s = ok [] e1' s2 /\
    forall e2 fi2 rec2, lookup_var e2 x = Some c ->
      eval_card P rec2 fi2 e2 (CReadVar x) s2 = ok [val] e2 s2.
Proof. exact write_seen_through_shared_cell. Qed.
Print Assumptions C06_write_seen_through_shared_cell.

(* x := 1; inc := fn(){ x := x + 1 }; get := fn(){ return x };
   inc(); log(get()); x := x * 10; log(get()); inc(); log(x); log(get())
   - the scope, the writer and the reader see one variable: 2, 20, 21, 21 *)
Example C06_ex_siblings_share :
  logged (eval_program 500
    (prog [("main", fn []
       [CSetVar (s "x") (CScalarInt 1);
        CSetVar (s "inc") (CClosure [] [CSetVar (s "x") (CBin BAdd (CReadVar (s "x")) (CScalarInt 1))]);
        CSetVar (s "get") (CClosure [] [CUn UReturn (CReadVar (s "x"))]);
        CDynamicCall (CReadVar (s "inc")) [];
        log1 (CDynamicCall (CReadVar (s "get")) []);
        CSetVar (s "x") (CBin BMul (CReadVar (s "x")) (CScalarInt 10));
        log1 (CDynamicCall (CReadVar (s "get")) []);
        CDynamicCall (CReadVar (s "inc")) [];
        log1 (CReadVar (s "x"));
        log1 (CDynamicCall (CReadVar (s "get")) [])])])
    [n_log1]) = Some [TrInt 2; TrInt 20; TrInt 21; TrInt 21].
Proof. vm_compute. reflexivity. Qed.

(* a closure nested in a closure writes a local of the grandparent FUNCTION f, which was called
   with two arguments and holds another local; a parameter is captured too: 1 + 20 + 300 = 321 *)
Example C06_ex_nested_capture_of_grandparent :
  logged (eval_program 500
    (prog [("main", fn [] [log1 (CCall (s "f") [CScalarInt 300; CScalarInt 20])]);
           ("f", fn ["a"; "b"]
              [CSetVar (s "pad") (CScalarInt 7);
               CSetVar (s "x") (CScalarInt 1);
               CSetVar (s "outer") (CClosure []
                  [CSetVar (s "inner") (CClosure []
                     [CSetVar (s "x") (CBin BAdd (CReadVar (s "x")) (CBin BAdd (CReadVar (s "a")) (CReadVar (s "b"))))]);
                   CDynamicCall (CReadVar (s "inner")) []]);
               CDynamicCall (CReadVar (s "outer")) [];
               CUn UReturn (CReadVar (s "x"))])])
    [n_log1]) = Some [TrInt 321].
Proof. vm_compute. reflexivity. Qed.

(* ------------------------------------------------------------------------------------------ *)
(* (b) every iteration has its own cells                                                      *)
(* ------------------------------------------------------------------------------------------ *)
Theorem C06_iteration_cells_distinct_repeat :
  forall P host limit fi e i n body k s j1 lo1 hi1 j2 lo2 hi2,
    repeat_iter P host limit fi e i n body k s j1 lo1 hi1 ->
    repeat_iter P host limit fi e i n body k s j2 lo2 hi2 ->
    j1 < j2 ->
    lo1 <= hi1 /\ hi1 <= lo2 /\ (i <> None -> lo1 < hi1).
Proof. exact iteration_cells_distinct_repeat. Qed.
Print Assumptions C06_iteration_cells_distinct_repeat.

Theorem C06_iteration_cells_distinct_foreach :
  forall P host limit fi e iv kv vv p body k s j1 lo1 hi1 j2 lo2 hi2,
    foreach_iter P host limit fi e iv kv vv p body k s j1 lo1 hi1 ->
    foreach_iter P host limit fi e iv kv vv p body k s j2 lo2 hi2 ->
    j1 < j2 ->
    lo1 <= hi1 /\ hi1 <= lo2 /\ ((vv <> None \/ kv <> None \/ iv <> None) -> lo1 < hi1).
Proof. exact iteration_cells_distinct_foreach. Qed.
Print Assumptions C06_iteration_cells_distinct_foreach.

(* fs := {}; repeat 3 as i { x := i * 10; fs += fn(){ x := x + 1; return x + i };  leaf() }
   foreach f in fs { log(f()) }; foreach f in fs { log(f()) }
   - three different x (and i): 1, 12, 23, then 2, 13, 24 *)
Example C06_ex_iterations_capture_distinct_variables :
  logged (eval_program 1000
    (prog [("main", fn []
       [CSetVar (s "fs") CCreateTable;
        CRepeat (Some (s "i")) (CScalarInt 3)
          (CComposite (s "c")
             [CSetVar (s "x") (CBin BMul (CReadVar (s "i")) (CScalarInt 10));
              CBin BAppendTable
                (CClosure [] [CSetVar (s "x") (CBin BAdd (CReadVar (s "x")) (CScalarInt 1));
                              CUn UReturn (CBin BAdd (CReadVar (s "x")) (CReadVar (s "i")))])
                (CReadVar (s "fs"));
              CCall (s "leaf") []]);
        CForEach None None (Some (s "f")) (CReadVar (s "fs")) (log1 (CDynamicCall (CReadVar (s "f")) []));
        CForEach None None (Some (s "f")) (CReadVar (s "fs")) (log1 (CDynamicCall (CReadVar (s "f")) []))]);
      ("leaf", fn [] [CUn UReturn (CScalarInt 5)])])
    [n_log1]) = Some [TrInt 1; TrInt 12; TrInt 23; TrInt 2; TrInt 13; TrInt 24].
Proof. vm_compute. reflexivity. Qed.

(* ------------------------------------------------------------------------------------------ *)
(* (c) lifetime                                                                               *)
(* ------------------------------------------------------------------------------------------ *)
(* leaving a scope is not an operation on the store: a return drops the callee's environment and
   passes the store on; the end of an iteration continues in the outer environment with the store
   the body ended with *)
Theorem C06_return_keeps_store :
  forall r o e s, finish_call r = ROk o e s -> e = empty_env /\ exists o' e', r = ROk o' e' s.
Proof. exact finish_call_store. Qed.
Print Assumptions C06_return_keeps_store.

Theorem C06_repeat_scope_exit :
  forall P host limit rec fi e i n k body s0 e1 s1 vs e' s2,
    (limit <? st_steps s0)%N = false ->
    v_cmp (st_heap (bump s0)) (VInt k) n = Some (Some Lt) ->
    declare_opt i (VInt k) (push_scope e) (bump s0) = (e1, s1) ->
    rec (TkCard fi e1 body) s1 = ROk (ONorm vs) e' s2 ->
    F P host limit rec (TkRepeat fi e i n k body) s0 = rec (TkRepeat fi e i n (wrap64 (k + 1)) body) s2.
Proof. exact repeat_scope_exit. Qed.
Print Assumptions C06_repeat_scope_exit.

Theorem C06_foreach_scope_exit :
  forall P host limit rec fi e iv kv vv p k body s0 tb key val e1 s1 e2 s2 e3 s3 vs e' s4,
    (limit <? st_steps s0)%N = false ->
    nth_error (st_heap (bump s0)) p = Some tb -> nth_error tb k = Some (key, val) ->
    declare_opt vv val (push_scope e) (bump s0) = (e1, s1) ->
    declare_opt kv (of_key key) e1 s1 = (e2, s2) ->
    declare_opt iv (VInt (Z.of_nat k)) e2 s2 = (e3, s3) ->
    rec (TkCard fi e3 body) s3 = ROk (ONorm vs) e' s4 ->
    F P host limit rec (TkForEach fi e iv kv vv p k body) s0 = rec (TkForEach fi e iv kv vv p (S k) body) s4.
Proof. exact foreach_scope_exit. Qed.
Print Assumptions C06_foreach_scope_exit.

(* every state the semantics reaches from a well-formed state is well formed: every cell that a
   closure record or the current environment mentions is allocated ([init_state] with the
   environment of main is well formed, so this covers every state of every program run) *)
Theorem C06_reachable_states_well_formed :
  st_ok init_state /\
  forall P host limit f t s o e' s',
    st_ok s -> task_ok s t -> eval P host limit f t s = ROk o e' s' ->
    st_ok s' /\ env_ok (List.length (st_cells s')) e'.
Proof. split; [exact init_state_ok | exact eval_keeps_cells_allocated]. Qed.
Print Assumptions C06_reachable_states_well_formed.

(* and whatever is evaluated afterwards (the rest of the loop, the caller after the return, ...)
   keeps the closure record - it still designates the cell c for x - and keeps the cell allocated *)
Theorem C06_cell_outlives_scope :
  forall P host limit f t s o e' s' id cl x c,
    st_ok s -> task_ok s t ->
    nth_error (st_clos s) id = Some cl -> lookup_scopes x (cl_up cl) = Some c ->
    eval P host limit f t s = ROk o e' s' ->
    c < List.length (st_cells s) /\
    nth_error (st_clos s') id = Some cl /\ c < List.length (st_cells s') /\ st_ok s'.
Proof. exact cell_outlives_scope_wf. Qed.
Print Assumptions C06_cell_outlives_scope.

(* counter(start) returns { inc, get } over its parameter and a local; the frame of counter is gone
   when they are called; two counters do not share: 11, 12, 101, 12 *)
Example C06_ex_cells_outlive_the_frame :
  logged (eval_program 1000
    (prog [("main", fn []
       [CSetVar (s "a") (CCall (s "counter") [CScalarInt 10]);
        CSetVar (s "b") (CCall (s "counter") [CScalarInt 100]);
        log1 (CDynamicCall (CReadVar (s "a.inc")) []);
        log1 (CDynamicCall (CReadVar (s "a.inc")) []);
        log1 (CDynamicCall (CReadVar (s "b.inc")) []);
        log1 (CDynamicCall (CReadVar (s "a.get")) [])]);
      ("counter", fn ["start"]
       [CSetVar (s "o") CCreateTable;
        CSetVar (s "step") (CScalarInt 1);
        CSetVar (s "o.inc") (CClosure [] [CSetVar (s "start") (CBin BAdd (CReadVar (s "start")) (CReadVar (s "step")));
                                           CUn UReturn (CReadVar (s "start"))]);
        CSetVar (s "o.get") (CClosure [] [CUn UReturn (CReadVar (s "start"))]);
        CUn UReturn (CReadVar (s "o"))])])
    [n_log1]) = Some [TrInt 11; TrInt 12; TrInt 101; TrInt 12].
Proof. vm_compute. reflexivity. Qed.

(* ------------------------------------------------------------------------------------------ *)
(* (d) identity                                                                               *)
(* ------------------------------------------------------------------------------------------ *)
Theorem C06_closure_body_identity :
  forall P host limit rec fi e params body s0 f t o e' s args,
    let id := List.length (st_clos s0) in
    let s1 := set_clos (st_clos s0 ++ [{| cl_params := params; cl_body := body;
                                          cl_up := e_scopes e ++ e_up e; cl_fi := fi |}]) s0 in
    eval_card P rec fi e (CClosure params body) s0 = ROk (ONorm [VClosure id]) e s1 /\
    (eval P host limit f t s1 = ROk o e' s ->
     (limit <? st_steps s)%N = false -> List.length params <= List.length args ->
     F P host limit rec (TkCallVal (VClosure id) args) s =
     let '(sc, s2) := bind_params params args (bump s) in
     finish_call (rec (TkSeq fi {| e_scopes := [sc]; e_up := e_scopes e ++ e_up e |} body) s2)).
Proof. exact closure_body_identity. Qed.
Print Assumptions C06_closure_body_identity.

(* two functions with the same text shape in two modules: the closure expressions sit at the same
   card position; each value runs the body of its own expression *)
Example C06_ex_same_position_in_two_modules :
  logged (eval_program 500
    (Module [(s "ma", Module [] [(s "mk", fn [] [CUn UReturn (CClosure [] [log1 (CStringLiteral (s "t2"))])])] [])]
            [(s "main", fn [] [CSetVar (s "f") (CCall (s "mk") []);
                               CSetVar (s "g") (CCall (s "ma.mk") []);
                               CDynamicCall (CReadVar (s "g")) [];
                               CDynamicCall (CReadVar (s "f")) [];
                               CDynamicCall (CReadVar (s "g")) []]);
             (s "mk", fn [] [CUn UReturn (CClosure [] [log1 (CStringLiteral (s "t1"))])])]
            [])
    [n_log1]) = Some [TrStr (s "t2"); TrStr (s "t1"); TrStr (s "t2")].
Proof. vm_compute. reflexivity. Qed.

(* the identity oracle of the differential check (C06Check.identity_ok, independent of RefSem): the
   tag entry after a site marker must be the expected one *)
Example C06_ex_identity_oracle :
  let expect := [(s "w1", s "t1"); (s "w2", s "t2")] in
  C06Check.identity_ok expect [s "w1"; s "t1"; s "t7"; s "w2"; s "t2"] = Some true /\
  C06Check.identity_ok expect [s "w1"; s "t1"; s "w2"; s "t1"] = Some false /\      (* the other body ran *)
  C06Check.identity_ok expect [s "w1"; s "t1"; s "w2"] = Some false /\              (* no body ran *)
  C06Check.identity_ok expect [s "w3"; s "t1"] = None.                              (* unknown site *)
Proof. vm_compute. repeat split; reflexivity. Qed.

(* all example programs are in the class the differential check covers *)
Example C06_examples_well_scoped :
  well_scoped
    (prog [("main", fn []
       [CSetVar (s "fs") CCreateTable;
        CRepeat (Some (s "i")) (CScalarInt 3)
          (CComposite (s "c")
             [CSetVar (s "x") (CBin BMul (CReadVar (s "i")) (CScalarInt 10));
              CBin BAppendTable
                (CClosure [] [CSetVar (s "x") (CBin BAdd (CReadVar (s "x")) (CScalarInt 1));
                              CUn UReturn (CBin BAdd (CReadVar (s "x")) (CReadVar (s "i")))])
                (CReadVar (s "fs"));
              CCall (s "leaf") []]);
        CForEach None None (Some (s "f")) (CReadVar (s "fs")) (log1 (CDynamicCall (CReadVar (s "f")) []))]);
      ("leaf", fn [] [CUn UReturn (CScalarInt 5)])]) = true.
Proof. vm_compute. reflexivity. Qed.
