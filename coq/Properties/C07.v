(* C07 — tables are insertion-ordered maps keyed by value.  Statements only; proofs in
   Cao.TableProofs (the table object of Table.v; the hash part of a table is the abstract map licensed by the
   C12 theorems) and in Cao.VmTableProofs / VmTableKeys / VmTableInstr / VmTableNatives (the table
   representation of the VM model Vm.v, the table instructions, reference sharing, preservation of the
   table invariant by every instruction and native): the C07_vm_* theorems below. *)
From Coq Require Import Arith NArith ZArith List Bool.
Import ListNotations.
From Cao Require Import Table TableProofs.
From Cao Require Import ListUtil Stacks Vm VmProofs C04VmProofs VmTableProofs VmTableKeys VmTableInstr VmTableNatives.

(* every history of insert / remove / append / pop / get / nth-key / len / iterate / keys on a table
   that starts empty gives exactly the results of the insertion-ordered association list
   [s_run]; the append search always terminates *)
Theorem C07_table_refines :
  forall (V : Type) (vnil : V) (ops : list (tbop V)),
    let '(t', xs) := tb_run vnil (t_empty V) ops in
    let '(s', ys) := s_run vnil [] ops in
    xs = ys /\ R t' s' /\ Forall (fun x => x <> XDiverge V) xs.
Proof. intros. apply tb_run_refines. apply R_empty. Qed.
Print Assumptions C07_table_refines.

(* what the specification itself says about append and keys (so that it can be read off) *)
Theorem C07_append_key_least :
  forall (V : Type) (s : otable V) i, s_append_key s = Some i ->
    (Z.of_nat (length s) <= i)%Z /\ m_get s (KInt i) = None /\
    forall j, (Z.of_nat (length s) <= j < i)%Z -> m_get s (KInt j) <> None.
Proof. intros V. exact (@append_key_least V). Qed.
Print Assumptions C07_append_key_least.

Theorem C07_set_then_get :
  forall (V : Type) (m : amap V) k v k',
    m_get (m_set m k v) k' = if tkey_eqb k' k then Some v else m_get m k'.
Proof. intros V. exact (@m_get_set V). Qed.
Print Assumptions C07_set_then_get.

Theorem C07_key_equality_is_value_equality : forall a b, reflect (a = b) (tkey_eqb a b).
Proof. exact tkey_eqb_spec. Qed.
Print Assumptions C07_key_equality_is_value_equality.

Example C07_nonvacuous :
  snd (s_run None [] [OInsert (KStr [97%N]) (Some 1%Z); OAppend (Some 2%Z); OInsert (KInt 2%Z) (Some 3%Z);
                      OAppend (Some 4%Z); @OPop _; OAppend (Some 5%Z); @OIter _; @OGet _ (KInt 3%Z)])
  = [XUnit _; XUnit _; XUnit _; XUnit _; XVal (Some 4%Z); XUnit _;
     XIter [(KStr [97%N], Some 1%Z); (KInt 1%Z, Some 2%Z); (KInt 2%Z, Some 3%Z); (KInt 3%Z, Some 5%Z)];
     XOptV (Some (Some 5%Z))].
Proof. vm_compute. reflexivity. Qed.


(* ====================================================================================================== *)
(* The VM model (Vm.v): [table] = map part [tmap] + key vector [tkeys]; values refer to tables by address.  *)
(* ====================================================================================================== *)

(* Vocabulary (VmTableProofs.v, VmTableKeys.v):
     kb eq stored probe   the map part's key test: equal hash (bit-equal reals) and ==, as a boolean
     eb eq stored key     plain ==, the test of `keys.retain(|k| k != key)` in CaoLangTable::remove
     twf eq D t           map fst (tmap t) = tkeys t  (the two parts are aligned entry by entry),
                          every key lies in the key domain D, no key is matched (kb) by a key stored before it
     tabs t               the entries in the order of the key vector (= tmap t, see C07_vm_table_object: its keys
                          are tkeys t and iteration yields it)
     al_get / al_set / al_remove / al_pop   the ordered association list: first match / replace the first
                          match in place, else append / delete the ==-matching entries / drop the last entry
     vkey F h k           the key domain of the VM: nil, integers, reals with r == r (not NaN), addresses of live
                          objects that are not tables (strings by content, functions, closures)
     hext h h'            heap growth: live cells stay live and keep their kind (strings their content)
     tables_wf F h        every table of heap h satisfies twf with the heap's own == (veq0 F h) and key domain
     stack_is c k l       k is a value stack of capacity c whose live part is l (top = last element)           *)

(* 1. The table object, for ANY key equality [eq] that answers on the key domain D and is reflexive there
      (symmetry and transitivity are not needed: the invariant is about ordered pairs).  Each operation keeps
      the invariant and acts on [tabs] as the ordered association list does. *)
Theorem C07_vm_table_object :
  forall (eq : eqfun) (D : value -> Prop),
    (forall a b, D a -> D b -> eq a b <> None) ->
    (forall a, D a -> kb eq a a = true) ->
    forall t, twf eq D t ->
      map fst (tabs t) = tkeys t /\ length (tkeys t) = length (tabs t) /\
      titer eq t = Some (tabs t) /\
      (forall i, tnth_key t i = nth i (map fst (tabs t)) VNil) /\
      (forall k, D k -> tget eq t k = Some (al_get eq k (tabs t))) /\
      (forall k v, D k -> exists t', tinsert eq t k v = Some t' /\ twf eq D t' /\
                                      tabs t' = al_set eq k v (tabs t)) /\
      (forall k, D k -> exists t', tremove eq t k = Some t' /\ twf eq D t' /\
                                    tabs t' = al_remove eq k (tabs t)) /\
      (exists t', tpop eq t = Some (t', snd (al_pop (tabs t))) /\ twf eq D t' /\
                  tabs t' = fst (al_pop (tabs t))).
Proof. exact vm_table_object. Qed.
Print Assumptions C07_vm_table_object.

(* what al_set does: a present key keeps its place (the key sequence is unchanged), an absent key goes to the
   end; a read through the written key returns the written value *)
Theorem C07_vm_set_in_place_or_append :
  forall (eq : eqfun) k v m,
    (al_get eq k m <> None -> map fst (al_set eq k v m) = map fst m) /\
    (al_get eq k m = None -> al_set eq k v m = m ++ [(k, v)]) /\
    (kb eq k k = true -> al_get eq k (al_set eq k v m) = Some v).
Proof. exact vm_set_in_place_or_append. Qed.
Print Assumptions C07_vm_set_in_place_or_append.

(* set-then-get through ANY key of the domain, when the key test is an equivalence there (for the VM's == this
   is the case on nil, integers, strings by content, functions; for reals it is the symmetry and transitivity
   of the float instance's comparison, which the generic model does not fix) *)
Theorem C07_vm_set_then_get :
  forall (eq : eqfun) (D : value -> Prop),
    (forall a, D a -> kb eq a a = true) ->
    (forall a b, D a -> D b -> kb eq a b = true -> kb eq b a = true) ->
    (forall a b c, D a -> D b -> D c -> kb eq a b = true -> kb eq b c = true -> kb eq a c = true) ->
    forall m k v k2, Forall D (map fst m) -> D k -> D k2 ->
      al_get eq k2 (al_set eq k v m) = if kb eq k k2 then Some v else al_get eq k2 m.
Proof. exact al_get_set_law. Qed.
Print Assumptions C07_vm_set_then_get.

(* append: never runs out of probes (pigeonhole over the aligned parts) and stores the value at the end under
   the least integer key >= the number of entries that is not a key of the table *)
Theorem C07_vm_table_append :
  forall (eq : eqfun) (D : value -> Prop),
    (forall a b, D a -> D b -> eq a b <> None) ->
    (forall i, D (VInt i)) ->
    (forall a i, D a -> kb eq a (VInt i) = true -> a = VInt i) ->
    forall t v, twf eq D t ->
      exists t' j, tappend eq t v = TOk t' /\ twf eq D t' /\ tabs t' = tabs t ++ [(VInt j, v)] /\
        (Z.of_nat (length (tabs t)) <= j)%Z /\ al_get eq (VInt j) (tabs t) = None /\
        forall x, (Z.of_nat (length (tabs t)) <= x < j)%Z -> al_get eq (VInt x) (tabs t) <> None.
Proof. exact vm_table_append. Qed.
Print Assumptions C07_vm_table_append.

(* 2. The VM's == (veq0 F h, any float instance F) on the key domain vkey F h satisfies these hypotheses, and
      neither == on keys of the domain nor the invariant of a table changes when the heap grows. *)
Theorem C07_vm_key_equality :
  forall (F : fops) (h : heap),
    (forall a b, vkey F h a -> vkey F h b -> veq0 F h a b <> None) /\
    (forall a, vkey F h a -> kb (veq0 F h) a a = true) /\
    (forall i, vkey F h (VInt i)) /\
    (forall a i, vkey F h a -> kb (veq0 F h) a (VInt i) = true -> a = VInt i) /\
    (forall h' a b, hext h h' -> vkey F h a -> vkey F h b ->
                    vkey F h' a /\ veq0 F h' a b = veq0 F h a b) /\
    (forall h' t, hext h h' -> twf (veq0 F h) (vkey F h) t -> twf (veq0 F h') (vkey F h') t).
Proof. exact vm_key_equality. Qed.
Print Assumptions C07_vm_key_equality.

(* 3. The table instructions.  The result state is the old state with heap cell [a] replaced (set_table) and the
      value stack replaced by one whose live part is given (set_stack): frames, globals, upvalue list, log,
      counters and every other heap cell are unchanged by construction.  A non-table operand is the error value
      InvalidArgument: C04VmProofs.get_property_wrong_type, set_property_wrong_type, append_table_wrong_type,
      pop_table_wrong_type (property C04). *)
Section C07_instructions.
Variables (F : fops) (bld : build) (P : program) (reenter : N -> state -> rres).
Notation veq := (veq0 F).
Notation dom := (vkey F).
Notation STEP := (step F bld P reenter).

Theorem C07_vm_init_table : forall ip0 s,
  opcode_at P ip0 = 31%N -> stack_ok s -> S (length (stack_of s)) < cap s ->
  exists k,
    STEP ip0 s = SNext (ip0 + 1) (set_stack (set_heap s (st_heap s ++ [OTable (mkTable [] [])])) k) /\
    stack_is (cap s) k (stack_of s ++ [VObj (N.of_nat (length (st_heap s)))]).
Proof. exact (step_init_table F bld P reenter). Qed.

Theorem C07_vm_get_property : forall ip0 s l a key t,
  opcode_at P ip0 = 32%N -> stack_ok s -> stack_of s = l ++ [VObj a; key] ->
  hget (st_heap s) a = Some (OTable t) ->
  twf (veq (st_heap s)) (dom (st_heap s)) t -> dom (st_heap s) key ->
  exists k,
    STEP ip0 s = SNext (ip0 + 1) (set_stack s k) /\
    stack_is (cap s) k (l ++ [match al_get (veq (st_heap s)) key (tabs t) with Some v => v | None => VNil end]).
Proof. exact (step_get_property F bld P reenter). Qed.

Theorem C07_vm_set_property : forall ip0 s l a key v t,
  opcode_at P ip0 = 33%N -> stack_ok s -> stack_of s = l ++ [v; VObj a; key] ->
  hget (st_heap s) a = Some (OTable t) ->
  twf (veq (st_heap s)) (dom (st_heap s)) t -> dom (st_heap s) key ->
  exists t' k,
    STEP ip0 s = SNext (ip0 + 1) (set_stack (set_table s a t') k) /\
    stack_is (cap s) k l /\
    twf (veq (st_heap s)) (dom (st_heap s)) t' /\ tabs t' = al_set (veq (st_heap s)) key v (tabs t).
Proof. exact (step_set_property F bld P reenter). Qed.

Theorem C07_vm_len : forall ip0 s l a t,
  opcode_at P ip0 = 34%N -> stack_ok s -> stack_of s = l ++ [VObj a] ->
  hget (st_heap s) a = Some (OTable t) -> twf (veq (st_heap s)) (dom (st_heap s)) t ->
  exists k,
    STEP ip0 s = SNext (ip0 + 1) (set_stack s k) /\
    stack_is (cap s) k (l ++ [VInt (Z.of_nat (length (tabs t)))]).
Proof. exact (step_len F bld P reenter). Qed.

Theorem C07_vm_append_table : forall ip0 s l a v t,
  opcode_at P ip0 = 40%N -> stack_ok s -> stack_of s = l ++ [v; VObj a] ->
  hget (st_heap s) a = Some (OTable t) -> twf (veq (st_heap s)) (dom (st_heap s)) t ->
  exists t' j k,
    STEP ip0 s = SNext (ip0 + 1) (set_stack (set_table s a t') k) /\
    stack_is (cap s) k l /\
    twf (veq (st_heap s)) (dom (st_heap s)) t' /\
    al_append_key (veq (st_heap s)) (tabs t) j /\ tabs t' = tabs t ++ [(VInt j, v)].
Proof. exact (step_append_table F bld P reenter). Qed.

Theorem C07_vm_pop_table : forall ip0 s l a t,
  opcode_at P ip0 = 41%N -> stack_ok s -> stack_of s = l ++ [VObj a] ->
  hget (st_heap s) a = Some (OTable t) -> twf (veq (st_heap s)) (dom (st_heap s)) t ->
  exists t' k,
    STEP ip0 s = SNext (ip0 + 1) (set_stack (set_table s a t') k) /\
    stack_is (cap s) k (l ++ [snd (al_pop (tabs t))]) /\
    twf (veq (st_heap s)) (dom (st_heap s)) t' /\ tabs t' = fst (al_pop (tabs t)).
Proof. exact (step_pop_table F bld P reenter). Qed.

(* NthRow: the row object {"key": k, "value": v} of the i-th entry in order, (nil, nil) beyond the end; three
   fresh cells (the row table and its two key strings) are appended to the heap *)
Theorem C07_vm_nth_row : forall ip0 s l a i t,
  opcode_at P ip0 = 39%N -> stack_ok s -> stack_of s = l ++ [VObj a; VInt i] -> (0 <= i)%Z ->
  hget (st_heap s) a = Some (OTable t) -> twf (veq (st_heap s)) (dom (st_heap s)) t ->
  let e := nth (Z.to_nat i) (tabs t) (VNil, VNil) in
  exists k,
    STEP ip0 s = SNext (ip0 + 1)
                   (set_stack (set_heap s (st_heap s ++ row_cells (length (st_heap s)) (fst e) (snd e))) k) /\
    stack_is (cap s) k (l ++ [VObj (N.of_nat (length (st_heap s)))]).
Proof. exact (step_nth_row F bld P reenter). Qed.

(* ForEach: round i of the loop reads the i-th entry in order and commits (value, key, i, i+1) to the loop's
   locals, pushing `true`; at i >= len it pushes `false`.  A loop over a table that is not modified meanwhile
   therefore visits the entries of [tabs] exactly once each, in order. *)
Theorem C07_vm_for_each : forall ip0 s lv t_h i_h k_h v_h off i a t,
  opcode_at P ip0 = 36%N ->
  op_u32 P (ip0 + 1) = Some lv -> op_u32 P (ip0 + 1 + 4) = Some t_h -> op_u32 P (ip0 + 1 + 8) = Some i_h ->
  op_u32 P (ip0 + 1 + 12) = Some k_h -> op_u32 P (ip0 + 1 + 16) = Some v_h ->
  top_offset s = Some off ->
  to_i64 F (st_heap s) (sget s (off + N.to_nat lv)) = Some i -> (0 <= i)%Z ->
  sget s (off + N.to_nat t_h) = VObj a ->
  hget (st_heap s) a = Some (OTable t) -> twf (veq (st_heap s)) (dom (st_heap s)) t ->
  let e := nth (Z.to_nat i) (tabs t) (VNil, VNil) in
  STEP ip0 s = if (i <? Z.of_nat (length (tabs t)))%Z
               then foreach_commit (ip0 + 1 + 20) s off lv i_h k_h v_h i (fst e) (snd e)
               else push_next (ip0 + 1 + 20) s (vbool false).
Proof. exact (step_for_each F bld P reenter). Qed.

(* Reference sharing.  SetProperty through one copy of the reference [VObj a] (key [key], value [v]); then any
   instructions that leave the heap alone (the reference copied through locals, globals, upvalues, the stack):
   s2 is any state with the heap SetProperty left.  GetProperty through [VObj a] with that key returns v;
   GetProperty through another address b returns exactly what it returned before the write. *)
Theorem C07_vm_reference_sharing : forall ip0 s l a key v t s1,
  opcode_at P ip0 = 33%N -> stack_ok s -> stack_of s = l ++ [v; VObj a; key] ->
  hget (st_heap s) a = Some (OTable t) ->
  twf (veq (st_heap s)) (dom (st_heap s)) t -> dom (st_heap s) key ->
  STEP ip0 s = SNext (ip0 + 1) s1 ->
  forall ip2 s2 l2, opcode_at P ip2 = 32%N -> stack_ok s2 -> st_heap s2 = st_heap s1 ->
    (stack_of s2 = l2 ++ [VObj a; key] ->
     exists k, STEP ip2 s2 = SNext (ip2 + 1) (set_stack s2 k) /\ stack_is (cap s2) k (l2 ++ [v])) /\
    (forall b u key', b <> a -> hget (st_heap s) b = Some (OTable u) ->
       twf (veq (st_heap s)) (dom (st_heap s)) u -> dom (st_heap s) key' ->
       stack_of s2 = l2 ++ [VObj b; key'] ->
       exists k, STEP ip2 s2 = SNext (ip2 + 1) (set_stack s2 k) /\
                 stack_is (cap s2) k
                   (l2 ++ [match al_get (veq (st_heap s)) key' (tabs u) with Some x => x | None => VNil end])).
Proof. exact (vm_reference_sharing F bld P reenter). Qed.

(* 4. Every instruction - all 47 opcodes, the host menu natives and the stdlib natives min / max / sort /
      to_array included - keeps the invariant of every table of the heap, whatever the outcome (next state,
      exit, error value, abort), and live cells stay live and keep their kind.  Hypotheses: (a) the key of a
      SetProperty lies in the key domain (a NaN key, a table used as a key or a dangling address would break
      the alignment of the two parts / the distinctness of the keys); (b) the nested runs that natives start
      ([reenter]) keep the invariant - the same statement one nesting level down. *)
Theorem C07_vm_tables_wf_preserved :
  (forall ip x, tables_wf F (st_heap x) ->
     hext (st_heap x) (st_heap (rres_state (reenter ip x))) /\ tables_wf F (st_heap (rres_state (reenter ip x)))) ->
  forall ip0 s,
    tables_wf F (st_heap s) ->
    (opcode_at P ip0 = 33%N -> dom (st_heap s) (speek s 0)) ->
    hext (st_heap s) (st_heap (sres_state (STEP ip0 s))) /\ tables_wf F (st_heap (sres_state (STEP ip0 s))).
Proof. exact (step_tables_wf F bld P reenter). Qed.

End C07_instructions.
Print Assumptions C07_vm_init_table.
Print Assumptions C07_vm_get_property.
Print Assumptions C07_vm_set_property.
Print Assumptions C07_vm_len.
Print Assumptions C07_vm_append_table.
Print Assumptions C07_vm_pop_table.
Print Assumptions C07_vm_nth_row.
Print Assumptions C07_vm_for_each.
Print Assumptions C07_vm_reference_sharing.
Print Assumptions C07_vm_tables_wf_preserved.

(* the empty heap of a fresh VM satisfies the invariant *)
Theorem C07_vm_tables_wf_initial : forall F, tables_wf F (st_heap fresh_state).
Proof. exact vm_tables_wf_initial. Qed.
Print Assumptions C07_vm_tables_wf_initial.

(* ---- examples (vm_compute) ---- *)
Definition C07_F0 : fops :=
  mkFops (fun _ _ => 0%N) (fun _ _ => 0%N) (fun _ _ => 0%N) (fun _ _ => 0%N)
         (fun x y => if N.eqb x y then Some Eq else Some Lt) (fun _ => 0%N) (fun _ => 0%Z).
(* two string objects with the text "a" and one with "b" *)
Definition C07_h0 : heap := [OStr [97%N]; OStr [97%N]; OStr [98%N]].

(* set "a" := 1; append 2 (key 1); set 2 := 3; append 4 (key 3); set "a" := 9 through ANOTHER string object
   with the same text (replaced in place); pop (returns 4, removes key 3); append 5 (key 3 again);
   then iterate, read "b" (absent -> None) and read key 3 *)
Example C07_vm_nonvacuous_table :
  let eq := veq0 C07_F0 C07_h0 in
  match tinsert eq (mkTable [] []) (VObj 0%N) (VInt 1) with
  | Some t1 =>
    match tappend eq t1 (VInt 2) with
    | TOk t2 =>
      match tinsert eq t2 (VInt 2) (VInt 3) with
      | Some t3 =>
        match tappend eq t3 (VInt 4) with
        | TOk t4 =>
          match tinsert eq t4 (VObj 1%N) (VInt 9) with
          | Some t5 =>
            match tpop eq t5 with
            | Some (t6, popped) =>
              match tappend eq t6 (VInt 5) with
              | TOk t7 => Some (popped, titer eq t7, tget eq t7 (VObj 2%N), tget eq t7 (VInt 3), tkeys t7)
              | _ => None
              end
            | None => None
            end
          | None => None
          end
        | _ => None
        end
      | None => None
      end
    | _ => None
    end
  | None => None
  end
  = Some (VInt 4,
          Some [(VObj 0%N, VInt 9); (VInt 1, VInt 2); (VInt 2, VInt 3); (VInt 3, VInt 5)],
          Some None, Some (Some (VInt 5)),
          [VObj 0%N; VInt 1; VInt 2; VInt 3]).
Proof. vm_compute. reflexivity. Qed.

(* SetProperty through one copy of a table reference, GetProperty through another copy (a global would do the
   same: both are the value VObj 1): code = [SetProperty; GetProperty], heap = ["k", {}] *)
Definition C07_prog : program := mkProgram [33%N; 32%N] [] [] [] [] [].
Definition C07_push (l : list value) (s : state) : state :=
  fold_left (fun x v => match spush x v with Some y => y | None => x end) l s.
Definition C07_s0 : state :=
  C07_push [VInt 7; VObj 1%N; VObj 0%N] (set_heap fresh_state [OStr [107%N]; OTable (mkTable [] [])]).
Example C07_vm_nonvacuous_sharing :
  match step C07_F0 Debug C07_prog no_reenter 0 C07_s0 with
  | SNext ip1 s1 =>
      match step C07_F0 Debug C07_prog no_reenter ip1 (C07_push [VObj 1%N; VObj 0%N] s1) with
      | SNext ip2 s2 => Some (ip1, hget (st_heap s1) 1%N, stack_of s1, ip2, stack_of s2)
      | _ => None
      end
  | _ => None
  end
  = Some (1%N, Some (OTable (mkTable [(VObj 0%N, VInt 7)] [VObj 0%N])), [], 2%N, [VInt 7]).
Proof. vm_compute. reflexivity. Qed.

Example C07_vm_nonvacuous_wf :
  twf (veq0 C07_F0 C07_h0) (vkey C07_F0 C07_h0) (mkTable [(VObj 0%N, VInt 9); (VInt 1, VInt 2)] [VObj 0%N; VInt 1]).
Proof.
  split; [reflexivity|]. split.
  - repeat constructor.
  - cbn [kdistinct]. repeat constructor.
Qed.
