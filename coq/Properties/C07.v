(* C07 — tables are insertion-ordered maps keyed by value.  Statements only; proofs in
   Cao.TableProofs (the table object of Table.v; the hash part of a table is the abstract map licensed by the
   C12 theorems) and in Cao.VmTableProofs / VmTableKeys / VmTableInstr / VmTableNatives (the table
   representation of the VM model Vm.v, the table instructions, reference sharing, preservation of the
   table invariant by every instruction and native; VmTableRun: the invariant over whole runs, nested runs
   included, the user's view of a table in the final state, NaN keys): the C07_vm_* theorems below.

   Proved at run level (section 5 below): on every run of the VM - arbitrary bytecode, budget, build, start
   state with the invariant, any nesting depth of run_function re-entry - on which no executed SetProperty has
   a key outside the key domain, every state the dispatch loops pass through and the final state satisfy the
   table invariant; in the final state of a run from a new VM every table iterates its entries once per key
   value in key-vector order and reads through any key with an equal value find the stored value.  The side
   condition is stated through the key-checked VM (run_k: the VM with that one run-time check; it satisfies
   the invariant unconditionally, and a run on which the check never fails IS the key-checked run).
   Still open: table-valued keys (compared by content, mutable: no invariant of this shape survives them) and
   dangling addresses as keys; for NaN keys only the behaviour of the table operations is described
   (C07_vm_nan_key_table, C07_vm_set_property_nan), not a weaker invariant that runs with NaN keys preserve;
   the legacy budget rule (run_legacy); the states of a run's nested runs are covered by two theorems together
   (C07_vm_nested_runs_entered_with_invariant: natives enter nested runs only in states with the invariant;
   C07_vm_tables_wf_nested_run: a run entered in such a state passes only through such states), not by one list
   of all states of all nesting levels; states INSIDE a native between two nested runs are covered by the native
   lemmas of VmTableNatives only. *)
From Coq Require Import Arith NArith ZArith List Bool.
Import ListNotations.
From Cao Require Import Table TableProofs.
From Cao Require Import ListUtil Bits Stacks Vm VmProofs C04VmProofs VmTableProofs VmTableKeys VmTableInstr VmTableNatives VmTableRun VmTableRunOnly.

(* every history of insert / remove / append / pop / get / nth-key / len / iterate / keys on a table
   that starts empty gives exactly the results of the insertion-ordered association list
   [s_run]; the append search always terminates *)
Theorem C07_table_refines :
  forall (V : Type) (vnil : V) (ops : list (tbop V)),
    let '(t', xs) := tb_run vnil (t_empty V) ops in
    let '(s', ys) := s_run vnil [] ops in
    xs = ys /\ R t' s' /\ Forall (fun x => x <> XDiverge V) xs.
Proof. intros. apply tb_run_refines. apply R_empty. Qed.
Print Assumptions C07_table_refines.

(* what the specification itself says about append and keys (so that it can be read off) *)
Theorem C07_append_key_least :
  forall (V : Type) (s : otable V) i, s_append_key s = Some i ->
    (Z.of_nat (length s) <= i)%Z /\ m_get s (KInt i) = None /\
    forall j, (Z.of_nat (length s) <= j < i)%Z -> m_get s (KInt j) <> None.
Proof. intros V. exact (@append_key_least V). Qed.
Print Assumptions C07_append_key_least.

Theorem C07_set_then_get :
  forall (V : Type) (m : amap V) k v k',
    m_get (m_set m k v) k' = if tkey_eqb k' k then Some v else m_get m k'.
Proof. intros V. exact (@m_get_set V). Qed.
Print Assumptions C07_set_then_get.

Theorem C07_key_equality_is_value_equality : forall a b, reflect (a = b) (tkey_eqb a b).
Proof. exact tkey_eqb_spec. Qed.
Print Assumptions C07_key_equality_is_value_equality.

Example C07_nonvacuous :
  snd (s_run None [] [OInsert (KStr [97%N]) (Some 1%Z); OAppend (Some 2%Z); OInsert (KInt 2%Z) (Some 3%Z);
                      OAppend (Some 4%Z); @OPop _; OAppend (Some 5%Z); @OIter _; @OGet _ (KInt 3%Z)])
  = [XUnit _; XUnit _; XUnit _; XUnit _; XVal (Some 4%Z); XUnit _;
     XIter [(KStr [97%N], Some 1%Z); (KInt 1%Z, Some 2%Z); (KInt 2%Z, Some 3%Z); (KInt 3%Z, Some 5%Z)];
     XOptV (Some (Some 5%Z))].
Proof. vm_compute. reflexivity. Qed.


(* ====================================================================================================== *)
(* The VM model (Vm.v): [table] = map part [tmap] + key vector [tkeys]; values refer to tables by address.  *)
(* ====================================================================================================== *)

(* Vocabulary (VmTableProofs.v, VmTableKeys.v):
     kb eq stored probe   the map part's key test: equal hash (bit-equal reals) and ==, as a boolean
     eb eq stored key     plain ==, the test of `keys.retain(|k| k != key)` in CaoLangTable::remove
     twf eq D t           map fst (tmap t) = tkeys t  (the two parts are aligned entry by entry),
                          every key lies in the key domain D, no key is matched (kb) by a key stored before it
     tabs t               the entries in the order of the key vector (= tmap t, see C07_vm_table_object: its keys
                          are tkeys t and iteration yields it)
     al_get / al_set / al_remove / al_pop   the ordered association list: first match / replace the first
                          match in place, else append / delete the ==-matching entries / drop the last entry
     vkey F h k           the key domain of the VM: nil, integers, reals with r == r (not NaN), addresses of live
                          objects that are not tables (strings by content, functions, closures)
     hext h h'            heap growth: live cells stay live and keep their kind (strings their content)
     tables_wf F h        every table of heap h satisfies twf with the heap's own == (veq0 F h) and key domain
     stack_is c k l       k is a value stack of capacity c whose live part is l (top = last element)           *)

(* 1. The table object, for ANY key equality [eq] that answers on the key domain D and is reflexive there
      (symmetry and transitivity are not needed: the invariant is about ordered pairs).  Each operation keeps
      the invariant and acts on [tabs] as the ordered association list does. *)
Theorem C07_vm_table_object :
  forall (eq : eqfun) (D : value -> Prop),
    (forall a b, D a -> D b -> eq a b <> None) ->
    (forall a, D a -> kb eq a a = true) ->
    forall t, twf eq D t ->
      map fst (tabs t) = tkeys t /\ length (tkeys t) = length (tabs t) /\
      titer eq t = Some (tabs t) /\
      (forall i, tnth_key t i = nth i (map fst (tabs t)) VNil) /\
      (forall k, D k -> tget eq t k = Some (al_get eq k (tabs t))) /\
      (forall k v, D k -> exists t', tinsert eq t k v = Some t' /\ twf eq D t' /\
                                      tabs t' = al_set eq k v (tabs t)) /\
      (forall k, D k -> exists t', tremove eq t k = Some t' /\ twf eq D t' /\
                                    tabs t' = al_remove eq k (tabs t)) /\
      (exists t', tpop eq t = Some (t', snd (al_pop (tabs t))) /\ twf eq D t' /\
                  tabs t' = fst (al_pop (tabs t))).
Proof. exact vm_table_object. Qed.
Print Assumptions C07_vm_table_object.

(* what al_set does: a present key keeps its place (the key sequence is unchanged), an absent key goes to the
   end; a read through the written key returns the written value *)
Theorem C07_vm_set_in_place_or_append :
  forall (eq : eqfun) k v m,
    (al_get eq k m <> None -> map fst (al_set eq k v m) = map fst m) /\
    (al_get eq k m = None -> al_set eq k v m = m ++ [(k, v)]) /\
    (kb eq k k = true -> al_get eq k (al_set eq k v m) = Some v).
Proof. exact vm_set_in_place_or_append. Qed.
Print Assumptions C07_vm_set_in_place_or_append.

(* set-then-get through ANY key of the domain, when the key test is an equivalence there (for the VM's == this
   is the case on nil, integers, strings by content, functions; for reals it is the symmetry and transitivity
   of the float instance's comparison, which the generic model does not fix) *)
Theorem C07_vm_set_then_get :
  forall (eq : eqfun) (D : value -> Prop),
    (forall a, D a -> kb eq a a = true) ->
    (forall a b, D a -> D b -> kb eq a b = true -> kb eq b a = true) ->
    (forall a b c, D a -> D b -> D c -> kb eq a b = true -> kb eq b c = true -> kb eq a c = true) ->
    forall m k v k2, Forall D (map fst m) -> D k -> D k2 ->
      al_get eq k2 (al_set eq k v m) = if kb eq k k2 then Some v else al_get eq k2 m.
Proof. exact al_get_set_law. Qed.
Print Assumptions C07_vm_set_then_get.

(* append: never runs out of probes (pigeonhole over the aligned parts) and stores the value at the end under
   the least integer key >= the number of entries that is not a key of the table *)
Theorem C07_vm_table_append :
  forall (eq : eqfun) (D : value -> Prop),
    (forall a b, D a -> D b -> eq a b <> None) ->
    (forall i, D (VInt i)) ->
    (forall a i, D a -> kb eq a (VInt i) = true -> a = VInt i) ->
    forall t v, twf eq D t ->
      exists t' j, tappend eq t v = TOk t' /\ twf eq D t' /\ tabs t' = tabs t ++ [(VInt j, v)] /\
        (Z.of_nat (length (tabs t)) <= j)%Z /\ al_get eq (VInt j) (tabs t) = None /\
        forall x, (Z.of_nat (length (tabs t)) <= x < j)%Z -> al_get eq (VInt x) (tabs t) <> None.
Proof. exact vm_table_append. Qed.
Print Assumptions C07_vm_table_append.

(* 2. The VM's == (veq0 F h, any float instance F) on the key domain vkey F h satisfies these hypotheses, and
      neither == on keys of the domain nor the invariant of a table changes when the heap grows. *)
Theorem C07_vm_key_equality :
  forall (F : fops) (h : heap),
    (forall a b, vkey F h a -> vkey F h b -> veq0 F h a b <> None) /\
    (forall a, vkey F h a -> kb (veq0 F h) a a = true) /\
    (forall i, vkey F h (VInt i)) /\
    (forall a i, vkey F h a -> kb (veq0 F h) a (VInt i) = true -> a = VInt i) /\
    (forall h' a b, hext h h' -> vkey F h a -> vkey F h b ->
                    vkey F h' a /\ veq0 F h' a b = veq0 F h a b) /\
    (forall h' t, hext h h' -> twf (veq0 F h) (vkey F h) t -> twf (veq0 F h') (vkey F h') t).
Proof. exact vm_key_equality. Qed.
Print Assumptions C07_vm_key_equality.

(* 3. The table instructions.  The result state is the old state with heap cell [a] replaced (set_table) and the
      value stack replaced by one whose live part is given (set_stack): frames, globals, upvalue list, log,
      counters and every other heap cell are unchanged by construction.  A non-table operand is the error value
      InvalidArgument: C04VmProofs.get_property_wrong_type, set_property_wrong_type, append_table_wrong_type,
      pop_table_wrong_type (property C04). *)
Section C07_instructions.
Variables (F : fops) (bld : build) (P : program) (reenter : N -> state -> rres).
Notation veq := (veq0 F).
Notation dom := (vkey F).
Notation STEP := (step F bld P reenter).

Theorem C07_vm_init_table : forall ip0 s,
  opcode_at P ip0 = 31%N -> stack_ok s -> S (length (stack_of s)) < cap s ->
  exists k,
    STEP ip0 s = SNext (ip0 + 1) (set_stack (set_heap s (st_heap s ++ [OTable (mkTable [] [])])) k) /\
    stack_is (cap s) k (stack_of s ++ [VObj (N.of_nat (length (st_heap s)))]).
Proof. exact (step_init_table F bld P reenter). Qed.

Theorem C07_vm_get_property : forall ip0 s l a key t,
  opcode_at P ip0 = 32%N -> stack_ok s -> stack_of s = l ++ [VObj a; key] ->
  hget (st_heap s) a = Some (OTable t) ->
  twf (veq (st_heap s)) (dom (st_heap s)) t -> dom (st_heap s) key ->
  exists k,
    STEP ip0 s = SNext (ip0 + 1) (set_stack s k) /\
    stack_is (cap s) k (l ++ [match al_get (veq (st_heap s)) key (tabs t) with Some v => v | None => VNil end]).
Proof. exact (step_get_property F bld P reenter). Qed.

Theorem C07_vm_set_property : forall ip0 s l a key v t,
  opcode_at P ip0 = 33%N -> stack_ok s -> stack_of s = l ++ [v; VObj a; key] ->
  hget (st_heap s) a = Some (OTable t) ->
  twf (veq (st_heap s)) (dom (st_heap s)) t -> dom (st_heap s) key ->
  exists t' k,
    STEP ip0 s = SNext (ip0 + 1) (set_stack (set_table s a t') k) /\
    stack_is (cap s) k l /\
    twf (veq (st_heap s)) (dom (st_heap s)) t' /\ tabs t' = al_set (veq (st_heap s)) key v (tabs t).
Proof. exact (step_set_property F bld P reenter). Qed.

Theorem C07_vm_len : forall ip0 s l a t,
  opcode_at P ip0 = 34%N -> stack_ok s -> stack_of s = l ++ [VObj a] ->
  hget (st_heap s) a = Some (OTable t) -> twf (veq (st_heap s)) (dom (st_heap s)) t ->
  exists k,
    STEP ip0 s = SNext (ip0 + 1) (set_stack s k) /\
    stack_is (cap s) k (l ++ [VInt (Z.of_nat (length (tabs t)))]).
Proof. exact (step_len F bld P reenter). Qed.

Theorem C07_vm_append_table : forall ip0 s l a v t,
  opcode_at P ip0 = 40%N -> stack_ok s -> stack_of s = l ++ [v; VObj a] ->
  hget (st_heap s) a = Some (OTable t) -> twf (veq (st_heap s)) (dom (st_heap s)) t ->
  exists t' j k,
    STEP ip0 s = SNext (ip0 + 1) (set_stack (set_table s a t') k) /\
    stack_is (cap s) k l /\
    twf (veq (st_heap s)) (dom (st_heap s)) t' /\
    al_append_key (veq (st_heap s)) (tabs t) j /\ tabs t' = tabs t ++ [(VInt j, v)].
Proof. exact (step_append_table F bld P reenter). Qed.

Theorem C07_vm_pop_table : forall ip0 s l a t,
  opcode_at P ip0 = 41%N -> stack_ok s -> stack_of s = l ++ [VObj a] ->
  hget (st_heap s) a = Some (OTable t) -> twf (veq (st_heap s)) (dom (st_heap s)) t ->
  exists t' k,
    STEP ip0 s = SNext (ip0 + 1) (set_stack (set_table s a t') k) /\
    stack_is (cap s) k (l ++ [snd (al_pop (tabs t))]) /\
    twf (veq (st_heap s)) (dom (st_heap s)) t' /\ tabs t' = fst (al_pop (tabs t)).
Proof. exact (step_pop_table F bld P reenter). Qed.

(* NthRow: the row object {"key": k, "value": v} of the i-th entry in order, (nil, nil) beyond the end; three
   fresh cells (the row table and its two key strings) are appended to the heap *)
Theorem C07_vm_nth_row : forall ip0 s l a i t,
  opcode_at P ip0 = 39%N -> stack_ok s -> stack_of s = l ++ [VObj a; VInt i] -> (0 <= i)%Z ->
  hget (st_heap s) a = Some (OTable t) -> twf (veq (st_heap s)) (dom (st_heap s)) t ->
  let e := nth (Z.to_nat i) (tabs t) (VNil, VNil) in
  exists k,
    STEP ip0 s = SNext (ip0 + 1)
                   (set_stack (set_heap s (st_heap s ++ row_cells (length (st_heap s)) (fst e) (snd e))) k) /\
    stack_is (cap s) k (l ++ [VObj (N.of_nat (length (st_heap s)))]).
Proof. exact (step_nth_row F bld P reenter). Qed.

(* ForEach: round i of the loop reads the i-th entry in order and commits (value, key, i, i+1) to the loop's
   locals, pushing `true`; at i >= len it pushes `false`.  A loop over a table that is not modified meanwhile
   therefore visits the entries of [tabs] exactly once each, in order. *)
Theorem C07_vm_for_each : forall ip0 s lv t_h i_h k_h v_h off i a t,
  opcode_at P ip0 = 36%N ->
  op_u32 P (ip0 + 1) = Some lv -> op_u32 P (ip0 + 1 + 4) = Some t_h -> op_u32 P (ip0 + 1 + 8) = Some i_h ->
  op_u32 P (ip0 + 1 + 12) = Some k_h -> op_u32 P (ip0 + 1 + 16) = Some v_h ->
  top_offset s = Some off ->
  to_i64 F (st_heap s) (sget s (off + N.to_nat lv)) = Some i -> (0 <= i)%Z ->
  sget s (off + N.to_nat t_h) = VObj a ->
  hget (st_heap s) a = Some (OTable t) -> twf (veq (st_heap s)) (dom (st_heap s)) t ->
  let e := nth (Z.to_nat i) (tabs t) (VNil, VNil) in
  STEP ip0 s = if (i <? Z.of_nat (length (tabs t)))%Z
               then foreach_commit (ip0 + 1 + 20) s off lv i_h k_h v_h i (fst e) (snd e)
               else push_next (ip0 + 1 + 20) s (vbool false).
Proof. exact (step_for_each F bld P reenter). Qed.

(* Reference sharing.  SetProperty through one copy of the reference [VObj a] (key [key], value [v]); then any
   instructions that leave the heap alone (the reference copied through locals, globals, upvalues, the stack):
   s2 is any state with the heap SetProperty left.  GetProperty through [VObj a] with that key returns v;
   GetProperty through another address b returns exactly what it returned before the write. *)
Theorem C07_vm_reference_sharing : forall ip0 s l a key v t s1,
  opcode_at P ip0 = 33%N -> stack_ok s -> stack_of s = l ++ [v; VObj a; key] ->
  hget (st_heap s) a = Some (OTable t) ->
  twf (veq (st_heap s)) (dom (st_heap s)) t -> dom (st_heap s) key ->
  STEP ip0 s = SNext (ip0 + 1) s1 ->
  forall ip2 s2 l2, opcode_at P ip2 = 32%N -> stack_ok s2 -> st_heap s2 = st_heap s1 ->
    (stack_of s2 = l2 ++ [VObj a; key] ->
     exists k, STEP ip2 s2 = SNext (ip2 + 1) (set_stack s2 k) /\ stack_is (cap s2) k (l2 ++ [v])) /\
    (forall b u key', b <> a -> hget (st_heap s) b = Some (OTable u) ->
       twf (veq (st_heap s)) (dom (st_heap s)) u -> dom (st_heap s) key' ->
       stack_of s2 = l2 ++ [VObj b; key'] ->
       exists k, STEP ip2 s2 = SNext (ip2 + 1) (set_stack s2 k) /\
                 stack_is (cap s2) k
                   (l2 ++ [match al_get (veq (st_heap s)) key' (tabs u) with Some x => x | None => VNil end])).
Proof. exact (vm_reference_sharing F bld P reenter). Qed.

(* 4. Every instruction - all 47 opcodes, the host menu natives and the stdlib natives min / max / sort /
      to_array included - keeps the invariant of every table of the heap, whatever the outcome (next state,
      exit, error value, abort), and live cells stay live and keep their kind.  Hypotheses: (a) the key of a
      SetProperty lies in the key domain (a NaN key, a table used as a key or a dangling address would break
      the alignment of the two parts / the distinctness of the keys); (b) the nested runs that natives start
      ([reenter]) keep the invariant - the same statement one nesting level down. *)
Theorem C07_vm_tables_wf_preserved :
  (forall ip x, tables_wf F (st_heap x) ->
     hext (st_heap x) (st_heap (rres_state (reenter ip x))) /\ tables_wf F (st_heap (rres_state (reenter ip x)))) ->
  forall ip0 s,
    tables_wf F (st_heap s) ->
    (opcode_at P ip0 = 33%N -> dom (st_heap s) (speek s 0)) ->
    hext (st_heap s) (st_heap (sres_state (STEP ip0 s))) /\ tables_wf F (st_heap (sres_state (STEP ip0 s))).
Proof. exact (step_tables_wf F bld P reenter). Qed.

End C07_instructions.
Print Assumptions C07_vm_init_table.
Print Assumptions C07_vm_get_property.
Print Assumptions C07_vm_set_property.
Print Assumptions C07_vm_len.
Print Assumptions C07_vm_append_table.
Print Assumptions C07_vm_pop_table.
Print Assumptions C07_vm_nth_row.
Print Assumptions C07_vm_for_each.
Print Assumptions C07_vm_reference_sharing.
Print Assumptions C07_vm_tables_wf_preserved.

(* the empty heap of a fresh VM satisfies the invariant *)
Theorem C07_vm_tables_wf_initial : forall F, tables_wf F (st_heap fresh_state).
Proof. exact vm_tables_wf_initial. Qed.
Print Assumptions C07_vm_tables_wf_initial.

(* ---- examples (vm_compute) ---- *)
Definition C07_F0 : fops :=
  mkFops (fun _ _ => 0%N) (fun _ _ => 0%N) (fun _ _ => 0%N) (fun _ _ => 0%N)
         (fun x y => if N.eqb x y then Some Eq else Some Lt) (fun _ => 0%N) (fun _ => 0%Z).
(* two string objects with the text "a" and one with "b" *)
Definition C07_h0 : heap := [OStr [97%N]; OStr [97%N]; OStr [98%N]].

(* set "a" := 1; append 2 (key 1); set 2 := 3; append 4 (key 3); set "a" := 9 through ANOTHER string object
   with the same text (replaced in place); pop (returns 4, removes key 3); append 5 (key 3 again);
   then iterate, read "b" (absent -> None) and read key 3 *)
Example C07_vm_nonvacuous_table :
  let eq := veq0 C07_F0 C07_h0 in
  match tinsert eq (mkTable [] []) (VObj 0%N) (VInt 1) with
  | Some t1 =>
    match tappend eq t1 (VInt 2) with
    | TOk t2 =>
      match tinsert eq t2 (VInt 2) (VInt 3) with
      | Some t3 =>
        match tappend eq t3 (VInt 4) with
        | TOk t4 =>
          match tinsert eq t4 (VObj 1%N) (VInt 9) with
          | Some t5 =>
            match tpop eq t5 with
            | Some (t6, popped) =>
              match tappend eq t6 (VInt 5) with
              | TOk t7 => Some (popped, titer eq t7, tget eq t7 (VObj 2%N), tget eq t7 (VInt 3), tkeys t7)
              | _ => None
              end
            | None => None
            end
          | None => None
          end
        | _ => None
        end
      | None => None
      end
    | _ => None
    end
  | None => None
  end
  = Some (VInt 4,
          Some [(VObj 0%N, VInt 9); (VInt 1, VInt 2); (VInt 2, VInt 3); (VInt 3, VInt 5)],
          Some None, Some (Some (VInt 5)),
          [VObj 0%N; VInt 1; VInt 2; VInt 3]).
Proof. vm_compute. reflexivity. Qed.

(* SetProperty through one copy of a table reference, GetProperty through another copy (a global would do the
   same: both are the value VObj 1): code = [SetProperty; GetProperty], heap = ["k", {}] *)
Definition C07_prog : program := mkProgram [33%N; 32%N] [] [] [] [] [].
Definition C07_push (l : list value) (s : state) : state :=
  fold_left (fun x v => match spush x v with Some y => y | None => x end) l s.
Definition C07_s0 : state :=
  C07_push [VInt 7; VObj 1%N; VObj 0%N] (set_heap fresh_state [OStr [107%N]; OTable (mkTable [] [])]).
Example C07_vm_nonvacuous_sharing :
  match step C07_F0 Debug C07_prog no_reenter 0 C07_s0 with
  | SNext ip1 s1 =>
      match step C07_F0 Debug C07_prog no_reenter ip1 (C07_push [VObj 1%N; VObj 0%N] s1) with
      | SNext ip2 s2 => Some (ip1, hget (st_heap s1) 1%N, stack_of s1, ip2, stack_of s2)
      | _ => None
      end
  | _ => None
  end
  = Some (1%N, Some (OTable (mkTable [(VObj 0%N, VInt 7)] [VObj 0%N])), [], 2%N, [VInt 7]).
Proof. vm_compute. reflexivity. Qed.

Example C07_vm_nonvacuous_wf :
  twf (veq0 C07_F0 C07_h0) (vkey C07_F0 C07_h0) (mkTable [(VObj 0%N, VInt 9); (VInt 1, VInt 2)] [VObj 0%N; VInt 1]).
Proof.
  split; [reflexivity|]. split.
  - repeat constructor.
  - cbn [kdistinct]. repeat constructor.
Qed.


(* ====================================================================================================== *)
(* 5. Whole runs, nested runs included (VmTableRun.v)                                                       *)
(* ====================================================================================================== *)

(* Vocabulary:
     step_k / loop_k / run_at_k / run_k   the KEY-CHECKED VM: Vm.step / loop / run_at (current budget rule) / run
                          with one run-time check - a SetProperty whose key (top of the value stack) is outside the
                          key domain vkey stops the run with the outcome AUnmodelled, which Vm.run never produces;
                          the nested runs natives start from a key-checked run are key-checked runs
     loop_states P stp fuel ip s          the states in which the dispatch loop of Vm.loop (step function stp)
                          dispatches an instruction, in order, then the state it ends in
     run_at_states F bld P mi d ip s      = loop_states of the run  run_at .. (S d) ip s  (its nested runs are runs
                          run_at .. (S d') .. with d' < d, to which the same theorem applies)
     run_states F bld P budget s          = run_at_states of Vm.run's top-level loop (after the entry frame is pushed)
     key_value h k        the value a key stands for: nil / the integer / the bit pattern of the real / the TEXT of
                          the string / handle and arity of a function / handle of a native / the identity of a
                          closure or upvalue cell *)

(* the key-checked VM keeps the invariant unconditionally: any bytecode, build, nesting depth, start address and
   start state; the heap only grows; every state passed through is covered *)
Theorem C07_vm_key_checked_run_tables_wf : forall F bld P d ip s,
  tables_wf F (st_heap s) ->
  hext (st_heap s) (st_heap (rres_state (run_at_k F bld P (S d) ip s))) /\
  tables_wf F (st_heap (rres_state (run_at_k F bld P (S d) ip s))) /\
  Forall (fun x => hext (st_heap s) (st_heap x) /\ tables_wf F (st_heap x))
         (loop_states P (step_k F bld P (run_at_k F bld P d)) (N.to_nat (st_rem s)) ip s).
Proof. exact run_at_k_wf. Qed.
Print Assumptions C07_vm_key_checked_run_tables_wf.

(* a run of the VM on which the check never fails IS the key-checked run *)
Theorem C07_vm_run_agrees_key_checked : forall F bld P budget s,
  fst (run_k F bld P budget s) <> OAbort AUnmodelled ->
  run F bld budget P s = run_k F bld P budget s.
Proof. exact run_agrees_k. Qed.
Print Assumptions C07_vm_run_agrees_key_checked.

(* Vm.run: final state and every state the top-level loop passes through *)
Theorem C07_vm_tables_wf_run : forall F bld P budget s,
  tables_wf F (st_heap s) ->
  fst (run_k F bld P budget s) <> OAbort AUnmodelled ->
  hext (st_heap s) (st_heap (snd (run F bld budget P s))) /\
  tables_wf F (st_heap (snd (run F bld budget P s))) /\
  Forall (fun x => hext (st_heap s) (st_heap x) /\ tables_wf F (st_heap x)) (run_states F bld P budget s).
Proof. exact run_tables_wf. Qed.
Print Assumptions C07_vm_tables_wf_run.

(* the same for a run at ANY nesting depth, entered at any address from any state with the invariant (this is
   what run_function starts: reenter = run_at .. d); [mi] is the legacy parameter, unused by the current rule *)
Theorem C07_vm_tables_wf_nested_run : forall F bld P mi d ip s,
  tables_wf F (st_heap s) ->
  (forall x, run_at_k F bld P (S d) ip s <> RStop AUnmodelled x) ->
  hext (st_heap s) (st_heap (rres_state (run_at F bld P false mi (S d) ip s))) /\
  tables_wf F (st_heap (rres_state (run_at F bld P false mi (S d) ip s))) /\
  Forall (fun x => hext (st_heap s) (st_heap x) /\ tables_wf F (st_heap x)) (run_at_states F bld P mi d ip s) /\
  last (run_at_states F bld P mi d ip s) s = rres_state (run_at F bld P false mi (S d) ip s).
Proof. exact run_at_tables_wf_nested. Qed.
Print Assumptions C07_vm_tables_wf_nested_run.

(* insertion order along a run: in every state the run passes through, a SetProperty with a key of the domain on
   a table of the heap is al_set - value replaced in place when the key is present, entry appended otherwise *)
Theorem C07_vm_run_set_property_in_order : forall F bld P budget s,
  tables_wf F (st_heap s) -> fst (run_k F bld P budget s) <> OAbort AUnmodelled ->
  Forall (fun x =>
    forall reenter ip0 l a key v t,
      opcode_at P ip0 = 33%N -> stack_ok x -> stack_of x = l ++ [v; VObj a; key] ->
      hget (st_heap x) a = Some (OTable t) -> vkey F (st_heap x) key ->
      exists t' k,
        step F bld P reenter ip0 x = SNext (ip0 + 1) (set_stack (set_table x a t') k) /\
        stack_is (cap x) k l /\
        twf (veq0 F (st_heap x)) (vkey F (st_heap x)) t' /\
        tabs t' = al_set (veq0 F (st_heap x)) key v (tabs t))
    (run_states F bld P budget s).
Proof. exact run_set_property_in_order. Qed.
Print Assumptions C07_vm_run_set_property_in_order.

(* nested runs are entered only in states with the invariant: when the state of an instruction has it and the
   nested run keeps it (the contract, proved for run_at_k at every depth by C07_vm_key_checked_run_tables_wf and
   for run_at on runs without a failed check by C07_vm_tables_wf_nested_run), the result of the instruction -
   whatever natives it calls, however often they re-enter - does not depend on what the nested run does on states
   WITHOUT the invariant.  So the runs that natives start are covered by C07_vm_tables_wf_nested_run. *)
Theorem C07_vm_nested_runs_entered_with_invariant : forall F bld P (re re' : N -> state -> rres),
  (forall ip s, tables_wf F (st_heap s) -> re ip s = re' ip s) ->
  (forall ip s, tables_wf F (st_heap s) ->
     hext (st_heap s) (st_heap (rres_state (re' ip s))) /\ tables_wf F (st_heap (rres_state (re' ip s)))) ->
  forall ip0 s, tables_wf F (st_heap s) -> step F bld P re ip0 s = step F bld P re' ip0 s.
Proof. exact step_reenter_only_wf. Qed.
Print Assumptions C07_vm_nested_runs_entered_with_invariant.
(* its hypotheses hold for the nested runs of the key-checked VM *)
Example C07_vm_nested_contract_nonvacuous : forall F bld P d ip s,
  tables_wf F (st_heap s) ->
  run_at_k F bld P d ip s = run_at_k F bld P d ip s /\
  hext (st_heap s) (st_heap (rres_state (run_at_k F bld P d ip s))) /\
  tables_wf F (st_heap (rres_state (run_at_k F bld P d ip s))).
Proof. intros F bld P d ip s W. split; [reflexivity|]. exact (run_at_k_contract F bld P d ip s W). Qed.

(* keyed by value: on the key domain the map part's key test is equality of key values (strings by content) *)
Theorem C07_vm_key_is_value : forall F h a b, vkey F h a -> vkey F h b ->
  (kb (veq0 F h) a b = true <-> key_value h a = key_value h b).
Proof. exact kb_is_value_equality. Qed.
Print Assumptions C07_vm_key_is_value.

(* a table with the invariant as its user sees it: iteration yields the entries in key-vector order, one per key
   value; a read through ANY key with the value of a stored key returns the value stored under it; a read
   through a key with another value finds nothing *)
Theorem C07_vm_table_user_view : forall F h t, twf (veq0 F h) (vkey F h) t ->
  titer (veq0 F h) t = Some (tabs t) /\
  map fst (tabs t) = tkeys t /\
  NoDup (map (key_value h) (tkeys t)) /\
  (forall k v k2, In (k, v) (tabs t) -> vkey F h k2 -> key_value h k2 = key_value h k ->
                  tget (veq0 F h) t k2 = Some (Some v)) /\
  (forall k2, vkey F h k2 -> ~ In (key_value h k2) (map (key_value h) (tkeys t)) ->
              tget (veq0 F h) t k2 = Some None).
Proof. exact twf_user_view. Qed.
Print Assumptions C07_vm_table_user_view.

(* ... and every table object in the final state of a run from a new VM is such a table *)
Theorem C07_vm_run_fresh_user_view : forall F bld P budget,
  fst (run_k F bld P budget fresh_state) <> OAbort AUnmodelled ->
  let h := st_heap (snd (run F bld budget P fresh_state)) in
  forall a t, hget h a = Some (OTable t) ->
    titer (veq0 F h) t = Some (tabs t) /\
    map fst (tabs t) = tkeys t /\
    NoDup (map (key_value h) (tkeys t)) /\
    (forall k v k2, In (k, v) (tabs t) -> vkey F h k2 -> key_value h k2 = key_value h k ->
                    tget (veq0 F h) t k2 = Some (Some v)) /\
    (forall k2, vkey F h k2 -> ~ In (key_value h k2) (map (key_value h) (tkeys t)) ->
                tget (veq0 F h) t k2 = Some None).
Proof. exact run_fresh_tables_user_view. Qed.
Print Assumptions C07_vm_run_fresh_user_view.

(* 6. NaN keys (outside the key domain).  A real r with r != r matches no stored key, itself included: on EVERY
      table insert adds a new row to both parts each time, get finds nothing, pop of such a last key shortens the
      key vector and leaves the row in the map part; on a table with the invariant the new row is invisible to
      iteration but counted by len, and the invariant is lost. *)
Theorem C07_vm_nan_key_table : forall F h r, f_cmp F r r <> Some Eq ->
  (forall t v, tinsert (veq0 F h) t (VReal r) v
               = Some (mkTable (tmap t ++ [(VReal r, v)]) (tkeys t ++ [VReal r]))) /\
  (forall t, tget (veq0 F h) t (VReal r) = Some None) /\
  (forall t ks, tkeys t = ks ++ [VReal r] -> tpop (veq0 F h) t = Some (mkTable (tmap t) ks, VNil)) /\
  (forall t v, twf (veq0 F h) (vkey F h) t ->
     let t' := mkTable (tmap t ++ [(VReal r, v)]) (tkeys t ++ [VReal r]) in
     titer (veq0 F h) t' = Some (tabs t) /\ length (tkeys t') = S (length (tabs t)) /\
     ~ twf (veq0 F h) (vkey F h) t').
Proof.
  intros F h r Hn. split; [exact (nan_key_insert F h r Hn)|]. split; [exact (nan_key_get F h r Hn)|].
  split; [exact (nan_key_pop F h r Hn) | exact (nan_key_row_invisible F h r Hn)].
Qed.
Print Assumptions C07_vm_nan_key_table.

Theorem C07_vm_set_property_nan : forall F bld P reenter ip0 s l a r v t,
  opcode_at P ip0 = 33%N -> stack_ok s -> stack_of s = l ++ [v; VObj a; VReal r] ->
  hget (st_heap s) a = Some (OTable t) -> f_cmp F r r <> Some Eq ->
  exists k,
    step F bld P reenter ip0 s =
      SNext (ip0 + 1) (set_stack (set_table s a (mkTable (tmap t ++ [(VReal r, v)]) (tkeys t ++ [VReal r]))) k) /\
    stack_is (cap s) k l.
Proof. exact step_set_property_nan. Qed.
Print Assumptions C07_vm_set_property_nan.

(* ---- examples for section 5 / 6 (vm_compute on hand-assembled bytecode) ---- *)
Local Open Scope N_scope.
Definition C07_le32 (n : N) : list N := [n mod 256; (n / 256) mod 256; (n / 65536) mod 256; (n / 16777216) mod 256].
Definition C07_le64 (n : N) : list N := C07_le32 (n mod 4294967296) ++ C07_le32 (n / 4294967296).
(* a float instance with one NaN *)
Definition C07_F1 : fops :=
  mkFops (fun _ _ => 0) (fun _ _ => 0) (fun _ _ => 0) (fun _ _ => 0)
         (fun x y => if orb (N.eqb x nan_bits) (N.eqb y nan_bits) then None
                     else if N.eqb x y then Some Eq else Some Lt)
         (fun _ => 0) (fun _ => 0%Z).

(* g := {}; g[1] := 7; g[nil] := 8; g[1] := 9   (InitTable, SetGlobalVar 0, then ScalarInt v, ReadGlobalVar 0,
   key, SetProperty three times, Exit) *)
Definition C07_prog_a : program := mkProgram
  ([31; 17] ++ C07_le32 0 ++ [5] ++ C07_le64 7 ++ [18] ++ C07_le32 0 ++ [5] ++ C07_le64 1 ++ [33] ++
   [5] ++ C07_le64 8 ++ [18] ++ C07_le32 0 ++ [7; 33] ++
   [5] ++ C07_le64 9 ++ [18] ++ C07_le32 0 ++ [5] ++ C07_le64 1 ++ [33; 10]) [] [] [] [] [].
Example C07_vm_run_nonvacuous :
  fst (run_k C07_F1 Debug C07_prog_a 100 fresh_state) = OOk /\
  (let r := run C07_F1 Debug 100 C07_prog_a fresh_state in (fst r, st_heap (snd r)))
  = (OOk, [OTable (mkTable [(VInt 1, VInt 9); (VNil, VInt 8)] [VInt 1; VNil])]) /\
  length (run_states C07_F1 Debug C07_prog_a 100 fresh_state) = 16%nat.
Proof. vm_compute. repeat split. Qed.

(* a NESTED run that writes a table: main: g := {}; call1(f, 5)   f(x): g[3] := 42; return nil
   (call1 is the menu native that re-enters the VM through Vm::run_function; label 77 -> address 31) *)
Definition C07_prog_n : program := mkProgram
  ([31; 17] ++ C07_le32 0 ++ [37] ++ C07_le32 77 ++ C07_le32 1 ++ [5] ++ C07_le64 5 ++
   [4] ++ C07_le32 (handle_of_bytes name_call1) ++ [16; 10] ++
   [5] ++ C07_le64 42 ++ [18] ++ C07_le32 0 ++ [5] ++ C07_le64 3 ++ [33; 7; 22; 10]) [] [(77, 31)] [] [] [].
Example C07_vm_run_nested_nonvacuous :
  fst (run_k C07_F1 Debug C07_prog_n 100 fresh_state) = OOk /\
  (let r := run C07_F1 Debug 100 C07_prog_n fresh_state in (fst r, st_heap (snd r)))
  = (OOk, [OTable (mkTable [(VInt 3, VInt 42)] [VInt 3]); OFun 77 1]).
Proof. vm_compute. split; reflexivity. Qed.

(* the side condition is needed: g := {}; g[NaN] := 7; g[NaN] := 8; pop(g).  The key-checked VM stops at the first
   SetProperty; the VM goes on: two rows for the "same" key, pop returns nil and leaves both rows in the map part
   while the key vector keeps one key - the parts are no longer aligned *)
Definition C07_prog_b : program := mkProgram
  ([31; 17] ++ C07_le32 0 ++ [5] ++ C07_le64 7 ++ [18] ++ C07_le32 0 ++ [6] ++ C07_le64 nan_bits ++ [33] ++
   [5] ++ C07_le64 8 ++ [18] ++ C07_le32 0 ++ [6] ++ C07_le64 nan_bits ++ [33] ++
   [18] ++ C07_le32 0 ++ [41; 10]) [] [] [] [] [].
Example C07_vm_run_nan_key :
  f_cmp C07_F1 nan_bits nan_bits <> Some Eq /\
  fst (run_k C07_F1 Debug C07_prog_b 100 fresh_state) = OAbort AUnmodelled /\
  (let r := run C07_F1 Debug 100 C07_prog_b fresh_state in (fst r, st_heap (snd r), stack_of (snd r)))
  = (OOk, [OTable (mkTable [(VReal nan_bits, VInt 7); (VReal nan_bits, VInt 8)] [VReal nan_bits])], [VNil]).
Proof. split; [discriminate|]. vm_compute. split; reflexivity. Qed.

(* two string objects with the same text are the same key value; an integer and a string are not *)
Example C07_vm_key_value_nonvacuous :
  key_value C07_h0 (VObj 0) = key_value C07_h0 (VObj 1) /\ key_value C07_h0 (VObj 0) <> key_value C07_h0 (VObj 2) /\
  vkey C07_F0 C07_h0 (VObj 0) /\ vkey C07_F0 C07_h0 (VObj 1).
Proof. repeat split. discriminate. Qed.
