(* C07 — tables are insertion-ordered maps keyed by value.  Statements only; proofs in
   Cao.TableProofs.  The hash part of a table is the abstract map licensed by the C12 theorems. *)
From Coq Require Import Arith NArith ZArith List Bool.
Import ListNotations.
From Cao Require Import Table TableProofs.

(* every history of insert / remove / append / pop / get / nth-key / len / iterate / keys on a table
   that starts empty gives exactly the results of the insertion-ordered association list
   [s_run]; the append search always terminates *)
Theorem C07_table_refines :
  forall (V : Type) (vnil : V) (ops : list (tbop V)),
    let '(t', xs) := tb_run vnil (t_empty V) ops in
    let '(s', ys) := s_run vnil [] ops in
    xs = ys /\ R t' s' /\ Forall (fun x => x <> XDiverge V) xs.
Proof. intros. apply tb_run_refines. apply R_empty. Qed.
Print Assumptions C07_table_refines.

(* what the specification itself says about append and keys (so that it can be read off) *)
Theorem C07_append_key_least :
  forall (V : Type) (s : otable V) i, s_append_key s = Some i ->
    (Z.of_nat (length s) <= i)%Z /\ m_get s (KInt i) = None /\
    forall j, (Z.of_nat (length s) <= j < i)%Z -> m_get s (KInt j) <> None.
Proof. intros V. exact (@append_key_least V). Qed.
Print Assumptions C07_append_key_least.

Theorem C07_set_then_get :
  forall (V : Type) (m : amap V) k v k',
    m_get (m_set m k v) k' = if tkey_eqb k' k then Some v else m_get m k'.
Proof. intros V. exact (@m_get_set V). Qed.
Print Assumptions C07_set_then_get.

Theorem C07_key_equality_is_value_equality : forall a b, reflect (a = b) (tkey_eqb a b).
Proof. exact tkey_eqb_spec. Qed.
Print Assumptions C07_key_equality_is_value_equality.

Example C07_nonvacuous :
  snd (s_run None [] [OInsert (KStr [97%N]) (Some 1%Z); OAppend (Some 2%Z); OInsert (KInt 2%Z) (Some 3%Z);
                      OAppend (Some 4%Z); @OPop _; OAppend (Some 5%Z); @OIter _; @OGet _ (KInt 3%Z)])
  = [XUnit _; XUnit _; XUnit _; XUnit _; XVal (Some 4%Z); XUnit _;
     XIter [(KStr [97%N], Some 1%Z); (KInt 1%Z, Some 2%Z); (KInt 2%Z, Some 3%Z); (KInt 3%Z, Some 5%Z)];
     XOptV (Some (Some 5%Z))].
Proof. vm_compute. reflexivity. Qed.
