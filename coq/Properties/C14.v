(* C14 — the value stack and the bounded stack are bounded LIFO stacks.
   Statements only; proofs are in Cao.StacksProofs. *)
From Cao Require Import ListUtil Stacks StacksProofs.
From Coq Require Import Permutation.

(* For every capacity >= 1 and every history whose clear_until arguments respect the stated
   precondition, results and contents of the array-with-count model equal those of the
   Vec-based specification [sp_run]; the stack never holds more than cap-1 values. *)
Theorem C14_value_stack_refines :
  forall (V : Type) (vnil : V) (cap : nat) (ops : list (vop V)) l' outs,
    0 < cap ->
    sp_run vnil cap [] ops = Some (l', outs) ->
    let '(s', outs') := vs_run vnil (vs_new vnil cap) ops in
    outs' = outs /\ vs_abs s' = l' /\ vcount s' <= cap - 1 /\ length l' <= cap - 1.
Proof. exact vs_refines. Qed.
Print Assumptions C14_value_stack_refines.

Theorem C14_bounded_stack_refines :
  forall (T : Type) (cap : nat) (ops : list (bop T)),
    let '(s', outs) := bs_run (bs_new T cap) ops in
    let '(l', outs') := bsp_run cap [] ops in
    outs = outs' /\ bs_inv s' l' /\ length l' <= cap.
Proof. exact bs_refines. Qed.
Print Assumptions C14_bounded_stack_refines.

(* each element is dropped exactly once: pushed = stored + returned by pop + dropped *)
Theorem C14_bounded_stack_conservation :
  forall (T : Type) (cap : nat) (ops : list (bop T)) (l : list T),
    let '(l', outs) := bsp_run cap l ops in
    Permutation (l ++ pushed ops) (l' ++ returned outs ops ++ dropped outs).
Proof. exact bs_conservation. Qed.
Print Assumptions C14_bounded_stack_conservation.

(* the pinned-tree pop violated the specification (finding A-9, repaired by a fix: commit) *)
Theorem C14_legacy_pop_refuted :
  forall (V : Type) (vnil a : V), a <> vnil ->
    exists ops l' outs,
      sp_run vnil 4 [] ops = Some (l', outs) /\
      let s1 := fst (vs_run vnil (vs_new vnil 4) ops) in
      snd (vs_pop_legacy vnil s1) <> last l' vnil.
Proof. exact vs_pop_legacy_refuted. Qed.
Print Assumptions C14_legacy_pop_refuted.

(* non-vacuity: the specification accepts a non-trivial history, and says what the text says *)
Example C14_spec_nonvacuous :
  sp_run None 3 [] [VPush (Some 1%Z); VPush (Some 2%Z); VPush (Some 3%Z); VPop _; VPop _; VPop _;
                    VClearUntil _ 0; VSet 0 (Some 5%Z); VGet _ 7]
  = Some ([Some 5%Z],
          [OUnit _; OUnit _; OFull _; OVal (Some 2%Z); OVal (Some 1%Z); OVal None;
           OVal None; OVal None; OVal None]).
Proof. reflexivity. Qed.
