(* C09 - standard-library functions meet their contracts.  Statements only; proofs in
   Cao.C09Proofs (the specification means what it says), Cao.SortOrderProofs (the orderings are
   strict weak orders), Cao.C09Natives (the natives of the reference semantics equal the
   specification), Cao.C09Cards (the card programs std.filter / map / any equal it).

   The specification (Cao.StdSpec) is a set of pure functions over the entries of a table in
   insertion order and a callback oracle [cb : list V -> V]; it is the oracle the correspondence
   check C09Check applies to the observations of the real crate (cb = the logged calls). *)
From Coq Require Import List Arith Bool Permutation Sorted ZArith NArith.
Import ListNotations.
From Cao Require Import CardAst Table Value RefSem StdSpec StdRun C09Proofs SortOrderProofs C09Natives C09Cards C09Wrappers C09Check.

(* ========================================================================================== *)
(* A. what the specification functions mean                                                   *)
(* ========================================================================================== *)

(* sorted returns the same entries ... *)
Theorem C09_sorted_permutation :
  forall (K V : Type) (lt : V -> V -> bool) (keyf : K * V -> V) (l : list (K * V)),
    Permutation (spec_sorted lt keyf l) l.
Proof. intros. apply spec_sorted_perm. Qed.
Print Assumptions C09_sorted_permutation.

(* ... in ascending order of their keys: nothing is followed by an entry that sorts strictly
   before it - whenever the comparison is a strict weak order on the keys that occur ... *)
Theorem C09_sorted_ordered :
  forall (K V : Type) (lt : V -> V -> bool) (keyf : K * V -> V) (D : V -> Prop) (l : list (K * V)),
    swo_on D lt -> Forall (fun e => D (keyf e)) l ->
    StronglySorted (fun e1 e2 => lt (keyf e2) (keyf e1) = false) (spec_sorted lt keyf l).
Proof. intros. eapply spec_sorted_ordered; eassumption. Qed.
Print Assumptions C09_sorted_ordered.

(* ... and stably: the entries whose key is equivalent to k (neither before the other) appear
   in their input order *)
Theorem C09_sorted_stable :
  forall (K V : Type) (lt : V -> V -> bool) (keyf : K * V -> V) (D : V -> Prop) (k : V) (l : list (K * V)),
    swo_on D lt -> D k -> Forall (fun e => D (keyf e)) l ->
    filter (fun e => equiv_key lt (keyf e) k) (spec_sorted lt keyf l) =
    filter (fun e => equiv_key lt (keyf e) k) l.
Proof. intros. eapply spec_sorted_stable; eassumption. Qed.
Print Assumptions C09_sorted_stable.

(* the comparison of sorted (stdlib.rs sort_key_cmp: numbers by value with exact integer / real
   comparison, nil as 0, strings and tables as their length, NaN last) IS a strict weak order on
   all keys whose reals are valid binary64 values *)
Theorem C09_sort_order_is_strict_weak :
  forall h, swo_on (fun v => key_valid v = true) (sort_lt h).
Proof.
  intros h. split.
  - intros a b Da Db. apply sort_lt_asym; assumption.
  - intros a b c Da Db Dc. apply sort_lt_cotrans; assumption.
Qed.
Print Assumptions C09_sort_order_is_strict_weak.

(* the comparisons of min and max (the < and > of the language) are strict weak orders on numbers *)
Theorem C09_min_order_is_strict_weak :
  forall h, swo_on (fun v => num_key v = true) (cmp_is h Lt).
Proof.
  intros h. split.
  - intros a b Da Db. apply cmp_lt_asym; assumption.
  - intros a b c Da Db Dc. apply cmp_lt_cotrans; assumption.
Qed.
Print Assumptions C09_min_order_is_strict_weak.
Theorem C09_max_order_is_strict_weak :
  forall h, swo_on (fun v => num_key v = true) (cmp_is h Gt).
Proof.
  intros h. split.
  - intros a b Da Db. apply cmp_gt_asym; assumption.
  - intros a b c Da Db Dc. apply cmp_gt_cotrans; assumption.
Qed.
Print Assumptions C09_max_order_is_strict_weak.

(* min / max: nothing for the empty table; otherwise an entry of the table ... *)
Theorem C09_best_none :
  forall (K V : Type) (better : V -> V -> bool) (keyf : K * V -> V) (l : list (K * V)),
    spec_best better keyf l = None <-> l = [].
Proof. intros. apply spec_best_none. Qed.
Print Assumptions C09_best_none.
Theorem C09_best_is_an_entry :
  forall (K V : Type) (better : V -> V -> bool) (keyf : K * V -> V) (l : list (K * V)) e,
    spec_best better keyf l = Some e -> In e l.
Proof. intros. eapply spec_best_in_any; eassumption. Qed.
Print Assumptions C09_best_is_an_entry.
(* ... that sits after strictly worse entries only and before no better one (the FIRST entry with
   a best key), whenever the comparison is a strict weak order on the keys that occur *)
Theorem C09_best_is_first_best :
  forall (K V : Type) (better : V -> V -> bool) (keyf : K * V -> V) (D : V -> Prop) (l : list (K * V)) e,
    swo_on D better -> Forall (fun e => D (keyf e)) l ->
    spec_best better keyf l = Some e ->
    exists l1 l2, l = l1 ++ e :: l2 /\
      Forall (fun e' => better (keyf e) (keyf e') = true) l1 /\
      Forall (fun e' => better (keyf e') (keyf e) = false) l2.
Proof. intros K V better keyf D l e Hs Hd H. exact (@spec_best_first K V better keyf D Hs l e Hd H). Qed.
Print Assumptions C09_best_is_first_best.
Theorem C09_best_is_optimal :
  forall (K V : Type) (better : V -> V -> bool) (keyf : K * V -> V) (D : V -> Prop) (l : list (K * V)) e,
    swo_on D better -> Forall (fun e => D (keyf e)) l ->
    spec_best better keyf l = Some e -> forall e', In e' l -> better (keyf e') (keyf e) = false.
Proof. intros K V better keyf D l e Hs Hd H. exact (@spec_best_optimal K V better keyf D Hs l e Hd H). Qed.
Print Assumptions C09_best_is_optimal.

(* filter: exactly the entries with a truthy callback result, unchanged, in table order *)
Theorem C09_filter_is_filter :
  forall (K V : Type) (kv : K -> V) (iv : nat -> V) (truthy : V -> bool) (cb : list V -> V) (l : list (K * V)),
    spec_filter kv iv truthy cb l =
    map snd (filter (fun ie => truthy (cb [iv (fst ie); snd (snd ie); kv (fst (snd ie))]))
                    (combine (seq 0 (length l)) l)).
Proof. intros. apply spec_filter_is_filter. Qed.
Print Assumptions C09_filter_is_filter.

(* map: the same keys in the same order; the n-th value is the callback result for the n-th entry *)
Theorem C09_map_keys :
  forall (K V : Type) (kv : K -> V) (iv : nat -> V) (cb : list V -> V) (l : list (K * V)),
    map fst (spec_map kv iv cb l) = map fst l.
Proof. intros. apply spec_map_keys. Qed.
Print Assumptions C09_map_keys.
Theorem C09_map_nth :
  forall (K V : Type) (kv : K -> V) (iv : nat -> V) (cb : list V -> V) (l : list (K * V)) n,
    nth_error (spec_map kv iv cb l) n =
    option_map (fun e => (fst e, cb [iv n; snd e; kv (fst e)])) (nth_error l n).
Proof. intros. unfold spec_map. rewrite spec_map_nth. reflexivity. Qed.
Print Assumptions C09_map_nth.

(* any: the key of the first entry with a truthy result; nil when there is none *)
Theorem C09_any_some :
  forall (K V : Type) (kv : K -> V) (iv : nat -> V) (truthy : V -> bool) (cb : list V -> V) (l : list (K * V)) k,
    spec_any kv iv truthy cb l = Some k <->
    exists n e, nth_error l n = Some e /\ k = fst e /\ truthy (cb [iv n; snd e; kv (fst e)]) = true /\
                forall m e', m < n -> nth_error l m = Some e' -> truthy (cb [iv m; snd e'; kv (fst e')]) = false.
Proof. intros. unfold spec_any. rewrite spec_any_some. reflexivity. Qed.
Print Assumptions C09_any_some.
Theorem C09_any_none :
  forall (K V : Type) (kv : K -> V) (iv : nat -> V) (truthy : V -> bool) (cb : list V -> V) (l : list (K * V)),
    spec_any kv iv truthy cb l = None <->
    forall n e, nth_error l n = Some e -> truthy (cb [iv n; snd e; kv (fst e)]) = false.
Proof. intros. unfold spec_any. rewrite spec_any_none. reflexivity. Qed.
Print Assumptions C09_any_none.

(* to_array: keys 0 .. n-1, the values in order *)
Theorem C09_to_array_keys :
  forall (K V : Type) (ik : nat -> K) (l : list (K * V)),
    map fst (spec_to_array ik l) = map ik (seq 0 (length l)).
Proof. intros. apply spec_to_array_keys. Qed.
Print Assumptions C09_to_array_keys.
Theorem C09_to_array_values :
  forall (K V : Type) (ik : nat -> K) (l : list (K * V)), map snd (spec_to_array ik l) = map snd l.
Proof. intros. apply spec_to_array_values. Qed.
Print Assumptions C09_to_array_values.

(* ========================================================================================== *)
(* B. the natives of the reference semantics                                                  *)
(* ========================================================================================== *)
(* [runs P host t s r]: the evaluation of t from s ends with r for enough fuel (and every larger
   one); [pure_cb P host f cb]: f called with any arguments in any state returns [cb args] and
   leaves heap, globals and host log as they were (StdRun.v) *)

Theorem C09_native_sorted :
  forall P host keyfn cb s p tb,
    nth_error (st_heap s) p = Some tb -> wf_table tb ->
    pure_cb P host keyfn cb ->
    (forall args, key_valid (cb args) = true) ->
    exists s',
      runs P host (TkNative n_sort [VTable p; keyfn]) s (ok [VTable (length (st_heap s))] empty_env s') /\
      st_heap s' = st_heap s ++ [spec_sorted (sort_lt (st_heap s)) (key_by_cb of_key cb) tb] /\
      st_globals s' = st_globals s /\ st_log s' = st_log s.
Proof. exact native_sort_correct. Qed.
Print Assumptions C09_native_sorted.

Theorem C09_native_min_max :
  forall P host name keyfn cb s p tb,
    name = n_min \/ name = n_max ->
    nth_error (st_heap s) p = Some tb ->
    pure_cb P host keyfn cb ->
    exists s',
      match spec_best (cmp_is (st_heap s) (if str_eqb name n_min then Lt else Gt)) (key_by_cb of_key cb) tb with
      | None =>
          runs P host (TkNative name [VTable p; keyfn]) s (ok [VNil] empty_env s') /\
          st_heap s' = st_heap s
      | Some e =>
          runs P host (TkNative name [VTable p; keyfn]) s (ok [VTable (length (st_heap s))] empty_env s') /\
          st_heap s' = st_heap s ++ [row_table (of_key (fst e)) (snd e)]
      end /\ st_globals s' = st_globals s /\ st_log s' = st_log s.
Proof. exact native_minmax_correct. Qed.
Print Assumptions C09_native_min_max.

Theorem C09_native_to_array :
  forall P host s p tb,
    nth_error (st_heap s) p = Some tb ->
    exists s',
      runs P host (TkNative n_to_array [VTable p]) s (ok [VTable (length (st_heap s))] empty_env s') /\
      st_heap s' = st_heap s ++ [spec_to_array (fun i => KInt (Z.of_nat i)) tb] /\
      st_globals s' = st_globals s /\ st_log s' = st_log s.
Proof. exact native_to_array_correct. Qed.
Print Assumptions C09_native_to_array.

(* inputs that are not tables come back unchanged and the key function is not called (the state
   only counts one step) *)
Theorem C09_native_passthrough :
  forall P host s v keyfn, (forall p, v <> VTable p) ->
    runs P host (TkNative n_to_array [v]) s (ok [v] empty_env (bump s)) /\
    runs P host (TkNative n_min [v; keyfn]) s (ok [v] empty_env (bump s)) /\
    runs P host (TkNative n_max [v; keyfn]) s (ok [v] empty_env (bump s)) /\
    runs P host (TkNative n_sort [v; keyfn]) s (ok [v] empty_env (bump s)).
Proof.
  intros P host s v keyfn Hv. split; [apply native_to_array_passthrough; exact Hv|].
  repeat split; apply native_keyed_passthrough; try exact Hv; unfold is_keyed_native; auto.
Qed.
Print Assumptions C09_native_passthrough.

(* the contract of sorted_by_key read off in one statement: for a pure key function whose real
   results are valid binary64 values the native returns a new table R that is a permutation of
   the input, ascending under sort_key_cmp's order, and stable *)
Theorem C09_sorted_by_key_contract :
  forall P host keyfn cb s p tb,
    nth_error (st_heap s) p = Some tb -> wf_table tb ->
    pure_cb P host keyfn cb ->
    (forall args, key_valid (cb args) = true) ->
    let h := st_heap s in
    let keyf := key_by_cb of_key cb in
    exists s' R,
      runs P host (TkNative n_sort [VTable p; keyfn]) s (ok [VTable (length h)] empty_env s') /\
      st_heap s' = h ++ [R] /\
      Permutation R tb /\
      StronglySorted (fun e1 e2 => sort_lt h (keyf e2) (keyf e1) = false) R /\
      (forall k, key_valid k = true ->
         filter (fun e => equiv_key (sort_lt h) (keyf e) k) R =
         filter (fun e => equiv_key (sort_lt h) (keyf e) k) tb).
Proof. exact native_sorted_contract. Qed.
Print Assumptions C09_sorted_by_key_contract.

(* the contract of min_by_key / max_by_key for numeric keys: the row of the FIRST entry with the
   smallest / largest key *)
Theorem C09_min_max_by_key_contract :
  forall P host name keyfn cb s p tb,
    name = n_min \/ name = n_max ->
    nth_error (st_heap s) p = Some tb -> tb <> [] ->
    pure_cb P host keyfn cb ->
    (forall args, num_key (cb args) = true) ->
    let h := st_heap s in
    let keyf := key_by_cb of_key cb in
    let better := cmp_is h (if str_eqb name n_min then Lt else Gt) in
    exists s' e l1 l2,
      runs P host (TkNative name [VTable p; keyfn]) s (ok [VTable (length h)] empty_env s') /\
      st_heap s' = h ++ [row_table (of_key (fst e)) (snd e)] /\
      tb = l1 ++ e :: l2 /\
      Forall (fun e' => better (keyf e) (keyf e') = true) l1 /\
      Forall (fun e' => better (keyf e') (keyf e) = false) l2.
Proof. exact native_minmax_contract. Qed.
Print Assumptions C09_min_max_by_key_contract.

(* the insertion sort of the reference semantics and the one of the specification (written the
   other way round) agree wherever the comparison is a strict weak order *)
Theorem C09_sorts_agree :
  forall (K : Type) (lt : value -> value -> bool) (D : value -> Prop) (l : list (value * (K * value))),
    swo_on D lt -> Forall (fun x => D (fst x)) l -> stable_sort lt l = sort_keyed lt l.
Proof. intros K lt D l H. exact (@stable_sort_is_sort_keyed K lt D H l). Qed.
Print Assumptions C09_sorts_agree.

(* ========================================================================================== *)
(* C. the card programs std.filter / std.map / std.any                                         *)
(* ========================================================================================== *)
(* [has_std P idx name]: the function [name] of StdlibGen.std_module (the text of stdlib.rs as
   the crate prints it) is function idx of the program.  The library function is called with the
   callback first, the table last. *)

Theorem C09_std_filter :
  forall P host idx cbv cb s p tb,
    has_std P idx s_filter ->
    nth_error (st_heap s) p = Some tb -> wf_table tb ->
    pure_cb P host cbv cb ->
    (forall args, val_in_heap (st_heap s) (cb args)) ->
    exists s',
      runs P host (TkCallFn idx [cbv; VTable p]) s (ok [VTable (length (st_heap s))] empty_env s') /\
      st_heap s' = st_heap s ++ [spec_filter of_key v_idx (v_bool (st_heap s)) cb tb] /\
      st_globals s' = st_globals s /\ st_log s' = st_log s.
Proof. exact std_filter_correct. Qed.
Print Assumptions C09_std_filter.

Theorem C09_std_map :
  forall P host idx cbv cb s p tb,
    has_std P idx s_map ->
    nth_error (st_heap s) p = Some tb -> wf_table tb ->
    pure_cb P host cbv cb ->
    exists s',
      runs P host (TkCallFn idx [cbv; VTable p]) s (ok [VTable (length (st_heap s))] empty_env s') /\
      st_heap s' = st_heap s ++ [spec_map of_key v_idx cb tb] /\
      st_globals s' = st_globals s /\ st_log s' = st_log s.
Proof. exact std_map_correct. Qed.
Print Assumptions C09_std_map.

Theorem C09_std_any :
  forall P host idx cbv cb s p tb,
    has_std P idx s_any ->
    nth_error (st_heap s) p = Some tb -> wf_table tb ->
    pure_cb P host cbv cb ->
    (forall args, val_in_heap (st_heap s) (cb args)) ->
    exists s',
      runs P host (TkCallFn idx [cbv; VTable p]) s
           (ok [opt_key_value (spec_any of_key v_idx (v_bool (st_heap s)) cb tb)] empty_env s') /\
      st_heap s' = st_heap s ++ [[]] /\
      st_globals s' = st_globals s /\ st_log s' = st_log s.
Proof. exact std_any_correct. Qed.
Print Assumptions C09_std_any.

(* the three corollaries "the input table is where it was" *)
Theorem C09_std_inputs_unchanged :
  forall P host idx cbv cb s p tb,
    nth_error (st_heap s) p = Some tb -> wf_table tb -> pure_cb P host cbv cb ->
    (forall args, val_in_heap (st_heap s) (cb args)) ->
    (has_std P idx s_filter \/ has_std P idx s_map \/ has_std P idx s_any) ->
    exists r s', runs P host (TkCallFn idx [cbv; VTable p]) s (ok [r] empty_env s') /\
                 nth_error (st_heap s') p = Some tb.
Proof.
  intros P host idx cbv cb s p tb Hp Hwf Hcb Hv [H | [H | H]].
  - destruct (std_filter_correct P host idx cbv cb s p tb H Hp Hwf Hcb Hv) as (s' & Hr & Hh & _).
    eexists _, s'. split; [exact Hr|]. rewrite Hh, nth_error_app1; [exact Hp | apply nth_error_Some; congruence].
  - destruct (std_map_correct P host idx cbv cb s p tb H Hp Hwf Hcb) as (s' & Hr & Hh & _).
    eexists _, s'. split; [exact Hr|]. rewrite Hh, nth_error_app1; [exact Hp | apply nth_error_Some; congruence].
  - destruct (std_any_correct P host idx cbv cb s p tb H Hp Hwf Hcb Hv) as (s' & Hr & Hh & _).
    eexists _, s'. split; [exact Hr|]. rewrite Hh, nth_error_app1; [exact Hp | apply nth_error_Some; congruence].
Qed.
Print Assumptions C09_std_inputs_unchanged.

(* ---- the seven thin wrappers: to_array, min/max/sorted_by_key (a Return of the native call) and
   min / max / sorted (the _by_key function with std.row_to_value as the key function; the names
   resolve through the program, hence the [resolve] hypotheses) ---- *)
Theorem C09_std_to_array :
  forall P host idx s p tb,
    has_std P idx s_to_array -> nth_error (st_heap s) p = Some tb ->
    exists s',
      runs P host (TkCallFn idx [VTable p]) s (ok [VTable (length (st_heap s))] empty_env s') /\
      st_heap s' = st_heap s ++ [spec_to_array k_idx tb] /\
      st_globals s' = st_globals s /\ st_log s' = st_log s.
Proof. exact std_to_array_correct. Qed.
Print Assumptions C09_std_to_array.

Theorem C09_std_sorted_by_key :
  forall P host idx keyfn cb s p tb,
    has_std P idx s_sorted_by_key ->
    nth_error (st_heap s) p = Some tb -> wf_table tb ->
    pure_cb_on P host two_args keyfn cb ->
    (forall e, In e tb -> key_valid (key_by_cb of_key cb e) = true) ->
    exists s',
      runs P host (TkCallFn idx [keyfn; VTable p]) s (ok [VTable (length (st_heap s))] empty_env s') /\
      st_heap s' = st_heap s ++ [spec_sorted (sort_lt (st_heap s)) (key_by_cb of_key cb) tb] /\
      st_globals s' = st_globals s /\ st_log s' = st_log s.
Proof. exact std_sorted_by_key_correct_in. Qed.
Print Assumptions C09_std_sorted_by_key.

Theorem C09_std_min_max_by_key :
  forall P host idx fname nname keyfn cb s p tb,
    (fname = s_min_by_key /\ nname = n_min) \/ (fname = s_max_by_key /\ nname = n_max) ->
    has_std P idx fname ->
    nth_error (st_heap s) p = Some tb ->
    pure_cb_on P host two_args keyfn cb ->
    exists s',
      match spec_best (cmp_is (st_heap s) (if str_eqb nname n_min then Lt else Gt)) (key_by_cb of_key cb) tb with
      | None =>
          runs P host (TkCallFn idx [keyfn; VTable p]) s (ok [VNil] empty_env s') /\
          st_heap s' = st_heap s
      | Some e =>
          runs P host (TkCallFn idx [keyfn; VTable p]) s (ok [VTable (length (st_heap s))] empty_env s') /\
          st_heap s' = st_heap s ++ [row_table (of_key (fst e)) (snd e)]
      end /\ st_globals s' = st_globals s /\ st_log s' = st_log s.
Proof. exact std_min_max_by_key_correct. Qed.
Print Assumptions C09_std_min_max_by_key.

(* std.row_to_value is a pure key function on two-argument calls: it returns the value *)
Theorem C09_row_to_value_pure :
  forall P host idx, has_std P idx s_row_to_value ->
    pure_cb_on P host two_args (VFn idx) (fun args => nth 0 args VNil).
Proof. exact row_to_value_pure. Qed.
Print Assumptions C09_row_to_value_pure.

Theorem C09_std_sorted :
  forall P host idx idx2 idx3 s p tb,
    has_std P idx s_sorted ->
    resolve P idx s_sorted_by_key = Some idx2 -> has_std P idx2 s_sorted_by_key ->
    resolve P idx s_row_to_value = Some idx3 -> has_std P idx3 s_row_to_value ->
    nth_error (st_heap s) p = Some tb -> wf_table tb ->
    (forall e, In e tb -> key_valid (snd e) = true) ->
    exists s',
      runs P host (TkCallFn idx [VTable p]) s (ok [VTable (length (st_heap s))] empty_env s') /\
      st_heap s' = st_heap s ++ [spec_sorted (sort_lt (st_heap s)) (@key_by_value tkey value) tb] /\
      st_globals s' = st_globals s /\ st_log s' = st_log s.
Proof. exact std_sorted_correct. Qed.
Print Assumptions C09_std_sorted.

Theorem C09_std_min_max :
  forall P host idx idx2 idx3 fname bname nname s p tb,
    (fname = s_min /\ bname = s_min_by_key /\ nname = n_min) \/
    (fname = s_max /\ bname = s_max_by_key /\ nname = n_max) ->
    has_std P idx fname ->
    resolve P idx bname = Some idx2 -> has_std P idx2 bname ->
    resolve P idx s_row_to_value = Some idx3 -> has_std P idx3 s_row_to_value ->
    nth_error (st_heap s) p = Some tb ->
    exists s',
      match spec_best (cmp_is (st_heap s) (if str_eqb nname n_min then Lt else Gt)) (@key_by_value tkey value) tb with
      | None =>
          runs P host (TkCallFn idx [VTable p]) s (ok [VNil] empty_env s') /\
          st_heap s' = st_heap s
      | Some e =>
          runs P host (TkCallFn idx [VTable p]) s (ok [VTable (length (st_heap s))] empty_env s') /\
          st_heap s' = st_heap s ++ [row_table (of_key (fst e)) (snd e)]
      end /\ st_globals s' = st_globals s /\ st_log s' = st_log s.
Proof. exact std_min_max_correct. Qed.
Print Assumptions C09_std_min_max.

(* non-table inputs through the card wrappers *)
Theorem C09_std_passthrough :
  forall P host idx fname keyfn s v,
    (forall q, v <> VTable q) ->
    (has_std P idx s_to_array ->
       exists s', runs P host (TkCallFn idx [v]) s (ok [v] empty_env s') /\
                  st_heap s' = st_heap s /\ st_globals s' = st_globals s /\ st_log s' = st_log s) /\
    (fname = s_min_by_key \/ fname = s_max_by_key \/ fname = s_sorted_by_key -> has_std P idx fname ->
       exists s', runs P host (TkCallFn idx [keyfn; v]) s (ok [v] empty_env s') /\
                  st_heap s' = st_heap s /\ st_globals s' = st_globals s /\ st_log s' = st_log s).
Proof.
  intros P host idx fname keyfn s v Hv. split.
  - intros H. exact (std_to_array_passthrough P host idx s v H Hv).
  - intros Hn H. exact (std_by_key_passthrough P host idx fname keyfn s v Hn H Hv).
Qed.
Print Assumptions C09_std_passthrough.

(* ========================================================================================== *)
(* D. the checker's orderings on trees                                                         *)
(* ========================================================================================== *)
(* C09Check evaluates the specification on the owned trees the host sees, with transcriptions
   tr_bool / tr_less / tr_greater / tr_sort_lt of v_bool / < / > / sort_lt.  They are not proved
   equal in general; this compares them on every pair of a sample of 32 values of all kinds
   (extreme integers, signed zeros, 2^53 and 2^53+1, infinities, NaN, a denormal, strings, tables
   of different and equal lengths, nested tables, functions). *)
Definition sample_heap : list (otable value) :=
  [ []; [(KInt 0, VInt 1)]; [(KInt 0, VInt 1); (KStr [97%N], VNil)]; [(KInt 0, VInt 2)];
    [(KNil, VTable 1); (KInt 5, VReal (sf_of_bits 4609434218613702656%N))] ].
Definition sample_values : list value :=
  [ VNil; VInt 0; VInt 1; VInt 2; VInt (-3); VInt 9007199254740993; VInt 9007199254740992;
    VInt 9223372036854775807; VInt (-9223372036854775808);
    VReal (sf_of_bits 0%N); VReal (sf_of_bits 9223372036854775808%N);            (* 0.0, -0.0 *)
    VReal (sf_of_bits 4607182418800017408%N); VReal (sf_of_bits 4611686018427387904%N);   (* 1.0 2.0 *)
    VReal (sf_of_bits 4612811918334230528%N); VReal (sf_of_bits 13832806255468478464%N);  (* 2.5 -1.5 *)
    VReal (sf_of_bits 4845873199050653696%N);                                    (* 2^53 *)
    VReal (sf_of_bits 9218868437227405312%N); VReal (sf_of_bits 18442240474082181120%N);  (* inf -inf *)
    VReal (sf_of_bits 9221120237041090560%N);                                    (* NaN *)
    VReal (sf_of_bits 1%N); VReal (sf_of_bits 9106278446543142912%N);            (* denormal, 1e300-ish *)
    VStr []; VStr [97%N]; VStr [98%N; 98%N]; VStr [99%N; 99%N];
    VTable 0; VTable 1; VTable 2; VTable 3; VTable 4; VFn 0; VNative [108%N] ].
Definition tr (v : value) : tree := to_tree 6 sample_heap v.
Definition all_pairs (f : value -> value -> bool) : bool :=
  forallb (fun a => forallb (f a) sample_values) sample_values.

Example C09_tree_orderings_agree_on_samples :
  all_pairs (fun a b => Bool.eqb (tr_sort_lt (tr a) (tr b)) (sort_lt sample_heap a b)) = true /\
  all_pairs (fun a b => Bool.eqb (tr_less (tr a) (tr b)) (cmp_is sample_heap Lt a b)) = true /\
  all_pairs (fun a b => Bool.eqb (tr_greater (tr a) (tr b)) (cmp_is sample_heap Gt a b)) = true /\
  forallb (fun a => Bool.eqb (tr_bool (tr a)) (v_bool sample_heap a)) sample_values = true.
Proof. vm_compute. repeat split. Qed.
Print Assumptions C09_tree_orderings_agree_on_samples.
