(* C17 - a cleared VM behaves like a fresh one; runs are deterministic and do not leak.
   Statements only; proofs are in Cao.VmProofs and Cao.VmClearProofs .. VmClearProofs4 (model Cao.Vm).
   Proved: what `clear` leaves is, on every component a later run can read, what a new Vm has (C17_clear_is_fresh);
   `run` installs its own budget; a completed run leaves no call frame, so repeated runs never fail for lack of
   frames (finding A-18, fixed); determinism.
   run P (clear s) = run P fresh (C17_run_after_clear), for ALL programs (any bytecode), budgets, natives of the
   menu and nesting depths: `clear` leaves the old contents in the dead slots of the value stack, so the two runs
   are not equal as records; they are related by [Sim]: same height, same contents below a HIGH-WATER MARK (every
   slot below it has been written by both Vms with the same value during the current run; it also bounds every
   frame offset and every open-upvalue location), everything else equal. The heart is that no ValueStack operation
   and no raw upvalue access reads a slot at or above the high-water mark before writing it (C17_stack_ops_agree,
   C17_step_after_clear); [Sim] implies equality of everything an observer can read (C17_sim_readable).
   NOT in the model, hence not proved here: the allocator (allocated = 0 and the collection threshold reset after
   clear: AllocProofs.clear_is_fresh on the allocator model, and the counter / sweep oracles of C17Check.v on
   histories under a small memory limit), and garbage collection during a run. *)
From Coq Require Import NArith List Lia.
From Cao Require Import Stacks Vm VmProofs VmClearProofs VmClearProofs2 VmClearProofs3 VmClearProofs4.
Import ListNotations.

Theorem C17_clear_is_fresh : forall s,
  cleared (clear_state s) /\ cleared fresh_state /\
  length (vdata (st_stack (clear_state s))) = length (vdata (st_stack s)).
Proof. exact clear_is_fresh. Qed.
Print Assumptions C17_clear_is_fresh.

Theorem C17_run_resets_budget : forall F bld N P s r,
  length (st_calls s) < call_stack_size ->
  run F bld N P (set_rem s r) = run F bld N P s.
Proof. exact run_resets_budget. Qed.
Print Assumptions C17_run_resets_budget.

Theorem C17_run_leaves_no_frames : forall F bld N P s,
  length (st_calls s) < call_stack_size ->
  (forall a, fst (run F bld N P s) <> OAbort a) ->
  st_calls (snd (run F bld N P s)) = [].
Proof. exact run_leaves_no_frames. Qed.
Print Assumptions C17_run_leaves_no_frames.

Theorem C17_next_run_can_start : forall F bld N P s,
  length (st_calls s) < call_stack_size ->
  (forall a, fst (run F bld N P s) <> OAbort a) ->
  length (st_calls (snd (run F bld N P s))) < call_stack_size.
Proof. exact next_run_can_start. Qed.
Print Assumptions C17_next_run_can_start.

Theorem C17_deterministic : forall F bld N P s r1 r2,
  run F bld N P s = r1 -> run F bld N P s = r2 -> r1 = r2.
Proof. exact run_deterministic. Qed.
Print Assumptions C17_deterministic.

(* no ValueStack operation reads a slot at or above the high-water mark before writing it: on two stacks that agree
   below hw every operation returns the same output and leaves stacks that agree below max hw (new height);
   clear_until(h) needs h <= hw *)
Theorem C17_stack_ops_agree : forall (V : Type) (vnil : V) hw (a b : vstack V) (o : vop V),
  agree vnil hw a b -> op_ok hw o ->
  snd (vs_step vnil a o) = snd (vs_step vnil b o) /\
  agree vnil (Nat.max hw (vcount (fst (vs_step vnil a o)))) (fst (vs_step vnil a o)) (fst (vs_step vnil b o)).
Proof. exact vs_step_agree. Qed.
Print Assumptions C17_stack_ops_agree.

(* one instruction - any opcode, natives included - on two states related by Sim, given that nested runs
   preserve the relation *)
Theorem C17_step_after_clear : forall F bld P re,
  (forall ip x y, Sim x y -> rres_sim (re ip x) (re ip y)) ->
  forall ip a b, Sim a b -> sres_sim (step F bld P re ip a) (step F bld P re ip b).
Proof. intros F bld P re Hre. exact (@step_sim F bld P re (@natives_ok_holds F P re Hre)). Qed.
Print Assumptions C17_step_after_clear.

(* run P (clear s) against run P on a new Vm (with the same host log, ghost counter and leftover budget, which are
   not VM state): the same outcome - error payload and trace included - and final states related by Sim *)
Theorem C17_run_after_clear : forall F bld N P s,
  length (vdata (st_stack s)) = stack_size ->
  let fresh := mkState (vs_new VNil stack_size) [] [] [] None (st_log s) (st_count s) (st_rem s) in
  fst (run F bld N P (clear_state s)) = fst (run F bld N P fresh) /\
  Sim (snd (run F bld N P fresh)) (snd (run F bld N P (clear_state s))).
Proof. exact run_after_clear. Qed.
Print Assumptions C17_run_after_clear.

(* two states related by Sim are equal in everything that can be read: frames, globals, heap, open upvalues, host
   log, counters, the height and the live part of the value stack *)
Theorem C17_sim_readable : forall x y, Sim x y ->
  st_calls y = st_calls x /\ st_globals y = st_globals x /\ st_heap y = st_heap x /\ st_open y = st_open x /\
  st_log y = st_log x /\ st_count y = st_count x /\ st_rem y = st_rem x /\
  vcount (st_stack y) = vcount (st_stack x) /\
  firstn (vcount (st_stack x)) (vdata (st_stack y)) = firstn (vcount (st_stack x)) (vdata (st_stack x)).
Proof. exact Sim_readable. Qed.
Print Assumptions C17_sim_readable.
