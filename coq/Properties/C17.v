(* C17 - a cleared VM behaves like a fresh one; runs are deterministic and do not leak.  PARTIAL.
   Statements only; proofs are in Cao.VmProofs, Cao.VmClearProofs, Cao.VmClearProofs2 (model Cao.Vm).
   Proved: what `clear` leaves is, on every component a later run can read, what a new Vm has (C17_clear_is_fresh);
   `run` installs its own budget; a completed run leaves no call frame, so repeated runs never fail for lack of
   frames (finding A-18, fixed); determinism.
   run P (clear s) = run P fresh, PARTIAL (C17_run_after_clear_partial): `clear` leaves the old contents in the dead
   slots of the value stack; the two runs are related by [Sim]: same height, same contents below a HIGH-WATER MARK
   (every slot below it has been written by both Vms with the same value during the current run; it also bounds
   every frame offset and every open-upvalue location), everything else equal. Proved for ALL programs (bytecode):
   no ValueStack operation reads a slot at or above the high-water mark before writing it (C17_stack_ops_agree);
   every instruction except the two that can enter a native function preserves the relation
   (C17_step_after_clear_partial), and so do run_function, the dispatch loop, nested runs and `run` - PROVIDED
   entering a native function preserves it ([natives_ok]: the seventeen native bodies of the menu with their typed
   wrappers, min/max/sort with their callbacks). That hypothesis is the part that is NOT proved; it is claimed by the
   correspondence run only (oracle code 2 of C17Check.v: every step that starts with `clear` is compared with the
   same step on a new Vm). The allocator part (allocated = 0, threshold reset) is AllocProofs.clear_is_fresh on the
   allocator model, and the counter oracle of C17Check.v on histories under a small memory limit. *)
From Coq Require Import NArith List Lia.
From Cao Require Import Stacks Vm VmProofs VmClearProofs VmClearProofs2.
Import ListNotations.

Theorem C17_clear_is_fresh : forall s,
  cleared (clear_state s) /\ cleared fresh_state /\
  length (vdata (st_stack (clear_state s))) = length (vdata (st_stack s)).
Proof. exact clear_is_fresh. Qed.
Print Assumptions C17_clear_is_fresh.

Theorem C17_run_resets_budget : forall F bld N P s r,
  length (st_calls s) < call_stack_size ->
  run F bld N P (set_rem s r) = run F bld N P s.
Proof. exact run_resets_budget. Qed.
Print Assumptions C17_run_resets_budget.

Theorem C17_run_leaves_no_frames : forall F bld N P s,
  length (st_calls s) < call_stack_size ->
  (forall a, fst (run F bld N P s) <> OAbort a) ->
  st_calls (snd (run F bld N P s)) = [].
Proof. exact run_leaves_no_frames. Qed.
Print Assumptions C17_run_leaves_no_frames.

Theorem C17_next_run_can_start : forall F bld N P s,
  length (st_calls s) < call_stack_size ->
  (forall a, fst (run F bld N P s) <> OAbort a) ->
  length (st_calls (snd (run F bld N P s))) < call_stack_size.
Proof. exact next_run_can_start. Qed.
Print Assumptions C17_next_run_can_start.

Theorem C17_deterministic : forall F bld N P s r1 r2,
  run F bld N P s = r1 -> run F bld N P s = r2 -> r1 = r2.
Proof. exact run_deterministic. Qed.
Print Assumptions C17_deterministic.

(* no ValueStack operation reads a slot at or above the high-water mark before writing it: on two stacks that agree
   below hw every operation returns the same output and leaves stacks that agree below max hw (new height);
   clear_until(h) needs h <= hw *)
Theorem C17_stack_ops_agree : forall (V : Type) (vnil : V) hw (a b : vstack V) (o : vop V),
  agree vnil hw a b -> op_ok hw o ->
  snd (vs_step vnil a o) = snd (vs_step vnil b o) /\
  agree vnil (Nat.max hw (vcount (fst (vs_step vnil a o)))) (fst (vs_step vnil a o)) (fst (vs_step vnil b o)).
Proof. exact vs_step_agree. Qed.
Print Assumptions C17_stack_ops_agree.

(* one instruction on two states related by Sim, for every program and every nested-run function [re]: every
   instruction except CallNative (4) and CallFunction (11, whose callee may be a native function value) *)
Theorem C17_step_after_clear_partial : forall F bld P re ip a b,
  Sim a b ->
  nth (N.to_nat ip) (p_code P) 255%N <> 4%N -> nth (N.to_nat ip) (p_code P) 255%N <> 11%N ->
  sres_sim (step F bld P re ip a) (step F bld P re ip b).
Proof. exact step_sim_partial. Qed.
Print Assumptions C17_step_after_clear_partial.

(* run P (clear s) against run P on a new Vm (same host log / ghost counter / leftover budget, which are not VM
   state): same outcome (error payload and trace included), final states related by Sim. MISSING: [natives_ok]. *)
Theorem C17_run_after_clear_partial : forall F bld N P s,
  natives_ok F P ->
  length (vdata (st_stack s)) = stack_size ->
  let fresh := mkState (vs_new VNil stack_size) [] [] [] None (st_log s) (st_count s) (st_rem s) in
  fst (run F bld N P (clear_state s)) = fst (run F bld N P fresh) /\
  Sim (snd (run F bld N P fresh)) (snd (run F bld N P (clear_state s))).
Proof. exact run_after_clear_partial. Qed.
Print Assumptions C17_run_after_clear_partial.
