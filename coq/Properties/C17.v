(* C17 - a cleared VM behaves like a fresh one; runs are deterministic and do not leak.  PARTIAL.
   Statements only; proofs are in Cao.VmProofs (model Cao.Vm).
   Proved: what `clear` leaves is, on every component a later run can read, what a new Vm has (C17_clear_is_fresh);
   `run` installs its own budget; a completed run leaves no call frame, so repeated runs never fail for lack of
   frames (finding A-18, fixed); determinism.
   NOT proved (claimed by the correspondence run only, oracle code 2 of C17Check.v: every step that starts with
   `clear` is compared with the same step on a new Vm): `run P (clear s) = run P fresh` for all histories. The
   missing lemma is that no instruction reads a value-stack slot at or above the high-water mark of the current
   run (dead slots keep their old contents after `clear`; `Return` can raise the height again, but only up to a
   height the same run had reached before). The allocator part (allocated = 0, threshold reset) is
   AllocProofs.clear_is_fresh on the allocator model. *)
From Coq Require Import NArith List Lia.
From Cao Require Import Stacks Vm VmProofs.
Import ListNotations.

Theorem C17_clear_is_fresh : forall s,
  cleared (clear_state s) /\ cleared fresh_state /\
  length (vdata (st_stack (clear_state s))) = length (vdata (st_stack s)).
Proof. exact clear_is_fresh. Qed.
Print Assumptions C17_clear_is_fresh.

Theorem C17_run_resets_budget : forall F bld N P s r,
  length (st_calls s) < call_stack_size ->
  run F bld N P (set_rem s r) = run F bld N P s.
Proof. exact run_resets_budget. Qed.
Print Assumptions C17_run_resets_budget.

Theorem C17_run_leaves_no_frames : forall F bld N P s,
  length (st_calls s) < call_stack_size ->
  (forall a, fst (run F bld N P s) <> OAbort a) ->
  st_calls (snd (run F bld N P s)) = [].
Proof. exact run_leaves_no_frames. Qed.
Print Assumptions C17_run_leaves_no_frames.

Theorem C17_next_run_can_start : forall F bld N P s,
  length (st_calls s) < call_stack_size ->
  (forall a, fst (run F bld N P s) <> OAbort a) ->
  length (st_calls (snd (run F bld N P s))) < call_stack_size.
Proof. exact next_run_can_start. Qed.
Print Assumptions C17_next_run_can_start.

Theorem C17_deterministic : forall F bld N P s r1 r2,
  run F bld N P s = r1 -> run F bld N P s = r2 -> r1 = r2.
Proof. exact run_deterministic. Qed.
Print Assumptions C17_deterministic.
