(* C04 - compiling and running are total: errors are values, never crashes or hangs.
   Statements only; proofs are in Cao.C04Proofs (compiler), Cao.C04VmProofs (VM), Cao.C04Witness.
   Models: Cao.Compiler (tied to /repo by the C10 and C04 correspondence runs), Cao.Vm (VM / C03 runs).
   The process-level part of the property (native stack, aborts, hangs of the real code) is observed by the
   C04 totality stream: every implementation run happens in a child process (harness/src/c04.rs). *)
From Coq Require Import List NArith ZArith Lia.
From Cao Require Import ListUtil Bits CardAst Bytecode Compiler CompilerProofs C04Proofs C04Witness.
Import ListNotations.

(* ------------------------------------------------------------------ the compiler *)

(* [compile] is a Gallina function: every loop is structural in the module / card tree or in a list; the only
   fuel is in [super_depth] (number of "super." prefixes of an import), where length + 1 rounds always suffice
   (C04_super_depth_total).  The model's panic / diverge sites are enumerated in C04Proofs.v (S1-S7):
     S1 super_depth out of fuel, S2 HandleTable::entry that never grows (A-5, repaired: the generated constant
     CompilerGen.ht_entry_grows is true), S3 back-patching at a position that holds no jump - unreachable for
     every module;
     S4 debug_assert!(hash != 0) in Handle::from_bytes (names, card index paths) - removed from the crate by
     3f22e7c "handles are never 0"; S5 labels.insert(Handle(0)).unwrap() - unreachable since the same commit
     (handles are non-zero by construction: C04Proofs.into_ir_stream_nz, CompilerOk.handle_add_neq);
     S6 / S7 u32::try_from(len).expect(..) on the bytecode / a string - excluded by the decidable domain
     [module_in_domain]: total emitted size below 2^32 (a structural over-approximation).
     STATEMENT CHANGE (strengthening): until 3f22e7c the domain also required "no hashed name or card path
     with FNV-1a hash 0 in a debug build, no function / closure label handle 0"; the theorem is now proved
     without those conditions.
   The domain does NOT assume valid names, matching arities, a main function, resolvable calls or imports:
   all of those come out as CErr. *)
Theorem C04_compile_total :
  forall (M : module) (o : options),
    C04Proofs.module_in_domain M o = true -> compile M o <> CPanic /\ compile M o <> CDiverge.
Proof. exact compile_total. Qed.
Print Assumptions C04_compile_total.

(* no module at all makes the compiler model loop *)
Theorem C04_compile_never_diverges : forall (M : module) (o : options), compile M o <> CDiverge.
Proof. exact compile_never_diverges. Qed.
Print Assumptions C04_compile_never_diverges.

Theorem C04_super_depth_total : forall s : str, super_depth s <> None.
Proof. exact super_depth_total. Qed.
Print Assumptions C04_super_depth_total.

(* back-patching never fails at a position where a jump was emitted *)
Theorem C04_patch_code_complete : forall code q z,
  jump_at code q ->
  exists code', patch_code code (CompilerWf.bytes code) q z = Some code' /\
                map instr_span code' = map instr_span code /\
                (forall q', jump_at code q' -> jump_at code' q').
Proof. exact patch_code_complete. Qed.
Print Assumptions C04_patch_code_complete.

(* Findings N-C04-1..3 (repaired by 3f22e7c): three small modules on which the crate panicked because a
   handle was 0.  They were stated as C04_compile_total_zero_{name,path,label}_refuted (compile = CPanic outside the domain);
   with non-zero handles they compile in both build profiles and lie in the domain.  The stream replays them
   on the crate in every run (the classes find.zero_name, find.zero_path, find.zero_label). *)

(* N-C04-1: main = [SetGlobalVar "ppkttia" 7]; FNV-1a-32("ppkttia") = 0.  (Before: debug_assert panic in debug
   builds; in release builds HandleTable::entry(Handle(0)) reported an Occupied entry for an empty slot and
   the variable id was read from uninitialised memory.) *)
Theorem C04_zero_name_repaired :
  is_ok (compile zero_name_module (opts true)) = true /\ is_ok (compile zero_name_module (opts false)) = true /\
  C04Proofs.module_in_domain zero_name_module (opts true) = true.
Proof. exact zero_name_repaired. Qed.
Print Assumptions C04_zero_name_repaired.

(* N-C04-2: the card with index path [9; 17; 25; 29; 57] (142 cards in all): the path hashes to 0 *)
Theorem C04_zero_path_repaired :
  is_ok (compile zero_path_module (opts true)) = true /\ is_ok (compile zero_path_module (opts false)) = true /\
  C04Proofs.module_in_domain zero_path_module (opts true) = true.
Proof. exact zero_path_repaired. Qed.
Print Assumptions C04_zero_path_repaired.

(* N-C04-3: a closure at path [14; 16; 30; 56; 75] of main got the label handle 0 (panic in every build) *)
Theorem C04_zero_label_repaired :
  is_ok (compile zero_label_module (opts false)) = true /\ is_ok (compile zero_label_module (opts true)) = true /\
  C04Proofs.module_in_domain zero_label_module (opts false) = true.
Proof. exact zero_label_repaired. Qed.
Print Assumptions C04_zero_label_repaired.

(* ------------------------------------------------------------------ the VM *)
From Cao Require Import Stacks Vm VmProofs C04VmProofs.

(* every run returns an outcome: [run] is a total function ([loop]'s fuel is the instruction budget itself,
   C03_budget_bound; OAbort ADiverge needs the inner fuels of close_upvalues / walk_open / natives) *)
Theorem C04_run_total : forall F bld N P s, exists o s', run F bld N P s = (o, s').
Proof. exact run_total. Qed.
Print Assumptions C04_run_total.

(* run_no_abort, partial: one [step] from any state satisfying [step_pre] (operands inside the code - C10;
   call stack not empty; room for the pushes of the instruction; every object on the value stack alive; jump
   operands non-negative - C10; not both operands of a comparison are objects - A-37 otherwise; callee not a
   native; no open upvalue at Return / CloseUpvalue) does not abort, for 37 of the 47 opcodes.  The abort sites
   of Vm.v are enumerated with their status in the header of C04VmProofs.v.  Not covered: 4 CallNative (and 11
   on a native function value), 32 GetProperty, 33 SetProperty, 36 ForEach, 39 NthRow, 40 AppendTable,
   41 PopTable (key lookup compares / hashes keys: needs acyclic table contents, A-37), 43 / 44 / 45 upvalue
   instructions (need closedness of the heap over closures and upvalue lists). *)
Theorem C04_step_no_abort_partial :
  forall F bld P reenter ip0 s,
    step_pre P ip0 s -> In (opcode_at P ip0) covered_opcodes ->
    forall a s', step F bld P reenter ip0 s <> SStop a s'.
Proof. exact step_no_abort_partial. Qed.
Print Assumptions C04_step_no_abort_partial.

(* the precondition is satisfiable (entry state of a run) and its parts are necessary *)
Theorem C04_step_pre_entry_state : forall P,
  (0 < code_len P)%N -> In (opcode_at P 0) [7; 9; 10; 16; 21; 23; 31; 34]%N ->
  step_pre P 0 (set_calls fresh_state [mkFrame 0 0 0 None]).
Proof. exact step_pre_entry_state. Qed.
Print Assumptions C04_step_pre_entry_state.

Theorem C04_invalid_opcode_aborts : forall F bld P reenter ip0 s,
  (46 < opcode_at P ip0)%N -> step F bld P reenter ip0 s = SStop AUB s.
Proof. exact invalid_opcode_is_ub. Qed.
Print Assumptions C04_invalid_opcode_aborts.

Theorem C04_empty_call_stack_aborts : forall F bld P reenter ip0 s,
  opcode_at P ip0 = 20%N -> (ip0 + 1 + 4 <= code_len P)%N -> st_calls s = [] ->
  step F bld P reenter ip0 s = SStop APanic s.
Proof. exact empty_call_stack_panics. Qed.
Print Assumptions C04_empty_call_stack_aborts.

(* ---- exhaustion_is_error ---- *)

(* a full value stack gives Stackoverflow *)
Theorem C04_full_value_stack_is_stackoverflow : forall ip s v,
  stack_full s -> push_next ip s v = SErr EStackoverflow ip s.
Proof. exact full_value_stack_is_stackoverflow. Qed.
Print Assumptions C04_full_value_stack_is_stackoverflow.

Theorem C04_full_value_stack_scalar_nil : forall F bld P reenter ip0 s,
  opcode_at P ip0 = 7%N -> stack_full s ->
  step F bld P reenter ip0 s = SErr EStackoverflow (ip0 + 1) s.
Proof. exact full_value_stack_scalar_nil. Qed.
Print Assumptions C04_full_value_stack_scalar_nil.

(* a full call stack gives CallStackOverflow: at the start of a run and at CallFunction *)
Theorem C04_full_call_stack_is_callstackoverflow : forall F bld P N s,
  call_stack_size <= length (st_calls s) -> run F bld N P s = (OErr ECallStackOverflow [], s).
Proof. exact full_call_stack_is_callstackoverflow. Qed.
Print Assumptions C04_full_call_stack_is_callstackoverflow.

Theorem C04_full_call_stack_call_function : forall F bld P reenter ip0 s a h ar top rest,
  opcode_at P ip0 = 11%N -> snd (spop s) = VObj a ->
  (hget (st_heap s) a = Some (OFun h ar) \/ exists ups, hget (st_heap s) a = Some (OClo h ar ups)) ->
  st_calls s = top :: rest -> call_stack_size <= length (st_calls s) ->
  (ar <= N.of_nat (scount (fst (spop s))))%N ->
  step F bld P reenter ip0 s =
  SErr ECallStackOverflow (ip0 + 1)
       (set_calls (fst (spop s)) (mkFrame (fr_src top) (ip0 + 1) (fr_off top) (fr_clo top) :: rest)).
Proof. exact full_call_stack_call_function. Qed.
Print Assumptions C04_full_call_stack_call_function.

(* calling a non-function gives InvalidArgument *)
Theorem C04_call_non_function_is_invalid_argument : forall F bld P reenter ip0 s,
  opcode_at P ip0 = 11%N -> not_callable (st_heap s) (snd (spop s)) ->
  step F bld P reenter ip0 s = SErr EInvalidArgument (ip0 + 1) (fst (spop s)).
Proof. exact call_non_function_is_invalid_argument. Qed.
Print Assumptions C04_call_non_function_is_invalid_argument.

(* an operand of the wrong type gives InvalidArgument (GetProperty / SetProperty on a non-table) *)
Theorem C04_get_property_wrong_type : forall F bld P reenter ip0 s,
  opcode_at P ip0 = 32%N -> get_table (st_heap s) (snd (spop (fst (spop s)))) = TblNot ->
  step F bld P reenter ip0 s = SErr EInvalidArgument (ip0 + 1) (fst (spop (fst (spop s)))).
Proof. exact get_property_wrong_type. Qed.
Print Assumptions C04_get_property_wrong_type.

Theorem C04_set_property_wrong_type : forall F bld P reenter ip0 s,
  opcode_at P ip0 = 33%N -> get_table (st_heap s) (speek s 1) = TblNot ->
  step F bld P reenter ip0 s = SErr EInvalidArgument (ip0 + 1) (spop_n s 3).
Proof. exact set_property_wrong_type. Qed.
Print Assumptions C04_set_property_wrong_type.

(* integer overflow wraps in every build profile (c84a61f; the pinned tree panicked in debug builds, A-33) *)
Theorem C04_integer_overflow_wraps : forall F o h x y,
  arith_op F o h (VInt x) (VInt y) =
  VOk (VInt (let r := arith_exact o x y in if in_i64 r then r else wrap_i64 r)).
Proof. exact integer_overflow_wraps. Qed.
Print Assumptions C04_integer_overflow_wraps.

Theorem C04_integer_overflow_witness : forall F h,
  arith_op F OpAdd h (VInt i64_max) (VInt 1) = VOk (VInt i64_min) /\
  arith_op F OpSub h (VInt i64_min) (VInt 1) = VOk (VInt i64_max) /\
  arith_op F OpMul h (VInt i64_max) (VInt 2) = VOk (VInt (-2)).
Proof. exact integer_overflow_witness. Qed.
Print Assumptions C04_integer_overflow_witness.

(* budget 0 (and 1) gives Timeout at once: nothing is dispatched (9ecef93; the pinned tree underflowed, A-12) *)
Theorem C04_budget_zero_is_timeout : forall F bld P N s,
  N <= 1 -> (0 < code_len P)%N -> length (st_calls s) < call_stack_size ->
  exists tr, run F bld N P s = (OErr ETimeout tr, set_calls (set_rem s 0) []).
Proof. exact budget_zero_is_timeout. Qed.
Print Assumptions C04_budget_zero_is_timeout.

Theorem C04_budget_zero_dispatches_nothing : forall F bld P N s,
  N <= 1 -> (0 < code_len P)%N -> length (st_calls s) < call_stack_size ->
  st_count (snd (run F bld N P s)) = st_count s /\ st_stack (snd (run F bld N P s)) = st_stack s /\
  st_globals (snd (run F bld N P s)) = st_globals s /\ st_heap (snd (run F bld N P s)) = st_heap s.
Proof. exact budget_zero_dispatches_nothing. Qed.
Print Assumptions C04_budget_zero_dispatches_nothing.

(* ------------------------------------------------------------------ the VM, second part (C04VmProofs2-7.v) *)
From Cao Require Import C04VmProofs2 C04VmProofs3 C04VmProofs4 C04VmProofs5 C04VmProofs6 C04VmProofs6b C04VmProofs7 C04VmWitness.

(* == (and with it table key lookup) is total on the live values of a closed heap whose tables are ranked
   ([heap_acyclic]: a rank function on table addresses, strictly decreasing from a table to the tables it
   mentions as key or value, and below eq_fuel - 1 = 23: acyclic, and nested less deep than the model's == looks) *)
Theorem C04_equality_total : forall F h,
  heap_acyclic h -> heap_closed h ->
  forall a b, val_ok h a -> val_ok h b -> exists r, veq0 F h a b = Some r.
Proof. exact veq0_tot. Qed.
Print Assumptions C04_equality_total.

(* AppendTable's search for a free integer key never runs out of its fuel (pigeonhole: length + 1 probes) *)
Theorem C04_append_probe_terminates : forall F h m i,
  tappend_idx (veq0 F h) (S (length m)) m i <> Some None.
Proof. exact tappend_idx_not_fuel. Qed.
Print Assumptions C04_append_probe_terminates.

(* run_no_abort, one step, every opcode except CallNative (4) and CallFunction (11) of a native function value:
   under [step_pre2] = operands inside the code, call stack not empty, ValueStack invariant, every address on the
   value stack / in an object / in a closure frame alive, the open-upvalue list a duplicate-free chain of open
   upvalues, the heap acyclic, jump operands non-negative, ForEach's counter non-negative in Debug builds,
   RegisterUpvalue's captured variable exists.  The restrictions of step_pre on comparisons of two objects and on
   open upvalues at Return / CloseUpvalue are gone. *)
Theorem C04_step_no_abort_no_native :
  forall F bld P reenter ip0 s,
    step_pre2 F bld P ip0 s -> (opcode_at P ip0 <= 46)%N -> opcode_at P ip0 <> 4%N ->
    (opcode_at P ip0 = 11%N -> forall a h, top1 s = VObj a -> hget (st_heap s) a <> Some (ONative h)) ->
    forall a s', step F bld P reenter ip0 s <> SStop a s'.
Proof. exact step_no_abort_no_native. Qed.
Print Assumptions C04_step_no_abort_no_native.

(* The natives.  [ninv] = the structural invariant vm_inv + acyclic heap + no native function VALUE in the heap
   names a native that calls back.  Every native of the menu and __to_array return a value or an error and
   keep ninv; call1 / try1 / call0 / rb1 do so when the nested run does ([reenter_ok]).
   The stdlib natives __min, __max, __sort are not [covered_native]: they are in C04_native_call_ok0. *)
Theorem C04_native_call_ok : forall F P reenter start,
  code_ok P start -> reenter_ok P reenter start (fun _ => False) -> (0 < code_len P)%N ->
  forall h s, ninv P start s ->
    (forall n, find_native h all_natives = Some n -> covered_native n = true) ->
    nres_ok P start (fun _ => False) s (call_native F P reenter h s).
Proof. intros F P reenter start. exact (call_native_ok F P reenter start (fun _ => False)). Qed.
Print Assumptions C04_native_call_ok.

(* EVERY native (also __min, __max, __sort): no abort, and the state left satisfies vm_inv again (for these three
   the heap is not shown to stay acyclic: the row / table they build holds values whose rank after the callbacks
   is not known) *)
Theorem C04_native_call_ok0 : forall F P reenter start,
  code_ok P start -> reenter_ok P reenter start (fun _ => False) -> (0 < code_len P)%N ->
  forall h s, ninv P start s -> nres_ok0 P start (fun _ => False) s (call_native F P reenter h s).
Proof. intros F P reenter start. exact (call_native_ok0 F P reenter start (fun _ => False)). Qed.
Print Assumptions C04_native_call_ok0.

(* run_no_abort, one step, ALL 47 opcodes and every native, under [step_pre3] =
   the structural invariant [vm_inv] (which implies the structural part of step_pre2), the instruction pointer at
   an instruction start of a well-formed code ([code_ok]: the VM's reading of C10, C04_wellformed_code_ok), and
   [side]; nested runs (natives that call back) keep their contract [reenter_ok]. *)
Theorem C04_step_no_abort :
  forall F bld P reenter start,
    code_ok P start -> reenter_ok P reenter start (fun _ => False) ->
    forall ip0 s, step_pre3 F bld P start ip0 s ->
    forall a s', step F bld P reenter ip0 s <> SStop a s'.
Proof. exact step_no_abort_strict. Qed.
Print Assumptions C04_step_no_abort.

(* preservation: the state of every non-abort result satisfies vm_inv0 again and no object died; after SNext the
   call stack is not empty and the next instruction pointer is an instruction start.  (heap_acyclic is part of
   [side], not of vm_inv: SetProperty / AppendTable can build a cycle, A-37.) *)
Theorem C04_step_preserves :
  forall F bld P reenter start,
    code_ok P start -> reenter_ok P reenter start (fun _ => False) ->
    forall ip0 s, step_pre3 F bld P start ip0 s ->
    res_ok P start s (step F bld P reenter ip0 s).
Proof. intros F bld P reenter start. exact (step_preserves F bld P reenter start (fun _ => False)). Qed.
Print Assumptions C04_step_preserves.

(* the dispatch loop: no abort (and enough fuel) as long as every dispatched instruction meets [side] *)
Theorem C04_loop_no_abort :
  forall F bld P reenter start,
    code_ok P start -> reenter_ok P reenter start (fun _ => False) ->
    (forall ip s, rres_R paid (cr s) (reenter ip s)) ->
    forall fuel ip s,
      vm_inv P start s -> ipok P start ip -> sides_hold F bld P reenter ip s -> (st_rem s <= N.of_nat fuel)%N ->
      match loop F bld P reenter fuel ip s with
      | RStop _ _ => False
      | ROk s' | RErr _ _ s' => vm_inv0 P start s' /\ length (st_heap s) <= length (st_heap s')
      end.
Proof. exact loop_no_abort_strict. Qed.
Print Assumptions C04_loop_no_abort.

(* Vm::run from a new VM (or from the state a previous run left) *)
Theorem C04_run_no_abort_partial : forall F bld P start budget s,
  code_ok P start ->
  reenter_ok P (run_at F bld P false (N.of_nat budget) 129) start (fun _ => False) ->
  vm_inv0 P start s ->
  (forall s1, push_frame s (mkFrame 0 0 0 None) = Some s1 ->
     sides_hold F bld P (run_at F bld P false (N.of_nat budget) 129) 0 (set_rem s1 (N.of_nat budget))) ->
  forall a, fst (run F bld budget P s) <> OAbort a.
Proof. exact run_no_abort. Qed.
Print Assumptions C04_run_no_abort_partial.

Theorem C04_fresh_state_inv : forall P start, vm_inv0 P start fresh_state.
Proof. exact fresh_inv0. Qed.
Print Assumptions C04_fresh_state_inv.

(* necessity of the acyclic heap (finding A-37): t = {}; t[1] = t; t == t *)
Theorem C04_cyclic_table_aborts : forall F bld,
  fst (run F bld 100 cyclic_prog fresh_state) = OAbort ACrash /\
  st_heap (snd (run F bld 100 cyclic_prog fresh_state)) = cyclic_heap.
Proof. exact cyclic_table_aborts. Qed.
Print Assumptions C04_cyclic_table_aborts.

Theorem C04_cyclic_heap_not_acyclic : ~ heap_acyclic cyclic_heap.
Proof. exact cyclic_heap_not_acyclic. Qed.
Print Assumptions C04_cyclic_heap_not_acyclic.

(* ---- what keeps the heap acyclic (C04VmProofs8.v, C04VmProofs9.v) ---- *)
From Cao Require Import C04VmProofs8 C04VmProofs9 C04VmProofs10 C04VmLink.

(* every instruction except SetProperty (33), AppendTable (40) and the natives (CallNative; CallFunction of a
   native function value) keeps heap_acyclic *)
(* [res_st r] = the state of a result that is not an abort (SNext, SExit or SErr: also the state that a failing
   nested run hands back) *)
Theorem C04_step_keeps_acyclic : forall F bld P reenter ip0 s s',
  res_st (step F bld P reenter ip0 s) = Some s' ->
  heap_acyclic (st_heap s) -> heap_closed (st_heap s) ->
  ~ In (opcode_at P ip0) [4; 33; 40]%N ->
  (opcode_at P ip0 = 11%N -> forall a h, top1 s = VObj a -> hget (st_heap s) a <> Some (ONative h)) ->
  heap_acyclic (st_heap s').
Proof. exact step_keeps_acyclic. Qed.
Print Assumptions C04_step_keeps_acyclic.

(* SetProperty / AppendTable keep the ranks when the stored key and value are ranked below the instance
   (vdepth = 1 + rank of a table, 0 of anything else); storing a table into a table that it reaches is how a
   program builds a cycle (C04_cyclic_table_aborts) *)
Theorem C04_set_property_ranked : forall F opc ip0 ip s s' rk a,
  res_st (i_33 F opc ip0 ip s) = Some s' -> ranked (st_heap s) rk -> speek s 1 = VObj a ->
  vdepth (st_heap s) rk (speek s 0) <= rk a -> vdepth (st_heap s) rk (speek s 2) <= rk a ->
  ranked (st_heap s') rk.
Proof. exact set_property_ranked. Qed.
Print Assumptions C04_set_property_ranked.

Theorem C04_append_table_ranked : forall F opc ip0 ip s s' rk a,
  res_st (i_40 F opc ip0 ip s) = Some s' -> ranked (st_heap s) rk -> speek s 0 = VObj a ->
  vdepth (st_heap s) rk (speek s 1) <= rk a -> ranked (st_heap s') rk.
Proof. exact append_table_ranked. Qed.
Print Assumptions C04_append_table_ranked.

(* natives_simple is kept by every instruction; NativeFunctionPointer (38) is the only one that creates native
   function values, and the names it can create are in the program text ([native_pointers_simple]) *)
Theorem C04_step_keeps_natives_simple : forall F bld P reenter ip0 s s',
  res_st (step F bld P reenter ip0 s) = Some s' ->
  native_pointers_simple P -> natives_simple (st_heap s) ->
  opcode_at P ip0 <> 4%N ->
  (opcode_at P ip0 = 11%N -> forall a h, top1 s = VObj a -> hget (st_heap s) a <> Some (ONative h)) ->
  natives_simple (st_heap s').
Proof. exact step_keeps_natives_simple. Qed.
Print Assumptions C04_step_keeps_natives_simple.

(* ---- C10 gives code_ok; Vm::run of a compiled program ---- *)
Theorem C04_wellformed_code_ok : forall w B,
  Wellformed.wellformed_gen w B ->
  exists is, decode (p_bytecode B) = Some is /\ code_ok (C15Link.to_vm B) (wf_start is).
Proof. exact wellformed_code_ok. Qed.
Print Assumptions C04_wellformed_code_ok.

Theorem C04_compiled_run_no_abort : forall (M : module) (o : options) (B : compiled),
  compile M o = COk B -> Wellformed.program_in_range M o = true -> WellformedSide.program_utf8 M o = true ->
  (N.of_nat (length (p_bytecode B)) < 2147483648)%N -> (N.of_nat (length (Compiler.p_data B)) < 4294967296)%N ->
  exists is, decode (p_bytecode B) = Some is /\
    forall F bld budget s,
      reenter_ok (C15Link.to_vm B) (run_at F bld (C15Link.to_vm B) false (N.of_nat budget) 129) (wf_start is) (fun _ => False) ->
      vm_inv0 (C15Link.to_vm B) (wf_start is) s ->
      (forall s1, push_frame s (mkFrame 0 0 0 None) = Some s1 ->
         sides_hold F bld (C15Link.to_vm B) (run_at F bld (C15Link.to_vm B) false (N.of_nat budget) 129) 0
           (set_rem s1 (N.of_nat budget))) ->
      forall a, fst (run F bld budget (C15Link.to_vm B) s) <> OAbort a.
Proof. exact compiled_run_no_abort. Qed.
Print Assumptions C04_compiled_run_no_abort.

(* ------------------------------------------------------------------ no hypothesis about intermediate states *)
From Cao Require Import C04VmProofs11 C04VmChecked C04VmAgree C04VmFinal.

(* The CHECKED VM (C04VmChecked.v: step_c, loop_c, run_at_c, run_c) is the VM model with runtime checks; a failed
   check stops the run with the outcome OAbort AUnmodelled, which [run] itself never produces.  The checks:
     chk_store    SetProperty / AppendTable do not store a table as key or value (flat tables: under this
                  condition every reachable heap stays acyclic; storing a table into a table can build the cycle
                  of A-37)
     chk_foreach  ForEach in a Debug build finds a counter >= 0          (a property of compiled programs)
     chk_reg      RegisterUpvalue of an enclosing upvalue finds it       (a property of compiled programs)
     chk_native   CallNative is not __min / __max / __sort               (not shown to keep the heap acyclic)
     chk_return   Return runs with at least two call frames              (with one frame the VM reports BadReturn;
                  in a nested run the frames of run_function lie below - not formalised)
     run_at_c 0   nesting of runs below 130 levels                       (the crate's call stack of 256 frames
                  bounds it by 128 - not formalised)
   The contract of the nested run, until here a hypothesis (reenter_ok), is PROVED by induction over the depth: *)
Theorem C04_nested_run_contract : forall F bld P start,
  code_ok P start -> native_pointers_simple P ->
  forall d, reenter_ok P (run_at_c F bld P d) start okU.
Proof. exact run_at_c_contract. Qed.
Print Assumptions C04_nested_run_contract.

(* the checked VM never aborts in any other way: no hypothesis about intermediate states or nested runs *)
Theorem C04_checked_run_no_abort : forall F bld P start,
  code_ok P start -> native_pointers_simple P ->
  forall budget s,
    vm_inv0 P start s -> heap_acyclic (st_heap s) -> natives_simple (st_heap s) ->
    forall a, fst (run_c F bld P budget s) = OAbort a -> a = AUnmodelled.
Proof. exact checked_run_no_abort. Qed.
Print Assumptions C04_checked_run_no_abort.

(* a run of the VM on which no check fails IS the checked run (natives and loops hand a stop upwards unchanged) *)
Theorem C04_run_agrees : forall F bld P budget s,
  fst (run_c F bld P budget s) <> OAbort AUnmodelled ->
  run F bld budget P s = run_c F bld P budget s.
Proof. exact run_agrees. Qed.
Print Assumptions C04_run_agrees.

Theorem C04_run_no_abort_unless_check : forall F bld P start budget s,
  code_ok P start -> native_pointers_simple P ->
  vm_inv0 P start s -> heap_acyclic (st_heap s) -> natives_simple (st_heap s) ->
  fst (run_c F bld P budget s) <> OAbort AUnmodelled ->
  run F bld budget P s = run_c F bld P budget s /\
  forall a, fst (run F bld budget P s) <> OAbort a.
Proof. exact run_no_abort_unless_check. Qed.
Print Assumptions C04_run_no_abort_unless_check.

(* Vm::run of a compiled program on a new Vm: the only conditions left are static ([native_pointers_simple]: no
   NativeFunctionPointer names call1 / try1 / call0 / rb1 / __min / __max / __sort; C10's side conditions) and
   "no check of the checked VM fails on this run" - in particular: the executed stores never put a table into a
   table *)
Theorem C04_run_no_abort_flat_tables : forall (M : module) (o : options) (B : compiled),
  compile M o = COk B -> Wellformed.program_in_range M o = true -> WellformedSide.program_utf8 M o = true ->
  (N.of_nat (length (p_bytecode B)) < 2147483648)%N -> (N.of_nat (length (Compiler.p_data B)) < 4294967296)%N ->
  native_pointers_simple (C15Link.to_vm B) ->
  forall F bld budget,
    fst (run_c F bld (C15Link.to_vm B) budget fresh_state) <> OAbort AUnmodelled ->
    forall a, fst (run F bld budget (C15Link.to_vm B) fresh_state) <> OAbort a.
Proof. exact compiled_run_no_abort_unless_check. Qed.
Print Assumptions C04_run_no_abort_flat_tables.

(* the checks are not vacuous: a corpus program with nested runs (call1 re-enters the VM) passes every check and
   its run is the checked run; on the cyclic-table program of A-37 chk_store stops the checked VM at the store *)
From Cao Require Import VmWitness C04VmCheckedWitness.
Theorem C04_checked_run_nested_ok : forall F bld,
  fst (run_c F bld nested_budget_program 1000 fresh_state) = OOk /\
  run F bld 1000 nested_budget_program fresh_state = run_c F bld nested_budget_program 1000 fresh_state.
Proof. exact checked_run_nested_ok. Qed.
Print Assumptions C04_checked_run_nested_ok.

Theorem C04_checked_run_cyclic_stops : forall F bld,
  fst (run_c F bld cyclic_prog 100 fresh_state) = OAbort AUnmodelled.
Proof. exact checked_run_cyclic_stops. Qed.
Print Assumptions C04_checked_run_cyclic_stops.

(* ------------------------------------------------------------------ the structural checks on compiled programs *)
From Cao Require Import C15Link RefScope C04StructWitness C04StructProofs.

(* STATUS of "compiled programs never fail the structural checks" (chk_return, chk_foreach, chk_reg):
   - a program that compiles but is NOT well-scoped can fail chk_return and chk_foreach (the two theorems below;
     both programs are outside the run-time domain of C04, which speaks of well-scoped programs);
   - chk_return is stronger than the VM needs in a top-level run: with one call frame Return yields an error value
     (C04_return_one_frame_is_error); it is needed for the contract of nested runs only;
   - NOT PROVED: that a program with RefScope.well_scoped = true never fails chk_return / chk_foreach / chk_reg
     (static half: every Return of a well-scoped program lies in a function or closure body, every upvalue index is
     below the closure's upvalue count; dynamic half: an invariant of the run relating the value stack to the
     compiler's locals).  No counterexample among well-scoped programs is known. *)

(* (a) main = [Return 1] compiles (the compiler accepts a Return card at main's own level; well_scoped rejects it).
   Vm.run reports the error value BadReturn - the crate does the same (instr_return: Err(BadReturn "Failed to find
   return address"), no panic) - and the checked VM stops there: chk_return is too strong at top level. *)
Theorem C04_return_in_main_is_bad_return :
  exists B, compile return_main_module default_options = COk B /\
    in_c04_domain return_main_module default_options B = true /\
    well_scoped return_main_module = false /\
    forall F bld,
      (exists t, fst (run F bld 100 (to_vm B) fresh_state) = OErr EBadReturn t) /\
      fst (run_c F bld (to_vm B) 100 fresh_state) = OAbort AUnmodelled.
Proof. exact return_in_main_is_bad_return. Qed.
Print Assumptions C04_return_in_main_is_bad_return.

(* Return with at most one call frame, any program: an error value, never an abort, never a next instruction *)
Theorem C04_return_one_frame_is_error : forall F bld P reenter start,
  code_ok P start -> reenter_ok P reenter start (fun _ => False) ->
  forall ip0 s, step_pre3 F bld P start ip0 s ->
    opcode_at P ip0 = 22%N -> length (st_calls s) <= 1 ->
    exists e ip' s', step F bld P reenter ip0 s = SErr e ip' s'.
Proof. exact return_one_frame_is_error. Qed.
Print Assumptions C04_return_one_frame_is_error.

(* the hypotheses are satisfiable: the Return of main = [Return 1] is reached with one frame (the run above ends in
   BadReturn), and step_pre3's structural part holds in the entry state (C04_step_pre_entry_state) *)
Example C04_return_one_frame_example : forall F bld,
  exists B, compile return_main_module default_options = COk B /\
    exists t, fst (run F bld 100 (to_vm B) fresh_state) = OErr EBadReturn t.
Proof.
  intros F bld. destruct return_in_main_is_bad_return as (B & E & _ & _ & H). exists B. split; [exact E|]. apply (H F bld).
Qed.

(* (b) chk_foreach NEEDS well-scopedness: main = [x = 0; for _ in [1,2,3] { S;S;S;S;S; -5; {} }] with
   S = Add(SetVar x -5, SetVar x -5) compiles; SetVar leaves no value, so every S pops two stack slots it did not
   push: the five hidden locals of the loop are eaten, -5 lands in the slot of the counter and the new table in the
   slot of the item.  Debug build: debug_assert!(0 <= i) fails (OAbort APanic; observed on the crate: panic
   "for_each overflow", vm/instr_execution.rs:397); Release build: Ok.  The program is not well-scoped (a card
   without value in an operand slot), i.e. outside C04's run-time domain. *)
Theorem C04_foreach_counter_needs_well_scoped :
  exists B, compile (foreach_neg_module 5) default_options = COk B /\
    in_c04_domain (foreach_neg_module 5) default_options B = true /\
    well_scoped (foreach_neg_module 5) = false /\
    forall F,
      fst (run F Debug 3000 (to_vm B) fresh_state) = OAbort APanic /\
      fst (run_c F Debug (to_vm B) 3000 fresh_state) = OAbort AUnmodelled /\
      fst (run F Release 3000 (to_vm B) fresh_state) = OOk /\
      fst (run_c F Release (to_vm B) 3000 fresh_state) = OOk.
Proof. exact foreach_counter_needs_well_scoped. Qed.
Print Assumptions C04_foreach_counter_needs_well_scoped.

(* with 4 or 6 copies of S the slot of the item holds no table when ForEach reads it: the error AssertionError *)
Theorem C04_foreach_counter_neighbours :
  forall F bld m B, In m [4; 6] -> compile (foreach_neg_module m) default_options = COk B ->
    exists t, fst (run F bld 3000 (to_vm B) fresh_state) = OErr EAssertionError t.
Proof. intros F bld. exact (foreach_counter_neighbours F bld). Qed.
Print Assumptions C04_foreach_counter_neighbours.
