(* C11 — serialization round trips.  Statements only; proofs in Cao.SerdeProofs.
   Proved: the two hand-written map (de)serializers (the label / variable / trace tables of a
   compiled program) round-trip for every size, size hint and requested capacity.  The
   derive-generated serde code and the format crates are treated as an identity on the serde data
   model (trusted, exercised by the correspondence run). *)
From Coq Require Import Arith NArith List Bool.
Import ListNotations.
From Cao Require Import Bits ProbeDefs HashMap HashMapProofs HashMapConsts HashMapInst
     HandleTable HandleTableProofs HandleTableConsts HandleTableInst Serde SerdeProofs.

Theorem C11_hash_map_roundtrip :
  forall (K V : Type) (keqb : K -> K -> bool) (hashfn : K -> N),
    (forall a b, reflect (a = b) (keqb a b)) ->
    forall (m : hmap K V) (hint : option nat),
      Inv fib_home64 m -> hash_consistent hashfn m ->
      exists m', hm_de keqb hashfn fib_home64 cneeds_grow cnew_cap hint (hm_ser m) = Ok m' /\
        Inv fib_home64 m' /\ hm_count m' = hm_count m /\ (forall e, Ent m' e <-> Ent m e).
Proof.
  intros. unfold hm_de. eapply hm_roundtrip; eauto using fib_home64_lt, cneeds_grow_lt, cnew_cap_gt.
Qed.
Print Assumptions C11_hash_map_roundtrip.

Theorem C11_handle_table_roundtrip :
  forall (V : Type) (m : hmap unit V) (hint : option nat),
    TInv fib_home32 m ->
    exists m', ht_de fib_home32 ht_needs_grow ht_grow_cap ht_min_cap_nat hint (ht_ser m) = Ok m' /\
      TInv fib_home32 m' /\ hm_count m' = hm_count m /\ (forall e, Ent m' e <-> Ent m e).
Proof.
  intros. unfold ht_de. eapply ht_roundtrip; eauto using fib_home32_lt, ht_needs_grow_lt, ht_grow_cap_gt,
    ht_min_cap_ge2, ht_min_cap_pow2.
Qed.
Print Assumptions C11_handle_table_roundtrip.

Example C11_nonvacuous :
  match ht_de fib_home32 ht_needs_grow ht_grow_cap ht_min_cap_nat (Some 3)
          [(7%N, 1%Z); (9%N, 2%Z); (11%N, 3%Z); (13%N, 4%Z)] with
  | Ok m => hm_count m = 4 /\ hcap m = 8
  | _ => False
  end.
Proof. vm_compute. auto. Qed.
