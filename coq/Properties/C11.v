(* C11 - serialization round trips.  Statements only; proofs in Cao.SerdeProofs and Cao.OwnedProofs.
   Proved:
   * the two hand-written map (de)serializers (the label / variable / trace tables of a compiled program)
     round-trip for every size, size hint and requested capacity (C11_hash_map_roundtrip,
     C11_handle_table_roundtrip);
   * the OwnedValue conversions (model Cao.Owned of `impl TryFrom<Value> for OwnedValue` and `Vm::insert_value`
     over the heap of the VM model Cao.Vm, generic in the floating point instance):
       C11_owned_roundtrip      insert_value then try_from is the identity on every owned value of the class
                                [owned_ok] (every table: keys are nil / integer / string / a real that is == to
                                itself, and no key is matched by an earlier key under the VM's key test; values
                                arbitrary, any nesting), entry order included, into ANY heap, and the heap that
                                existed is a prefix of the new one; fuel > nesting depth suffices for try_from;
       C11_value_roundtrip      a value of a heap whose tables satisfy the C07 invariant ([tables_wf], kept by
                                every instruction: the C07_vm theorems), converted with try_from and inserted into any other
                                heap, has the same owned form and the same canonical tree (Vm.to_tree) there;
       C11_owned_fuel           try_from answers [o] only with fuel > odepth o, and then with every such fuel;
       C11_owned_fuel_stable    whatever try_from answers with some fuel (a value, Err(v), a dangling address, a
                                key test that does not answer) it answers with every larger fuel: the fuel of
                                the model is not observable except as "not enough";
       C11_insert_keeps_tables  insert_value keeps the C07 table invariant of the heap and never reaches the
                                impossible branch [IUb];
       C11_nan_key_row_lost     why NaN keys are outside the class: the row is stored and never read back.
   Not covered: tables used as keys (outside the key domain of the VM model's table theory, C07); the
   derive-generated serde code and the format crates, treated as an identity on the serde data model (trusted,
   exercised by the correspondence run); allocation failure / garbage collection during insert_value (the VM
   model's heap never frees and never fills). *)
From Coq Require Import Arith NArith ZArith List Bool.
Import ListNotations.
From Cao Require Import Bits ProbeDefs HashMap HashMapProofs HashMapConsts HashMapInst
     HandleTable HandleTableProofs HandleTableConsts HandleTableInst Serde SerdeProofs.
From Cao Require Vm VmFloat VmTableProofs VmTableKeys Owned OwnedProofs.

Theorem C11_hash_map_roundtrip :
  forall (K V : Type) (keqb : K -> K -> bool) (hashfn : K -> N),
    (forall a b, reflect (a = b) (keqb a b)) ->
    forall (m : hmap K V) (hint : option nat),
      Inv fib_home64 m -> hash_consistent hashfn m ->
      exists m', hm_de keqb hashfn fib_home64 cneeds_grow cnew_cap hint (hm_ser m) = Ok m' /\
        Inv fib_home64 m' /\ hm_count m' = hm_count m /\ (forall e, Ent m' e <-> Ent m e).
Proof.
  intros. unfold hm_de. eapply hm_roundtrip; eauto using fib_home64_lt, cneeds_grow_lt, cnew_cap_gt.
Qed.
Print Assumptions C11_hash_map_roundtrip.

Theorem C11_handle_table_roundtrip :
  forall (V : Type) (m : hmap unit V) (hint : option nat),
    TInv fib_home32 m ->
    exists m', ht_de fib_home32 ht_needs_grow ht_grow_cap ht_min_cap_nat hint (ht_ser m) = Ok m' /\
      TInv fib_home32 m' /\ hm_count m' = hm_count m /\ (forall e, Ent m' e <-> Ent m e).
Proof.
  intros. unfold ht_de. eapply ht_roundtrip; eauto using fib_home32_lt, ht_needs_grow_lt, ht_grow_cap_gt,
    ht_min_cap_ge2, ht_min_cap_pow2.
Qed.
Print Assumptions C11_handle_table_roundtrip.

Example C11_nonvacuous :
  match ht_de fib_home32 ht_needs_grow ht_grow_cap ht_min_cap_nat (Some 3)
          [(7%N, 1%Z); (9%N, 2%Z); (11%N, 3%Z); (13%N, 4%Z)] with
  | Ok m => hm_count m = 4 /\ hcap m = 8
  | _ => False
  end.
Proof. vm_compute. auto. Qed.

(* ---------------------------------------------------------------------------------------------- *)
(* OwnedValue::try_from / Vm::insert_value                                                        *)
(* ---------------------------------------------------------------------------------------------- *)
Section C11_owned.
Import Vm VmTableProofs VmTableKeys Owned.

Theorem C11_owned_roundtrip :
  forall (F : fops) (o : owned) (h : heap),
    owned_ok F o = true ->
    exists h' v,
      insert_owned F h o = IOk h' v /\ (exists ext, h' = h ++ ext) /\
      forall fuel, odepth o < fuel -> owned_of F fuel h' v = CvOk o.
Proof. exact OwnedProofs.owned_roundtrip. Qed.
Print Assumptions C11_owned_roundtrip.

Theorem C11_value_roundtrip :
  forall (F : fops) (h : heap) (v : value) (fuel : nat) (o : owned) (h2 : heap),
    tables_wf F h -> owned_of F fuel h v = CvOk o ->
    exists h2' v2,
      insert_owned F h2 o = IOk h2' v2 /\ (exists ext, h2' = h2 ++ ext) /\
      owned_of F fuel h2' v2 = CvOk o /\ to_tree F fuel h2' v2 = to_tree F fuel h v.
Proof. exact OwnedProofs.value_roundtrip. Qed.
Print Assumptions C11_value_roundtrip.

Theorem C11_owned_fuel :
  forall (F : fops) (f1 : nat) (h : heap) (v : value) (o : owned),
    owned_of F f1 h v = CvOk o ->
    odepth o < f1 /\ forall f2, odepth o < f2 -> owned_of F f2 h v = CvOk o.
Proof.
  intros F f1 h v o H. split; [exact (OwnedProofs.owned_of_depth F f1 h v o H) | exact (OwnedProofs.owned_of_fuel F f1 h v o H)].
Qed.
Print Assumptions C11_owned_fuel.

Theorem C11_owned_fuel_stable :
  forall (F : fops) (h : heap) (v : value) (f1 f2 : nat),
    f1 <= f2 -> owned_of F f1 h v <> CvFuel -> owned_of F f2 h v = owned_of F f1 h v.
Proof. intros F h v f1 f2. exact (OwnedProofs.owned_of_stable F h v f1 f2). Qed.
Print Assumptions C11_owned_fuel_stable.

Theorem C11_insert_keeps_tables :
  forall (F : fops) (o : owned) (h : heap),
    owned_ok F o = true ->
    insert_owned F h o <> IUb /\
    forall h' v, tables_wf F h -> insert_owned F h o = IOk h' v -> tables_wf F h'.
Proof.
  intros F o h Hok. split; [exact (OwnedProofs.insert_owned_no_ub F o h Hok)|].
  intros h' v W E. exact (OwnedProofs.insert_owned_tables_wf F o h h' v Hok W E).
Qed.
Print Assumptions C11_insert_keeps_tables.

Theorem C11_nan_key_row_lost :
  forall (F : fops) (r : N) (h : heap) (w : Z),
    f_cmp F r r <> Some Eq ->
    exists h' v,
      insert_owned F h (OTable [(OReal r, OInt w)]) = IOk h' v /\
      forall fuel, owned_of F (S fuel) h' v = CvOk (OTable []).
Proof. exact OwnedProofs.nan_key_lost. Qed.
Print Assumptions C11_nan_key_row_lost.

(* a nested table with string, integer, real and nil keys; bytes of "k0", "k1", "x", "a"; 1.5 and -0.0 as bit
   patterns; inserted into a heap that already holds a string *)
Definition c11_sample : owned :=
  OTable [ (OStr [107; 48]%N, OInt 1%Z);
           (OStr [107; 49]%N,
              OTable [ (OInt 2%Z, OStr [97]%N);
                       (OStr [120]%N, OReal 4609434218613702656%N);
                       (ONil, OTable []);
                       (OReal 0%N, OTable [(OReal 9223372036854775808%N, ONil)]) ]);
           (OInt (-1)%Z, ONil) ].

Example C11_owned_nonvacuous :
  owned_ok VmFloat.flocq_ops c11_sample = true /\ odepth c11_sample = 3 /\
  match insert_owned VmFloat.flocq_ops [Vm.OStr [1%N]] c11_sample with
  | IOk h' v =>
      owned_of VmFloat.flocq_ops 4 h' v = CvOk c11_sample /\
      owned_of VmFloat.flocq_ops 3 h' v = CvFuel /\
      firstn 1 h' = [Vm.OStr [1%N]] /\ length h' = 9 /\ v = VObj 1%N
  | _ => False
  end.
Proof. vm_compute. repeat split. Qed.

(* the hypotheses of C11_value_roundtrip on a concrete heap: the heap built by inserting the sample into the
   empty heap satisfies the table invariant, and try_from answers the sample *)
Example C11_value_nonvacuous :
  exists h v, tables_wf VmFloat.flocq_ops h /\ owned_of VmFloat.flocq_ops 4 h v = CvOk c11_sample /\ length h = 8.
Proof.
  destruct (insert_owned VmFloat.flocq_ops [] c11_sample) as [h v| |] eqn:E; try (vm_compute in E; discriminate).
  exists h, v. split.
  - eapply (OwnedProofs.insert_owned_tables_wf VmFloat.flocq_ops c11_sample [] h v); [reflexivity | | exact E].
    intros a t H. unfold hget in H. destruct (N.to_nat a); discriminate.
  - vm_compute in E. inversion E; subst. vm_compute. split; reflexivity.
Qed.

(* try_from on a table that holds a function: Err(the function value), with any fuel from 2 on; out of fuel
   with less *)
Example C11_err_nonvacuous :
  let h := [Vm.OTable (mkTable [(VInt 1%Z, VInt 2%Z); (VInt 3%Z, VObj 1%N)] [VInt 1%Z; VInt 3%Z]); Vm.OFun 7%N 0%N] in
  owned_of VmFloat.flocq_ops 2 h (VObj 0%N) = CvErr (VObj 1%N) /\
  owned_of VmFloat.flocq_ops 9 h (VObj 0%N) = CvErr (VObj 1%N) /\
  owned_of VmFloat.flocq_ops 1 h (VObj 0%N) = CvFuel.
Proof. vm_compute. repeat split. Qed.

(* the NaN row on the binary64 instance *)
Example C11_nan_nonvacuous :
  match insert_owned VmFloat.flocq_ops [] (OTable [(OReal 9221120237041090560%N, OInt 7%Z); (OInt 1%Z, OInt 8%Z)]) with
  | IOk h' v => owned_of VmFloat.flocq_ops 2 h' v = CvOk (OTable [(OInt 1%Z, OInt 8%Z)])
  | _ => False
  end.
Proof. vm_compute. reflexivity. Qed.
End C11_owned.
