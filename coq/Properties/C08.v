(* C08 - a call invokes exactly the function that name resolution designates.
   Statements only; proofs are in Cao.CompilerResolve, Cao.ResolveProofs (the four lookup rules),
   Cao.ResolveTree (front end = tree), Cao.CompilerCalls (module level), Cao.CompilerLabels (labels),
   Cao.C08Examples.  The specification is ResolveSpec.v (module tree level, independent of the compiler
   model).  The run-time half (CallFunction pushes a frame and runs the code at the label of the pointer's
   handle, parameter binding, Return) is proved on the VM model in Cao.VmCallProofs and linked to the
   compile-time half in Cao.VmCallLink (section "run-time half" at the end of this file); the C08
   correspondence stream checks the same on the real Vm.
   Last section: the FunctionPointer / CallFunction pair of every Call card (at any nesting) is ADJACENT in the
   returned program and carries the designated handle / arity (C08_program_call_layout, C08_call_pair_in_program,
   with the run-time half: C08_call_card_executes_designated_body - Cao.CompilerCallPair, CompilerCallPairProg,
   VmCallPairLink), and the innermost locals list is empty where the body of a function or closure starts
   (C08_function_body_starts_without_locals, C08_card_keeps_scopes, C08_closure_body_starts_without_locals,
   C08_param_binding_compiled - Cao.CompilerLocalsEmpty, CompilerLocalsEmptyProg).
   Still open: a callee value that reaches CallFunction through other instructions than a Function card
   (DynamicCall of an arbitrary expression: C08_vm_call_function applies to whatever function object is popped);
   the end-to-end statement "running the compiled Call card returns what the body of the designated function
   computes" is C01's simulation, not restated here; N-C08-3 (a static call of `main`) stays a finding. *)
From Coq Require Import List NArith ZArith.
From Cao Require Import ListUtil Bits CardAst Bytecode Compiler StdlibGen ResolveSpec CompilerResolve ResolveProofs
  ResolveTree CompilerProofs CompilerLabels CompilerCalls C08Examples C15Link
  CompilerCallPair CompilerCallPairProg CompilerLocalsEmpty CompilerLocalsEmptyProg.
From Cao Require CardEdit CompilerWf Stacks Vm VmProofs VmNativeProofs VmUpvalueProofs C04VmProofs C01SimVm VmCallProofs VmCallLink
  VmCallPairLink C08PairWitness.
Import ListNotations.

(* ---- resolution never panics or diverges; its result is a declared function ---- *)
Theorem C08_resolve_outcomes :
  forall n s,
    (exists m key, resolve_function n s = ROk m s /\ sm_find key (cs_jump s) = Some m) \/
    resolve_function n s = RErr (EInvalidJump n) (Some (cur_loc s)) \/
    resolve_function n s = RErr ESuperLimitReached (Some (cur_loc s)).
Proof. exact resolve_outcomes. Qed.
Print Assumptions C08_resolve_outcomes.

(* ---- resolve_sound / resolve_complete, all four rules ----
   [table_matches root jt]: the jump table has an entry for a key exactly when the key, read as a dotted
   path from the root, is a function of the tree (C08_compile_table_matches below: true for the table of
   every module that compiles and whose module names contain no '.').  [il] is the caller module's
   import list and cs_imports the table the model's execute_imports builds from it.
   The model and the specification designate the same function - the result is the table entry of that
   function - or fail with the corresponding error.  The priority between the rules is part of the
   statement: spec_resolve returns the first rule's function, and so does the model. *)
Theorem C08_resolve_agrees :
  forall root il name s,
    table_matches root (cs_jump s) ->
    Forall dotfree (cs_ns s) ->
    execute_imports il [] = inr (cs_imports s) ->
    match spec_resolve root (cs_ns s) il name with
    | SFound f => exists m, sm_find (ns_prefix (fst f) ++ snd f) (cs_jump s) = Some m /\
                            resolve_function name s = ROk m s
    | SNotFound => resolve_function name s = RErr (EInvalidJump name) (Some (cur_loc s))
    | SSuperLimit => resolve_function name s = RErr ESuperLimitReached (Some (cur_loc s))
    end.
Proof. exact resolve_agrees. Qed.
Print Assumptions C08_resolve_agrees.

Theorem C08_resolve_sound :
  forall root il name s m s',
    table_matches root (cs_jump s) -> Forall dotfree (cs_ns s) -> execute_imports il [] = inr (cs_imports s) ->
    resolve_function name s = ROk m s' ->
    s' = s /\ exists f, spec_resolve root (cs_ns s) il name = SFound f /\
                        sm_find (ns_prefix (fst f) ++ snd f) (cs_jump s) = Some m.
Proof. exact resolve_sound. Qed.
Print Assumptions C08_resolve_sound.

Theorem C08_resolve_complete :
  forall root il name s f,
    table_matches root (cs_jump s) -> Forall dotfree (cs_ns s) -> execute_imports il [] = inr (cs_imports s) ->
    spec_resolve root (cs_ns s) il name = SFound f ->
    exists m, resolve_function name s = ROk m s /\ sm_find (ns_prefix (fst f) ++ snd f) (cs_jump s) = Some m.
Proof. exact resolve_complete. Qed.
Print Assumptions C08_resolve_complete.

(* InvalidJump <-> SNotFound, SuperLimitReached <-> SSuperLimit, and no other error *)
Theorem C08_resolve_errors :
  forall root il name s,
    table_matches root (cs_jump s) -> Forall dotfree (cs_ns s) -> execute_imports il [] = inr (cs_imports s) ->
    (forall e l, resolve_function name s = RErr e l ->
       l = Some (cur_loc s) /\
       ((e = EInvalidJump name /\ spec_resolve root (cs_ns s) il name = SNotFound) \/
        (e = ESuperLimitReached /\ spec_resolve root (cs_ns s) il name = SSuperLimit))) /\
    (spec_resolve root (cs_ns s) il name = SNotFound ->
       resolve_function name s = RErr (EInvalidJump name) (Some (cur_loc s))) /\
    (spec_resolve root (cs_ns s) il name = SSuperLimit ->
       resolve_function name s = RErr ESuperLimitReached (Some (cur_loc s))).
Proof. exact resolve_errors. Qed.
Print Assumptions C08_resolve_errors.

(* ---- bad_names_rejected ---- *)
(* duplicates by full name, at any depth: stage 1 succeeds only on pairwise distinct full names *)
Theorem C08_duplicate_name_rejected :
  forall fs d, ~ NoDup (map fi_full_name fs) ->
               exists n l, stage_1 fs (init_state d) = RErr (EDuplicateName n) l.
Proof. exact duplicate_name_rejected. Qed.
Print Assumptions C08_duplicate_name_rejected.

(* a user module named like the injected standard library *)
Theorem C08_std_module_rejected :
  forall subs funs imps o, In s_std (map fst subs) ->
    exists d, compile (Module subs funs imps) o = CErr (EDuplicateModule d) (Some loc_default).
Proof. exact std_module_rejected. Qed.
Print Assumptions C08_std_module_rejected.

Theorem C08_no_main_rejected :
  forall subs funs imps o,
    (forall nf, In nf funs -> str_eqb (fst nf) s_main = false) ->
    (exists d, compile (Module subs funs imps) o = CErr (EDuplicateModule d) (Some loc_default)) \/
    compile (Module subs funs imps) o = CErr ENoMain (Some loc_default).
Proof. exact no_main_rejected. Qed.
Print Assumptions C08_no_main_rejected.

(* invalid function names (is_name_valid) in any module that is flattened *)
Theorem C08_bad_function_name_rejected :
  forall fs name fid ns imports out n,
    In name (map fst fs) -> is_name_valid name = false ->
    exists bad, flatten_functions fs fid ns imports out n = inl (EBadFunctionName bad).
Proof. exact bad_function_name_rejected. Qed.
Print Assumptions C08_bad_function_name_rejected.

(* malformed imports, and what the import errors mean *)
Theorem C08_bad_import_rejected :
  forall imps imp, In imp imps -> rsplit_once_c c_dot imp = None -> exists e, execute_imports imps [] = inl e.
Proof. exact bad_import_rejected. Qed.
Print Assumptions C08_bad_import_rejected.
Theorem C08_import_errors :
  forall imps acc e, execute_imports imps acc = inl e ->
    exists imp, In imp imps /\
      ((e = EBadImport imp /\ rsplit_once_c c_dot imp = None) \/
       (e = EAmbigousImport imp /\ exists pre key, rsplit_once_c c_dot imp = Some (pre, key))).
Proof. exact execute_imports_errors. Qed.
Print Assumptions C08_import_errors.

(* every error of the flattening front end is the result of compile (never a panic) *)
Theorem C08_front_end_error :
  forall M o e, into_ir_stream M (o_recursion_limit o) = inl e -> compile M o = CErr e (Some loc_default).
Proof. exact front_end_error. Qed.
Print Assumptions C08_front_end_error.

(* ---- call_targets_body ---- *)
(* after stage 1 the jump table maps exactly the full names of the IR functions to (handle, arity) *)
Theorem C08_jump_table :
  forall fs d s', stage_1 fs (init_state d) = ROk tt s' -> table_of fs (cs_jump s').
Proof. exact stage_1_ok_table. Qed.
Print Assumptions C08_jump_table.

(* the FunctionPointer emitted for a Call / Function card carries the handle and arity of a declared
   function: the one whose full name the resolution found *)
Theorem C08_call_target_meta :
  forall fs n s m s',
    table_of fs (cs_jump s) -> resolve_function n s = ROk m s' ->
    s' = s /\ exists f, In f fs /\ fm_handle m = fi_handle f /\
                        fm_arity m = (N.of_nat (length (fi_args f)) mod two32)%N.
Proof. exact call_target_meta. Qed.
Print Assumptions C08_call_target_meta.

(* labels[handle f] = first byte of f's code: put there by compile_other, kept by every card label
   (entry never overwrites), and kept by a closure / function label of a DIFFERENT handle.  That
   function and closure handles are pairwise distinct is the obligation the compiler does not check
   (32-bit hashes): it appears here as the hypothesis h <> k. *)
Theorem C08_function_label_at_start :
  forall h s s', label_insert_here h s = ROk tt s' ->
                 nm_find h (cs_labels s') = Some (cs_pc s) /\ cs_pc s' = cs_pc s.
Proof. exact function_label_at_start. Qed.
Print Assumptions C08_function_label_at_start.
Theorem C08_label_kept_by_card_labels :
  forall h k s s', label_entry_here k s = ROk tt s' ->
                   forall p, nm_find h (cs_labels s) = Some p -> nm_find h (cs_labels s') = Some p.
Proof. exact label_entry_preserves. Qed.
Print Assumptions C08_label_kept_by_card_labels.
Theorem C08_label_kept_if_distinct :
  forall h k s s', h <> k -> label_insert_here k s = ROk tt s' ->
                   forall p, nm_find h (cs_labels s) = Some p -> nm_find h (cs_labels s') = Some p.
Proof. exact label_insert_preserves. Qed.
Print Assumptions C08_label_kept_if_distinct.

(* ---- the jump table of a compiled module matches the tree ---- *)
(* [with_std std_module M] is the tree the compiler flattens (the standard library injected as the last
   submodule).  module_names_dotfree is the decidable side condition "no module name contains '.'":
   module names are not validated by the compiler, and with a dotted module name two different functions
   can have the same full name. *)
Theorem C08_compile_table_matches :
  forall M limit fs d s1,
    into_ir_stream M limit = inr fs -> module_names_dotfree (with_std std_module M) = true ->
    stage_1 fs (init_state d) = ROk tt s1 ->
    table_matches (with_std std_module M) (cs_jump s1).
Proof. exact compile_table_matches. Qed.
Print Assumptions C08_compile_table_matches.

(* the flattening front end enumerates exactly ResolveSpec.tree_functions, numbered consecutively
   (handle of the k-th function = Handle::from_u64(k)), `main` swapped to the front *)
Theorem C08_ir_stream_is_tree :
  forall M limit fs,
    into_ir_stream M limit = inr fs ->
    ensure_invariants (with_std std_module M) = None /\
    exists irs i, fs = swap0 irs i /\ irs_from 0 (tree_functions (with_std std_module M) []) irs.
Proof. exact into_ir_stream_spec. Qed.
Print Assumptions C08_ir_stream_is_tree.

(* the table entry of a declared function: its position (as a handle) and its arity *)
Theorem C08_entry_is_position :
  forall root irs fs jt p g m,
    irs_from 0 (tree_functions root []) irs -> (forall f, In f fs <-> In f irs) -> table_of fs jt ->
    lookup root p g = Some (p, g) -> sm_find (ns_prefix p ++ g) jt = Some m ->
    exists pos fn, fn_position root p g 0 = Some pos /\ function_at root (p, g) = Some fn /\
                   fm_handle m = handle_from_u64 (N.of_nat pos) /\
                   fm_arity m = (N.of_nat (length (f_args fn)) mod two32)%N.
Proof. exact entry_is_position. Qed.
Print Assumptions C08_entry_is_position.

(* ---- C08_call_resolves: every static call of a compiled module carries the designated target ----
   The call skeleton of the program (its FunctionPointer and CallFunction instructions, in program
   order) is, function by function in compile order (tree_functions with `main` swapped to the front),
   card by card in compile order (ResolveSpec.card_items): one FunctionPointer per Call / Function card,
   whose handle is Handle(position) and whose arity is the parameter count of the function that
   spec_resolve designates for the card's name from that function's module path with that module's
   import list (site_target), followed by CallFunction for a Call card.  In particular every such name
   resolves (site_target is Some) whenever the module compiles. *)
Theorem C08_call_resolves :
  forall M o B,
    compile M o = COk B ->
    module_names_dotfree (with_std std_module M) = true ->
    exists is mi,
      p_bytecode B = encode is /\
      main_index (m_functions M) 0 = Some mi /\
      Forall2 (site_item_ok (with_std std_module M))
              (flat_map site_items (swap0 (tree_functions (with_std std_module M) []) mi))
              (filter is_call_instr is).
Proof. exact compile_calls. Qed.
Print Assumptions C08_call_resolves.

(* the same, call by call: if the module compiles, every static call / function reference of every
   function of the tree resolves under the specification (so: a name that resolves to nothing is a
   compilation error), and the FunctionPointer of its target is in the program *)
Theorem C08_every_call_resolves :
  forall M o B,
    compile M o = COk B ->
    module_names_dotfree (with_std std_module M) = true ->
    exists is, p_bytecode B = encode is /\
      forall st name,
        In st (tree_functions (with_std std_module M) []) ->
        In (CPtr name) (flat_map card_items (f_cards (fs_fn st))) ->
        exists pos ar, site_target (with_std std_module M) st name = Some (pos, ar) /\
                       In (IFunctionPointer (handle_from_u64 (N.of_nat pos)) (N.of_nat ar mod two32)%N) is.
Proof. exact compile_every_call_resolves. Qed.
Print Assumptions C08_every_call_resolves.

(* and conversely for the errors: compile returns InvalidJump / SuperLimitReached only because some
   static call or function reference of the tree has exactly that outcome under the specification *)
Theorem C08_resolve_error_is_unresolved_call :
  forall M o e l,
    compile M o = CErr e l -> is_resolve_err e = true ->
    module_names_dotfree (with_std std_module M) = true ->
    exists st name,
      In st (tree_functions (with_std std_module M) []) /\
      In (CPtr name) (flat_map card_items (f_cards (fs_fn st))) /\
      ((e = EInvalidJump name /\ spec_resolve (with_std std_module M) (fs_path st) (fs_imports st) name = SNotFound) \/
       (e = ESuperLimitReached /\ spec_resolve (with_std std_module M) (fs_path st) (fs_imports st) name = SSuperLimit)).
Proof. exact compile_resolve_error. Qed.
Print Assumptions C08_resolve_error_is_unresolved_call.

(* ---- C08_label_points_to_body: labels[handle g] is the first byte of g's code ----
   label_keys_distinct is the decidable condition the compiler does not check: the 32-bit keys of all
   function labels and closure labels (CompilerLabels.insert_keys: a pure traversal of the cards that
   mirrors the compiler's card indices) are pairwise distinct.  g is any function but the first (main,
   which gets no label). *)
Theorem C08_label_points_to_body :
  forall M o B fs pre g post,
    into_ir_stream M (o_recursion_limit o) = inr fs -> fs = pre ++ g :: post -> pre <> [] ->
    compile M o = COk B -> label_keys_distinct fs = true ->
    exists before body rest,
      p_bytecode B = encode before ++ encode body ++ encode rest /\
      nm_find (fi_handle g) (p_labels B) = Some (N.of_nat (length (encode before))) /\
      (exists s1 s2, compile_other g s1 = ROk tt s2 /\ rev (cs_code s1) = before /\ rev (cs_code s2) = before ++ body).
Proof. exact compile_label_points_to_body. Qed.
Print Assumptions C08_label_points_to_body.

(* the same by position in the tree: the handle a call carries (C08_call_resolves) is the key of the
   label of the designated function, and that label is the start of its code *)
Theorem C08_label_of_position :
  forall M o B pos st,
    compile M o = COk B ->
    label_keys_distinct_module M (o_recursion_limit o) = true ->
    nth_error (tree_functions (with_std std_module M) []) pos = Some st ->
    main_index (m_functions M) 0 <> Some pos ->
    exists f before body rest,
      ir_of (N.of_nat pos) st f /\
      p_bytecode B = encode before ++ encode body ++ encode rest /\
      nm_find (handle_from_u64 (N.of_nat pos)) (p_labels B) = Some (N.of_nat (length (encode before))) /\
      exists s1 s2, compile_other f s1 = ROk tt s2 /\ rev (cs_code s1) = before /\ rev (cs_code s2) = before ++ body.
Proof. exact compile_label_of_position. Qed.
Print Assumptions C08_label_of_position.

(* the excluded position: `main` is compiled first and gets no label (known finding N-C08-3: a static
   call of main compiles - C08_call_resolves gives it Handle(position of main) - and fails at run time
   with ProcedureNotFound).  Witness on main = [main()]: *)
Theorem C08_main_has_no_label :
  spec_resolve (with_std std_module ex_call_main_module) [] [] s_main = SFound ([], s_main) /\
  fn_position (with_std std_module ex_call_main_module) [] s_main 0 = Some 0%nat /\
  exists B, compile ex_call_main_module default_options = COk B /\
            In (IFunctionPointer (handle_from_u64 0) 0)
               (match decode (p_bytecode B) with Some l => map snd l | None => [] end) /\
            nm_find (handle_from_u64 0) (p_labels B) = None.
Proof. exact ex_main_has_no_label. Qed.
Print Assumptions C08_main_has_no_label.

(* ---- examples: root { main = [a.b.go()]; lib { g }; a { util { h(x, y) };
                        b { imports = [super.super.lib.g, super.util]; go = [g(); util.h(1, 2); &g] } } } ---- *)
Theorem C08_example_super_spec :
  module_names_dotfree ex_super_root = true /\
  spec_resolve ex_super_root [w_a; w_b] ex_b_imports w_g = SFound ([w_lib], w_g) /\
  spec_resolve ex_super_root [w_a; w_b] ex_b_imports (dotted [w_util; w_h]) = SFound ([w_a; w_util], w_h) /\
  fn_position ex_super_root [w_lib] w_g 0 = Some 1%nat /\
  fn_position ex_super_root [w_a; w_util] w_h 0 = Some 2%nat /\
  fn_position ex_super_root [w_a; w_b] w_go 0 = Some 3%nat.
Proof. exact ex_super_spec. Qed.
Print Assumptions C08_example_super_spec.

Theorem C08_example_super_compiled :
  exists B is, compile ex_super_module default_options = COk B /\ p_bytecode B = encode is /\
    firstn 7 (filter is_call_instr is) =
      [IFunctionPointer (handle_from_u64 3) 0; ICallFunction;
       IFunctionPointer (handle_from_u64 1) 0; ICallFunction;
       IFunctionPointer (handle_from_u64 2) 2; ICallFunction;
       IFunctionPointer (handle_from_u64 1) 0].
Proof. exact ex_super_compiled. Qed.
Print Assumptions C08_example_super_compiled.

Theorem C08_example_super_label :
  label_keys_distinct_module ex_super_module 64 = true /\
  exists B before body rest p,
    compile ex_super_module default_options = COk B /\
    p_bytecode B = encode before ++ encode body ++ encode rest /\
    nm_find (handle_from_u64 3) (p_labels B) = Some p /\
    p = N.of_nat (length (encode before)) /\
    match decode (p_bytecode B) with
    | Some l => In (N.to_nat p, IFunctionPointer (handle_from_u64 1) 0) l
    | None => False
    end.
Proof. exact ex_super_label. Qed.
Print Assumptions C08_example_super_label.

(* ---- findings N-C08-1 / N-C08-2 (confirmed on the crate at 2f34106, repaired by 4a89bbc) ---- *)
(* the former super_depth counted the substring "super." inside an ordinary segment such as xsuper *)
Theorem C08_super_depth_legacy_refuted :
  super_depth_legacy (w_xsuper ++ [c_dot] ++ w_bar) = Some (1%nat, Some w_bar) /\
  super_depth (w_xsuper ++ [c_dot] ++ w_bar) = Some (0%nat, None).
Proof. exact super_depth_legacy_refuted. Qed.
Print Assumptions C08_super_depth_legacy_refuted.

(* root { imports = ["xsuper.bar"]; xsuper { bar }; main = [Call bar] }: the specification designates
   xsuper.bar and the compiled call carries its handle (function 1 in the compiler's order) *)
Theorem C08_import_of_xsuper_repaired :
  spec_resolve (Module [(w_xsuper, Module [] [(w_bar, fn0 [CScalarNil])] [])] [(s_main, fn0 [CCall w_bar []])] [])
               [] [w_xsuper ++ [c_dot] ++ w_bar] w_bar = SFound ([w_xsuper], w_bar) /\
  exists B, compile n_c08_1_module {| o_recursion_limit := 64%N; o_debug := true |} = COk B /\
            In (IFunctionPointer (handle_from_u64 1) 0)
               (match decode (p_bytecode B) with Some l => map snd l | None => [] end).
Proof. exact n_c08_1_repaired. Qed.
Print Assumptions C08_import_of_xsuper_repaired.

(* xsuper { util { f }; m1 { imports = ["super.util"]; g = [Call util.f] } }: a module imported through
   `super` resolves its functions *)
Theorem C08_module_import_through_super_repaired :
  exists B, compile n_c08_2_module {| o_recursion_limit := 64%N; o_debug := true |} = COk B /\
            In (IFunctionPointer (handle_from_u64 1) 0)
               (match decode (p_bytecode B) with Some l => map snd l | None => [] end).
Proof. exact n_c08_2_repaired. Qed.
Print Assumptions C08_module_import_through_super_repaired.

(* ================================================================== *)
(* ---- run-time half: CallFunction, Return, parameters (VM model) ---- *)
(* ================================================================== *)
(* Vocabulary: VmProofs.stack_of s = the live values of the value stack, bottom first; VmProofs.stack_ok s =
   its invariant (count < capacity); C04VmProofs.opcode_at P ip = the byte at ip; C01SimVm.code_at P ip i = the
   encoding of instruction i lies at ip; VmUpvalueProofs.vm_ok / open_list = the invariant and the contents of
   the open-upvalue list (C06).  Vm.step F bld P reenter ip0 s = one dispatch at address ip0. *)

(* C08_vm_call_function: the exact outcome of CallFunction (opcode 11) at ip0 when the popped callee is a function
   object OFun h ar or a closure OClo h ar ups at heap address a, with n values left on the stack:
   - the callee value is popped (its slot is overwritten with nil): state s1;
   - the caller's frame gets dst := ip0 + 1 (the instruction after the call) BEFORE any check;
   - fewer than ar values on the WHOLE stack (not: above the caller's frame offset) -> MissingArgument;
   - 256 frames already -> CallStackOverflow;
   - otherwise the frame {src = ip0, dst = ip0 + 1, offset = n - ar, closure} is pushed and execution continues
     at labels[h]; no label for h -> ProcedureNotFound h, raised with the new frame already pushed (this is what
     a static call of `main` runs into: N-C08-3). *)
Theorem C08_vm_call_function :
  forall F bld P reenter ip0 s stk a (is_clo : bool) h ar ups top rest,
    C04VmProofs.opcode_at P ip0 = 11%N ->
    VmProofs.stack_ok s -> VmProofs.stack_of s = stk ++ [Vm.VObj a] ->
    Vm.hget (Vm.st_heap s) a = Some (if is_clo then Vm.OClo h ar ups else Vm.OFun h ar) ->
    Vm.st_calls s = top :: rest ->
    let n := length stk in
    let s1 := Vm.set_stack s {| Stacks.vcount := n; Stacks.vdata := upd (Stacks.vdata (Vm.st_stack s)) n Vm.VNil |} in
    let caller := Vm.mkFrame (Vm.fr_src top) (ip0 + 1) (Vm.fr_off top) (Vm.fr_clo top) in
    let callee := Vm.mkFrame ip0 (ip0 + 1) (N.of_nat n - ar) (if is_clo then Some a else None) in
    VmProofs.stack_ok s1 /\ VmProofs.stack_of s1 = stk /\
    Vm.step F bld P reenter ip0 s =
      if (N.of_nat n <? ar)%N then Vm.SErr Vm.EMissingArgument (ip0 + 1) (Vm.set_calls s1 (caller :: rest))
      else if (Vm.call_stack_size <=? S (length rest))%nat
           then Vm.SErr Vm.ECallStackOverflow (ip0 + 1) (Vm.set_calls s1 (caller :: rest))
      else match Vm.assoc h (Vm.p_labels P) with
           | Some pos => Vm.SNext pos (Vm.set_calls s1 (callee :: caller :: rest))
           | None => Vm.SErr (Vm.EProcedureNotFound h) (ip0 + 1) (Vm.set_calls s1 (callee :: caller :: rest))
           end.
Proof. exact VmCallProofs.vm_call_function. Qed.
Print Assumptions C08_vm_call_function.

(* C08_vm_return: Return (opcode 22) in a frame fr above the caller's frame prev, the value to return on top of
   the stack above fr's offset: the open upvalues of slots >= offset are closed (each keeps the value its slot
   holds now; C06_vm_return_closes), the frame is popped, the stack is truncated to the frame's offset, the
   returned value is pushed, execution continues at prev's dst.  x2 = the state after closing the upvalues
   (same stack, frames prev :: rest), x' = the result state. *)
Theorem C08_vm_return :
  forall F bld P reenter ip0 x fr prev rest l,
    C04VmProofs.opcode_at P ip0 = 22%N -> Vm.st_calls x = fr :: prev :: rest ->
    VmUpvalueProofs.vm_ok x -> VmUpvalueProofs.open_list x l ->
    let off := N.to_nat (Vm.fr_off fr) in
    let v := last (VmProofs.stack_of x) Vm.VNil in
    (off < length (VmProofs.stack_of x))%nat ->
    exists x2,
      let x' := VmCallProofs.pushed (VmCallProofs.truncated x2 off) v in
      Vm.close_upvalues_from off (Vm.set_calls x (prev :: rest)) = Vm.ClOk x2 /\
      Vm.step F bld P reenter ip0 x = Vm.SNext (Vm.fr_dst prev) x' /\
      VmProofs.stack_ok x' /\
      VmProofs.stack_of x' = firstn off (VmProofs.stack_of x) ++ [v] /\
      Vm.st_calls x' = prev :: rest /\
      Vm.st_globals x' = Vm.st_globals x /\
      VmUpvalueProofs.vm_ok x' /\
      VmUpvalueProofs.open_list x' (VmUpvalueProofs.kept_by off l) /\
      Vm.st_stack x2 = Vm.st_stack x /\
      Vm.st_heap x' = Vm.st_heap x2 /\
      (forall a loc, In (a, loc) l -> (off <= loc)%nat ->
         exists nx, Vm.hget (Vm.st_heap x2) a = Some (Vm.OUp (Vm.mkUp None (Vm.sraw_get x loc) nx))) /\
      (forall a, (forall loc, In (a, loc) l -> (loc < off)%nat) -> Vm.hget (Vm.st_heap x2) a = Vm.hget (Vm.st_heap x) a).
Proof. exact VmCallProofs.vm_return. Qed.
Print Assumptions C08_vm_return.

(* ... from a frame pushed by C08_vm_call_function at ip0 (n values on the stack at the call, arity ar): execution
   continues at ip0 + 1 in the caller's frame (offset and closure as before the call); everything from slot
   n - ar upwards - the arguments included - is replaced by the returned value *)
Theorem C08_vm_return_to_caller :
  forall F bld P reenter ip0 ipr x n ar clo top rest l,
    C04VmProofs.opcode_at P ipr = 22%N ->
    Vm.st_calls x = Vm.mkFrame ip0 (ip0 + 1) (N.of_nat n - ar) clo
                    :: Vm.mkFrame (Vm.fr_src top) (ip0 + 1) (Vm.fr_off top) (Vm.fr_clo top) :: rest ->
    VmUpvalueProofs.vm_ok x -> VmUpvalueProofs.open_list x l ->
    let off := (n - N.to_nat ar)%nat in
    (off < length (VmProofs.stack_of x))%nat ->
    exists x',
      Vm.step F bld P reenter ipr x = Vm.SNext (ip0 + 1) x' /\
      VmProofs.stack_ok x' /\
      VmProofs.stack_of x' = firstn off (VmProofs.stack_of x) ++ [last (VmProofs.stack_of x) Vm.VNil] /\
      Vm.st_calls x' = Vm.mkFrame (Vm.fr_src top) (ip0 + 1) (Vm.fr_off top) (Vm.fr_clo top) :: rest /\
      Vm.st_globals x' = Vm.st_globals x /\
      VmUpvalueProofs.vm_ok x' /\ VmUpvalueProofs.open_list x' (VmUpvalueProofs.kept_by off l).
Proof. exact VmCallProofs.vm_return_to_caller. Qed.
Print Assumptions C08_vm_return_to_caller.

(* C08_vm_params_are_locals: a call of arity ar with the values args (pushed first to last) above low, at least ar
   of them.  The callee's frame begins d = |args| - ar values into args (surplus leading arguments stay below the
   frame: they belong to the caller's part of the stack and are still there after Return).  In every state x in
   which that frame is the top frame and the stack still begins with low ++ args: ReadLocalVar j (j < ar) pushes
   args[d + j], SetLocalVar j overwrites args[d + j]. *)
Theorem C08_vm_params_are_locals :
  forall F bld P reenter ip0 s low args a (is_clo : bool) h ar ups top rest pos,
    C04VmProofs.opcode_at P ip0 = 11%N -> VmProofs.stack_ok s ->
    VmProofs.stack_of s = (low ++ args) ++ [Vm.VObj a] ->
    Vm.hget (Vm.st_heap s) a = Some (if is_clo then Vm.OClo h ar ups else Vm.OFun h ar) ->
    Vm.st_calls s = top :: rest ->
    (N.to_nat ar <= length args)%nat -> (S (length rest) < Vm.call_stack_size)%nat ->
    Vm.assoc h (Vm.p_labels P) = Some pos ->
    let fr := Vm.mkFrame ip0 (ip0 + 1) (N.of_nat (length (low ++ args)) - ar) (if is_clo then Some a else None) in
    let s2 := Vm.set_calls (VmCallProofs.popped s (length (low ++ args)))
                (fr :: Vm.mkFrame (Vm.fr_src top) (ip0 + 1) (Vm.fr_off top) (Vm.fr_clo top) :: rest) in
    let d := (length args - N.to_nat ar)%nat in
    Vm.step F bld P reenter ip0 s = Vm.SNext pos s2 /\ VmProofs.stack_ok s2 /\ VmProofs.stack_of s2 = low ++ args /\
    forall x cs tmp j ip,
      Vm.st_calls x = fr :: cs -> VmProofs.stack_ok x -> (j < N.to_nat ar)%nat ->
      Vm.op_u32 P (ip + 1) = Some (N.of_nat j) ->
      (C04VmProofs.opcode_at P ip = 20%N -> VmProofs.stack_of x = low ++ args ++ tmp ->
       (S (length (VmProofs.stack_of x)) < VmUpvalueProofs.cap x)%nat ->
         Vm.step F bld P reenter ip x = Vm.SNext (ip + 1 + 4) (VmCallProofs.pushed x (nth (d + j) args Vm.VNil)) /\
         VmProofs.stack_of (VmCallProofs.pushed x (nth (d + j) args Vm.VNil))
           = low ++ args ++ tmp ++ [nth (d + j) args Vm.VNil]) /\
      (C04VmProofs.opcode_at P ip = 19%N -> forall v, VmProofs.stack_of x = (low ++ args ++ tmp) ++ [v] ->
         exists x', Vm.step F bld P reenter ip x = Vm.SNext (ip + 1 + 4) x' /\ VmProofs.stack_ok x' /\
                    VmProofs.stack_of x' = low ++ upd args (d + j) v ++ tmp /\ Vm.st_calls x' = Vm.st_calls x).
Proof. exact VmCallProofs.vm_params_are_locals. Qed.
Print Assumptions C08_vm_params_are_locals.

(* C08_param_binding: "declared parameter m receives the (m+1)-th argument FROM THE END".
   Compiler side: process_function f begins with add_locals (rev (fi_args f)); run in a state c0 whose innermost
   locals list is empty, it makes declared parameter m of n (names pairwise distinct; add_locals rejects empty
   names and more than 255 locals) local n - 1 - m: resolve_var answers VLocal (n - 1 - m), ReadVar of the name
   is compiled to ReadLocalVar (n - 1 - m); the arity the jump table / FunctionPointer carry is n.
   VM side: the call of a function object of arity n with k >= n values vals on top of low: ReadLocalVar (n-1-m),
   wherever it lies, executed in the callee's frame while the stack begins with low ++ vals, pushes vals[k-1-m].
   (That the locals list IS empty where compile_other / a closure body starts is
   C08_function_body_starts_without_locals / C08_closure_body_starts_without_locals below; C08_param_binding_compiled
   is this theorem without the two hypotheses on c0.) *)
Theorem C08_param_binding :
  forall (f : function_ir) c0 c1 m,
    cs_locals c0 <> [] -> hd [] (cs_locals c0) = [] -> NoDup (fi_args f) ->
    add_locals (rev (fi_args f)) c0 = ROk tt c1 -> (m < length (fi_args f))%nat ->
    let n := length (fi_args f) in
    let p := nth m (fi_args f) [] in
    let j := N.of_nat (n - 1 - m) in
    (N.of_nat n mod two32 = N.of_nat n)%N /\
    resolve_var p c1 = ROk (VLocal j) c1 /\
    (~ In c_dot p -> read_var_card p c1 = push_instr (IReadLocalVar j) c1) /\
    forall F bld P reenter ip0 s low vals a (is_clo : bool) h ups top rest pos,
      C04VmProofs.opcode_at P ip0 = 11%N -> VmProofs.stack_ok s ->
      VmProofs.stack_of s = (low ++ vals) ++ [Vm.VObj a] ->
      Vm.hget (Vm.st_heap s) a = Some (if is_clo then Vm.OClo h (N.of_nat n) ups else Vm.OFun h (N.of_nat n)) ->
      Vm.st_calls s = top :: rest ->
      (n <= length vals)%nat -> (S (length rest) < Vm.call_stack_size)%nat -> Vm.assoc h (Vm.p_labels P) = Some pos ->
      let fr := Vm.mkFrame ip0 (ip0 + 1) (N.of_nat (length (low ++ vals)) - N.of_nat n) (if is_clo then Some a else None) in
      Vm.step F bld P reenter ip0 s =
        Vm.SNext pos (Vm.set_calls (VmCallProofs.popped s (length (low ++ vals)))
                        (fr :: Vm.mkFrame (Vm.fr_src top) (ip0 + 1) (Vm.fr_off top) (Vm.fr_clo top) :: rest)) /\
      forall x cs tmp ip,
        Vm.st_calls x = fr :: cs -> VmProofs.stack_ok x -> VmProofs.stack_of x = low ++ vals ++ tmp ->
        (S (length (VmProofs.stack_of x)) < VmUpvalueProofs.cap x)%nat ->
        C01SimVm.code_at P ip (IReadLocalVar j) ->
        Vm.step F bld P reenter ip x =
          Vm.SNext (ip + 5) (VmCallProofs.pushed x (nth (length vals - 1 - m) vals Vm.VNil)).
Proof. exact VmCallLink.param_binding. Qed.
Print Assumptions C08_param_binding.

(* C08_call_executes_designated_body: compile-time and run-time halves together.  In a compiled module, wherever
   FunctionPointer h ar is immediately followed by CallFunction (this is how process_card compiles a Call card,
   and a DynamicCall of a Function card):
   (i)   the FunctionPointer is, in program order, the compilation of a reference to `name` made from a function
         st of the tree, the specification resolves `name` from st's module with st's imports to the function at
         position pos with arn parameters, h = Handle(pos), ar = arn;
   (ii)  the two dispatches, from any state with room for one push: the function object is allocated and pushed,
         CallFunction pops it, and the outcome is C08_vm_call_function's for handle h and arity ar on the same
         value stack as before the pair (VmCallProofs.call_result is the case analysis of that theorem);
   (iii) if the target is not `main` and the label keys are distinct: labels[h] is the first byte of the code
         compile_other produced for the IR function f of the designated tree function tgt (ir_of: same name,
         parameters, cards, module path, imports), so with at least ar values on the stack and a free call frame
         the CallFunction continues exactly there, in a new frame {src = address of the CallFunction, dst = the
         next instruction, offset = height - ar}.
   That every Call card yields such an adjacent pair IN THE RETURNED PROGRAM is C08_call_pair_in_program below, and
   C08_call_card_executes_designated_body is this theorem with the hypothesis discharged for Call cards.
   Not covered: a callee value that reaches CallFunction through other instructions (DynamicCall of an
   expression): there C08_vm_call_function applies to whatever function object is popped. *)
Theorem C08_call_executes_designated_body :
  forall F bld reenter M o B,
    compile M o = COk B ->
    module_names_dotfree (with_std std_module M) = true ->
    let root := with_std std_module M in
    let P := to_vm B in
    exists is mi,
      p_bytecode B = encode is /\ main_index (m_functions M) 0 = Some mi /\
      forall a b h ar, is = a ++ IFunctionPointer h ar :: ICallFunction :: b ->
        let ip := CompilerWf.bytes a in
        exists st name pos arn,
          nth_error (flat_map site_items (swap0 (tree_functions root []) mi)) (length (filter is_call_instr a))
            = Some (st, CPtr name) /\
          site_target root st name = Some (pos, arn) /\
          h = handle_from_u64 (N.of_nat pos) /\ ar = (N.of_nat arn mod two32)%N /\
          (forall s top rest,
             VmProofs.stack_ok s -> (S (length (VmProofs.stack_of s)) < VmUpvalueProofs.cap s)%nat ->
             Vm.st_calls s = top :: rest ->
             let n := length (VmProofs.stack_of s) in
             let fa := N.of_nat (length (Vm.st_heap s)) in
             let s1 := VmCallProofs.pushed (Vm.set_heap s (Vm.st_heap s ++ [Vm.OFun h ar])) (Vm.VObj fa) in
             let s2 := VmCallProofs.popped s1 n in
             Vm.step F bld P reenter ip s = Vm.SNext (ip + 9) s1 /\
             Vm.step F bld P reenter (ip + 9) s1 = VmCallProofs.call_result P (ip + 9) s2 n h ar None top rest /\
             VmProofs.stack_ok s2 /\ VmProofs.stack_of s2 = VmProofs.stack_of s) /\
          (pos <> mi -> label_keys_distinct_module M (o_recursion_limit o) = true ->
           exists fid tgt f before body rest',
             spec_resolve root (fs_path st) (fs_imports st) name = SFound fid /\
             nth_error (tree_functions root []) pos = Some tgt /\
             fs_path tgt = fst fid /\ fs_name tgt = snd fid /\ function_at root fid = Some (fs_fn tgt) /\
             ir_of (N.of_nat pos) tgt f /\
             p_bytecode B = encode before ++ encode body ++ encode rest' /\
             (exists c1 c2, compile_other f c1 = ROk tt c2 /\ rev (cs_code c1) = before /\
                            rev (cs_code c2) = before ++ body) /\
             Vm.assoc h (Vm.p_labels P) = Some (N.of_nat (length (encode before))) /\
             forall s top rest,
               VmProofs.stack_ok s -> (S (length (VmProofs.stack_of s)) < VmUpvalueProofs.cap s)%nat ->
               Vm.st_calls s = top :: rest ->
               (ar <= N.of_nat (length (VmProofs.stack_of s)))%N -> (S (length rest) < Vm.call_stack_size)%nat ->
               let n := length (VmProofs.stack_of s) in
               let fa := N.of_nat (length (Vm.st_heap s)) in
               let s1 := VmCallProofs.pushed (Vm.set_heap s (Vm.st_heap s ++ [Vm.OFun h ar])) (Vm.VObj fa) in
               Vm.step F bld P reenter (ip + 9) s1 =
                 Vm.SNext (N.of_nat (length (encode before)))
                   (Vm.set_calls (VmCallProofs.popped s1 n)
                      (Vm.mkFrame (ip + 9) (ip + 9 + 1) (N.of_nat n - ar) None
                       :: Vm.mkFrame (Vm.fr_src top) (ip + 9 + 1) (Vm.fr_off top) (Vm.fr_clo top) :: rest))).
Proof. exact VmCallLink.call_executes_designated_body. Qed.
Print Assumptions C08_call_executes_designated_body.

(* how a Call card ends: FunctionPointer (what resolve_function answers for the name after the arguments were
   compiled) and CallFunction are appended next to each other *)
Theorem C08_call_card_emits_pair :
  forall name args s s',
    process_card (CCall name args) s = ROk tt s' ->
    exists s0 m,
      resolve_function name s0 = ROk m s0 /\
      cs_code s' = ICallFunction :: IFunctionPointer (fm_handle m) (fm_arity m) :: cs_code s0 /\
      cs_pc s' = (cs_pc s0 + 9 + 1)%N.
Proof. exact VmCallLink.call_card_emits_pair. Qed.
Print Assumptions C08_call_card_emits_pair.

(* ---- examples: Compiler.compile, then Vm.run (2000 instructions) from the fresh state, for every float
   instance and both build profiles; the triple is (outcome, the globals ga gb r gx, the live stack at the end) ---- *)
(* f(a, b) = [ga := a; gb := b; return a - b];  main = [x := 7; r := f(1, 2); gx := x]:
   a = 2 (the last argument), b = 1, r = 1, the caller's local x is intact *)
Theorem C08_example_call_binding :
  forall F bld, VmCallLink.run_example F bld VmCallLink.ex_bind_module =
    Some (Vm.OOk, [Some (Vm.VInt 2); Some (Vm.VInt 1); Some (Vm.VInt 1); Some (Vm.VInt 7)], []).
Proof. exact VmCallLink.ex_call_binding. Qed.
Print Assumptions C08_example_call_binding.

(* g() = [];  main = [r := g()]: a function that ends without Return yields nil *)
Theorem C08_example_call_nil :
  forall F bld, VmCallLink.run_example F bld VmCallLink.ex_nil_module = Some (Vm.OOk, [None; None; Some Vm.VNil; None], []).
Proof. exact VmCallLink.ex_call_nil. Qed.
Print Assumptions C08_example_call_nil.

(* main = [x := 7; r := f(5, 1, 2); gx := x]: the callee sees the last two arguments; the surplus 5 is still on
   the caller's stack after the call (one value is left on the stack when the run ends) *)
Theorem C08_example_call_surplus :
  forall F bld, VmCallLink.run_example F bld VmCallLink.ex_surplus_module =
    Some (Vm.OOk, [Some (Vm.VInt 2); Some (Vm.VInt 1); Some (Vm.VInt 1); Some (Vm.VInt 7)], [Vm.VInt 7]).
Proof. exact VmCallLink.ex_call_surplus. Qed.
Print Assumptions C08_example_call_surplus.

(* h(a) = [ga := a; a := 99; return 5];  main = [x := 7; r := h(); gx := x] - one argument too few while the
   caller has one slot on the stack: no MissingArgument; h's parameter a IS main's local x (ga = 7) and after the
   Return main's local is gone (gx = nil).  The card-level reference semantics (C01, RefSem) leaves a call with
   fewer arguments than parameters unspecified (code 3); the VM gives it this meaning. *)
Theorem C08_example_short_call :
  forall F bld, VmCallLink.run_example F bld VmCallLink.ex_short_module =
    Some (Vm.OOk, [Some (Vm.VInt 7); None; Some (Vm.VInt 5); Some Vm.VNil], []).
Proof. exact VmCallLink.ex_short_call. Qed.
Print Assumptions C08_example_short_call.

(* h(a) = [];  main = [r := h()]: fewer than arity values on the whole stack -> MissingArgument *)
Theorem C08_example_missing_argument :
  forall F bld, exists tr, VmCallLink.run_example F bld VmCallLink.ex_missing_module =
    Some (Vm.OErr Vm.EMissingArgument tr, [None; None; None; None], []).
Proof. exact VmCallLink.ex_missing_argument. Qed.
Print Assumptions C08_example_missing_argument.

(* main = [r := main()]: N-C08-3 at run time *)
Theorem C08_example_call_main_not_found :
  forall F bld, exists tr, VmCallLink.run_example F bld VmCallLink.ex_callmain_module =
    Some (Vm.OErr (Vm.EProcedureNotFound (handle_from_u64 0)) tr, [None; None; None; None], []).
Proof. exact VmCallLink.ex_call_main_not_found. Qed.
Print Assumptions C08_example_call_main_not_found.

(* the static side of the first example: hypotheses of C08_call_executes_designated_body, the site's target, the
   pair at bytes 32 / 41, labels[Handle(1)] = 59 = the first instruction of f: ReadLocalVar 1 = parameter a *)
Theorem C08_example_call_static :
  module_names_dotfree (with_std std_module VmCallLink.ex_bind_module) = true /\
  label_keys_distinct_module VmCallLink.ex_bind_module 64 = true /\
  spec_resolve (with_std std_module VmCallLink.ex_bind_module) [] [] VmCallLink.x_f = SFound ([], VmCallLink.x_f) /\
  fn_position (with_std std_module VmCallLink.ex_bind_module) [] VmCallLink.x_f 0 = Some 1%nat /\
  exists B, compile VmCallLink.ex_bind_module default_options = COk B /\
    nm_find (handle_from_u64 1) (p_labels B) = Some 59%N /\
    match decode (p_bytecode B) with
    | Some l => In (32%nat, IFunctionPointer (handle_from_u64 1) 2) l /\ In (41%nat, ICallFunction) l /\
                In (59%nat, IReadLocalVar 1) l
    | None => False
    end.
Proof. exact VmCallLink.ex_bind_static. Qed.
Print Assumptions C08_example_call_static.

(* ================================================================== *)
(* ---- the call pair in the RETURNED program; locals at the start of a function body ---- *)
(* ================================================================== *)
(* Vocabulary (CompilerCallPair / CompilerCallPairProg): card_pitems c = ResolveSpec.card_items c with the two items
   of a Call card kept together: PPair name for a Call card, PPtr name for a Function card, PCall for the CallFunction
   of a DynamicCall card; site_pitems st = the items of the cards of tree function st, each paired with st;
   subcard x c = x is c or a descendant of c (CardEdit.iter_children = Card::iter_children, transitively);
   erase i = i with the operand of Goto / GotoIfTrue / GotoIfFalse set to 0 (every other instruction unchanged);
   layout ok items l = l is  quiet* seg_1 quiet* ... seg_n quiet*  with ok item_k seg_k and every "quiet"
   instruction neither a FunctionPointer nor a CallFunction; site_seg_ok root (st, item) seg = seg is
   [FunctionPointer (Handle pos) ar; CallFunction] for PPair name, [FunctionPointer (Handle pos) ar] for PPtr name -
   (pos, ar) = site_target root st name, the specification's answer - and [CallFunction] for PCall. *)

(* C08_program_call_layout: the instruction list of a compiled module, function by function in compile order and
   card by card in compile order.  The compiler touches its code buffer only by appending an instruction and by
   rewriting the operand of a jump (patch_jump_here); so nothing is ever inserted between the two instructions a
   Call card appends.  The same list has C08_call_resolves's call skeleton. *)
Theorem C08_program_call_layout :
  forall M o B,
    compile M o = COk B ->
    module_names_dotfree (with_std std_module M) = true ->
    exists is mi,
      p_bytecode B = encode is /\
      main_index (m_functions M) 0 = Some mi /\
      Forall2 (site_item_ok (with_std std_module M))
              (flat_map site_items (swap0 (tree_functions (with_std std_module M) []) mi))
              (filter is_call_instr is) /\
      layout (site_seg_ok (with_std std_module M))
             (flat_map site_pitems (swap0 (tree_functions (with_std std_module M) []) mi))
             (map erase is).
Proof. exact compile_call_layout. Qed.
Print Assumptions C08_program_call_layout.

(* C08_call_pair_in_program: (a) of the "Not covered" note above.  In the instruction list of the returned program,
   for the k-th item of the compile order when it is a Call card of function st - and hence for every Call card
   `name(args)` at any nesting below a card of any function st of the tree (with_std std_module M) -
   FunctionPointer (Handle pos) ar is IMMEDIATELY followed by CallFunction, where (pos, ar) is what the
   specification designates for `name` from st's module with st's imports; and this FunctionPointer is the
   compilation of that very reference: it is the instruction C08_call_resolves pairs with (st, CPtr name). *)
Theorem C08_call_pair_in_program :
  forall M o B,
    compile M o = COk B ->
    module_names_dotfree (with_std std_module M) = true ->
    let root := with_std std_module M in
    exists is mi,
      p_bytecode B = encode is /\
      main_index (m_functions M) 0 = Some mi /\
      Forall2 (site_item_ok root) (flat_map site_items (swap0 (tree_functions root []) mi)) (filter is_call_instr is) /\
      (forall k st name,
         nth_error (flat_map site_pitems (swap0 (tree_functions root []) mi)) k = Some (st, PPair name) ->
         exists a b pos arn,
           is = a ++ IFunctionPointer (handle_from_u64 (N.of_nat pos)) (N.of_nat arn mod two32)%N :: ICallFunction :: b /\
           site_target root st name = Some (pos, arn) /\
           nth_error (flat_map site_items (swap0 (tree_functions root []) mi)) (length (filter is_call_instr a))
             = Some (st, CPtr name)) /\
      (forall st c name args,
         In st (tree_functions root []) -> In c (f_cards (fs_fn st)) -> subcard (CCall name args) c ->
         exists a b pos arn,
           is = a ++ IFunctionPointer (handle_from_u64 (N.of_nat pos)) (N.of_nat arn mod two32)%N :: ICallFunction :: b /\
           site_target root st name = Some (pos, arn) /\
           nth_error (flat_map site_items (swap0 (tree_functions root []) mi)) (length (filter is_call_instr a))
             = Some (st, CPtr name)).
Proof. exact compile_call_pair_in_program. Qed.
Print Assumptions C08_call_pair_in_program.

(* C08_call_card_executes_designated_body: C08_call_executes_designated_body with its hypothesis "wherever the pair
   occurs" discharged for Call cards.  For every Call card `name(args)` at any nesting in any function st of the
   tree there is an address ip = bytes a in the returned program at which the pair lies, h / ar are the handle
   (position) and arity of the function the specification designates for `name` from st, and (ii) the two dispatches
   and (iii) the continuation at the first byte of the designated function's code hold there. *)
Local Open Scope N_scope.
Theorem C08_call_card_executes_designated_body :
  forall F bld reenter M o B,
  compile M o = COk B ->
  module_names_dotfree (with_std std_module M) = true ->
  let root := with_std std_module M in
  let P := to_vm B in
  exists is mi,
    p_bytecode B = encode is /\ main_index (m_functions M) 0 = Some mi /\
    forall st c name args,
      In st (tree_functions root []) -> In c (f_cards (fs_fn st)) -> subcard (CCall name args) c ->
      exists a b pos arn,
        let h := handle_from_u64 (N.of_nat pos) in
        let ar := N.of_nat arn mod two32 in
        let ip := CompilerWf.bytes a in
        is = a ++ IFunctionPointer h ar :: ICallFunction :: b /\
        site_target root st name = Some (pos, arn) /\
        nth_error (flat_map site_items (swap0 (tree_functions root []) mi)) (length (filter is_call_instr a))
          = Some (st, CPtr name) /\
        (* (ii) the two dispatches *)
        (forall s top rest,
           VmProofs.stack_ok s -> (S (length (VmProofs.stack_of s)) < VmUpvalueProofs.cap s)%nat ->
           Vm.st_calls s = top :: rest ->
           let n := length (VmProofs.stack_of s) in
           let fa := N.of_nat (length (Vm.st_heap s)) in
           let s1 := VmCallProofs.pushed (Vm.set_heap s (Vm.st_heap s ++ [Vm.OFun h ar])) (Vm.VObj fa) in
           let s2 := VmCallProofs.popped s1 n in
           Vm.step F bld P reenter ip s = Vm.SNext (ip + 9) s1 /\
           Vm.step F bld P reenter (ip + 9) s1 = VmCallProofs.call_result P (ip + 9) s2 n h ar None top rest /\
           VmProofs.stack_ok s2 /\ VmProofs.stack_of s2 = VmProofs.stack_of s) /\
        (* (iii) for every target but `main`: labels[h] is the first byte of the code of the designated function *)
        (pos <> mi -> label_keys_distinct_module M (o_recursion_limit o) = true ->
         exists fid tgt f before body rest',
           spec_resolve root (fs_path st) (fs_imports st) name = SFound fid /\
           nth_error (tree_functions root []) pos = Some tgt /\
           fs_path tgt = fst fid /\ fs_name tgt = snd fid /\ function_at root fid = Some (fs_fn tgt) /\
           ir_of (N.of_nat pos) tgt f /\
           p_bytecode B = encode before ++ encode body ++ encode rest' /\
           (exists c1 c2, compile_other f c1 = ROk tt c2 /\ rev (cs_code c1) = before /\
                          rev (cs_code c2) = before ++ body) /\
           Vm.assoc h (Vm.p_labels P) = Some (N.of_nat (length (encode before))) /\
           forall s top rest,
             VmProofs.stack_ok s -> (S (length (VmProofs.stack_of s)) < VmUpvalueProofs.cap s)%nat ->
             Vm.st_calls s = top :: rest ->
             (ar <= N.of_nat (length (VmProofs.stack_of s)))%N -> (S (length rest) < Vm.call_stack_size)%nat ->
             let n := length (VmProofs.stack_of s) in
             let fa := N.of_nat (length (Vm.st_heap s)) in
             let s1 := VmCallProofs.pushed (Vm.set_heap s (Vm.st_heap s ++ [Vm.OFun h ar])) (Vm.VObj fa) in
             Vm.step F bld P reenter (ip + 9) s1 =
               Vm.SNext (N.of_nat (length (encode before)))
                 (Vm.set_calls (VmCallProofs.popped s1 n)
                    (VmCallProofs.callee_frame (ip + 9) n ar None :: VmCallProofs.caller_frame (ip + 9) top :: rest))).
Proof. exact VmCallPairLink.call_card_executes_designated_body. Qed.
Print Assumptions C08_call_card_executes_designated_body.
Local Close Scope N_scope.

(* C08_function_body_starts_without_locals: (b) of the note at C08_param_binding.  In a successful run of compile_ir on
   fs = pre ++ g :: post, the state c0 in which g's parameters are declared - reached by before_body: stage 1, then
   compile_main of the first function and compile_others of the rest of pre, then g's own prologue (index, handle,
   label, scope_begin, namespace / imports), or main's prologue when g is the first function - has
   cs_locals = [[]] and scope depth 1; from c0 the parameters are declared and the cards compiled. *)
Theorem C08_function_body_starts_without_locals :
  forall fs d s_end pre g post,
    compile_ir fs (init_state d) = ROk tt s_end -> fs = pre ++ g :: post ->
    exists c0 c1 c2,
      before_body fs pre g (init_state d) = ROk tt c0 /\
      add_locals (rev (fi_args g)) c0 = ROk tt c1 /\
      process_cards (fi_cards g) 0 c1 = ROk tt c2 /\
      cs_locals c0 = [[]] /\ cs_depth c0 = [1%Z] /\ cs_ns c0 = fi_ns g /\ cs_imports c0 = fi_imports g.
Proof. exact function_body_starts_without_locals. Qed.
Print Assumptions C08_function_body_starts_without_locals.

(* ... because every card keeps the scope discipline: from a state whose levels (cs_depth, cs_locals) satisfy
   scopes_ok - depth >= 0, every local declared at a depth >= 1, no locals at depth 0 - and whose innermost depth is
   >= 1, a successful process_card ends in such a state with the same depths (each scope_begin is matched by a
   scope_end, each compile_begin by a compile_end); the function's final scope_end, back to depth 0, pops
   every local. *)
Theorem C08_card_keeps_scopes :
  forall c d ds s s',
    (1 <= d)%Z -> scopes_ok s -> cs_depth s = d :: ds -> process_card c s = ROk tt s' ->
    scopes_ok s' /\ cs_depth s' = d :: ds.
Proof. exact card_keeps_scopes. Qed.
Print Assumptions C08_card_keeps_scopes.

(* a closure body, in ANY state: the prologue of a Closure card (label, jump over the body, compile_begin - which
   pushes a fresh, empty locals list -, the closure's label, scope_begin) ends in a state whose innermost locals
   list is empty; there the parameters are declared.  (C08_param_binding applies to c0 with any f whose fi_args
   are the closure's parameters.) *)
Theorem C08_closure_body_starts_without_locals :
  forall args cards s s',
    process_card (CClosure args cards) s = ROk tt s' ->
    exists c0 c1, closure_prologue s = ROk tt c0 /\ add_locals (rev args) c0 = ROk tt c1 /\
                  cs_locals c0 = [] :: cs_locals s /\ cs_ns c0 = cs_ns s /\ cs_imports c0 = cs_imports s.
Proof. exact closure_body_starts_without_locals. Qed.
Print Assumptions C08_closure_body_starts_without_locals.

(* C08_param_binding_compiled: C08_param_binding for every function g of a compiled module, without the hypotheses
   on the locals: c0 is the state of C08_function_body_starts_without_locals. *)
Local Open Scope N_scope.
Theorem C08_param_binding_compiled :
  forall M o B fs pre (g : function_ir) post m,
  compile M o = COk B ->
  into_ir_stream M (o_recursion_limit o) = inr fs -> fs = pre ++ g :: post ->
  NoDup (fi_args g) -> (m < length (fi_args g))%nat ->
  exists c0 c1 c2,
    before_body fs pre g (init_state (o_debug o)) = ROk tt c0 /\
    add_locals (rev (fi_args g)) c0 = ROk tt c1 /\
    process_cards (fi_cards g) 0 c1 = ROk tt c2 /\
    cs_locals c0 = [[]] /\ cs_ns c0 = fi_ns g /\ cs_imports c0 = fi_imports g /\
  let n := length (fi_args g) in
  let p := nth m (fi_args g) [] in
  let j := N.of_nat (n - 1 - m) in
  N.of_nat n mod two32 = N.of_nat n /\
  resolve_var p c1 = ROk (VLocal j) c1 /\
  (~ In c_dot p -> read_var_card p c1 = push_instr (IReadLocalVar j) c1) /\
  forall F bld P reenter ip0 s low vals a (is_clo : bool) h ups top rest pos,
    C04VmProofs.opcode_at P ip0 = 11 -> VmProofs.stack_ok s ->
    VmProofs.stack_of s = (low ++ vals) ++ [Vm.VObj a] ->
    Vm.hget (Vm.st_heap s) a = Some (VmNativeProofs.callee_obj is_clo h (N.of_nat n) ups) ->
    Vm.st_calls s = top :: rest ->
    (n <= length vals)%nat -> (S (length rest) < Vm.call_stack_size)%nat -> Vm.assoc h (Vm.p_labels P) = Some pos ->
    let fr := VmCallProofs.callee_frame ip0 (length (low ++ vals)) (N.of_nat n) (if is_clo then Some a else None) in
    Vm.step F bld P reenter ip0 s =
      Vm.SNext pos (Vm.set_calls (VmCallProofs.popped s (length (low ++ vals)))
                      (fr :: VmCallProofs.caller_frame ip0 top :: rest)) /\
    forall x cs tmp ip,
      Vm.st_calls x = fr :: cs -> VmProofs.stack_ok x -> VmProofs.stack_of x = low ++ vals ++ tmp ->
      (S (length (VmProofs.stack_of x)) < VmUpvalueProofs.cap x)%nat ->
      C01SimVm.code_at P ip (IReadLocalVar j) ->
      Vm.step F bld P reenter ip x =
        Vm.SNext (ip + 5) (VmCallProofs.pushed x (nth (length vals - 1 - m) vals Vm.VNil)).
Proof. exact VmCallPairLink.param_binding_compiled. Qed.
Print Assumptions C08_param_binding_compiled.
Local Close Scope N_scope.

(* ---- example: f(a, b) = [ga := a; gb := b; return a - b];  g() = [return 5];
               main = [x := 7; r := f(g(), 2); gx := x]  (C08PairWitness) ---- *)
(* the hypotheses of C08_call_pair_in_program / C08_call_card_executes_designated_body for the outer call and for
   the call nested in its argument list, the targets, and the two pairs at bytes 14/23 and 33/42 *)
Theorem C08_example_nested_call_pairs :
  let root := with_std std_module C08PairWitness.ex_nested_module in
  module_names_dotfree root = true /\
  label_keys_distinct_module C08PairWitness.ex_nested_module 64 = true /\
  In C08PairWitness.nested_site (tree_functions root []) /\
  In (CSetGlobalVar VmCallLink.x_r C08PairWitness.nested_call) (f_cards (fs_fn C08PairWitness.nested_site)) /\
  subcard C08PairWitness.nested_call (CSetGlobalVar VmCallLink.x_r C08PairWitness.nested_call) /\
  subcard (CCall VmCallLink.x_g []) (CSetGlobalVar VmCallLink.x_r C08PairWitness.nested_call) /\
  site_target root C08PairWitness.nested_site VmCallLink.x_f = Some (1%nat, 2%nat) /\
  site_target root C08PairWitness.nested_site VmCallLink.x_g = Some (2%nat, 0%nat) /\
  exists B, compile C08PairWitness.ex_nested_module default_options = COk B /\
    match decode (p_bytecode B) with
    | Some l => In (14%nat, IFunctionPointer (handle_from_u64 2) 0) l /\ In (23%nat, ICallFunction) l /\
                In (33%nat, IFunctionPointer (handle_from_u64 1) 2) l /\ In (42%nat, ICallFunction) l
    | None => False
    end.
Proof. exact C08PairWitness.ex_nested_call_pairs. Qed.
Print Assumptions C08_example_nested_call_pairs.

(* the hypotheses of C08_function_body_starts_without_locals / C08_param_binding_compiled for f *)
Theorem C08_example_nested_param_hyps :
  exists B fs pre g post,
    compile C08PairWitness.ex_nested_module default_options = COk B /\
    into_ir_stream C08PairWitness.ex_nested_module (o_recursion_limit default_options) = inr fs /\
    fs = pre ++ g :: post /\ length pre = 1%nat /\
    fi_name g = VmCallLink.x_f /\ fi_args g = [VmCallLink.x_pa; VmCallLink.x_pb] /\ NoDup (fi_args g) /\
    (1 < length (fi_args g))%nat.
Proof. exact C08PairWitness.ex_nested_param_hyps. Qed.
Print Assumptions C08_example_nested_param_hyps.

(* at run time: a = 2 (the last argument), b = g() = 5, r = 2 - 5; the caller's local is intact *)
Theorem C08_example_nested_run :
  forall F bld, VmCallLink.run_example F bld C08PairWitness.ex_nested_module =
    Some (Vm.OOk, [Some (Vm.VInt 2); Some (Vm.VInt 5); Some (Vm.VInt (-3)); Some (Vm.VInt 7)], []).
Proof. exact C08PairWitness.ex_nested_run. Qed.
Print Assumptions C08_example_nested_run.

(* the hypotheses of C08_card_keeps_scopes: a Repeat card with a loop variable whose body assigns a new variable,
   compiled in the state of a function body (one level at depth 1, no locals) *)
Theorem C08_example_card_keeps_scopes :
  let s := set_scopes [[]] [[]] [1%Z] (init_state true) in
  let c := CRepeat (Some VmCallLink.x_x) (CScalarInt 3) (CSetVar VmCallLink.x_r (CReadVar VmCallLink.x_x)) in
  scopes_ok s /\ cs_depth s = [1%Z] /\
  exists s', process_card c s = ROk tt s' /\ cs_depth s' = [1%Z] /\ cs_locals s' = [[]].
Proof. exact C08PairWitness.ex_card_keeps_scopes. Qed.
Print Assumptions C08_example_card_keeps_scopes.
