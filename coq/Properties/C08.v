(* C08 - a call invokes exactly the function that name resolution designates.
   Statements only; proofs are in Cao.CompilerResolve, Cao.ResolveProofs (the four lookup rules),
   Cao.ResolveTree (front end = tree), Cao.CompilerCalls (module level), Cao.CompilerLabels (labels),
   Cao.C08Examples.  The specification is ResolveSpec.v (module tree level, independent of the compiler
   model); the run-time half (CallFunction runs the code at the label of the pointer's handle, parameter
   binding, caller locals, return value) is checked by the C08 correspondence stream on the real Vm. *)
From Coq Require Import List NArith ZArith.
From Cao Require Import ListUtil Bits CardAst Bytecode Compiler StdlibGen ResolveSpec CompilerResolve ResolveProofs
  ResolveTree CompilerProofs CompilerLabels CompilerCalls C08Examples.
Import ListNotations.

(* ---- resolution never panics or diverges; its result is a declared function ---- *)
Theorem C08_resolve_outcomes :
  forall n s,
    (exists m key, resolve_function n s = ROk m s /\ sm_find key (cs_jump s) = Some m) \/
    resolve_function n s = RErr (EInvalidJump n) (Some (cur_loc s)) \/
    resolve_function n s = RErr ESuperLimitReached (Some (cur_loc s)).
Proof. exact resolve_outcomes. Qed.
Print Assumptions C08_resolve_outcomes.

(* ---- resolve_sound / resolve_complete, all four rules ----
   [table_matches root jt]: the jump table has an entry for a key exactly when the key, read as a dotted
   path from the root, is a function of the tree (C08_compile_table_matches below: true for the table of
   every module that compiles and whose module names contain no '.').  [il] is the caller module's
   import list and cs_imports the table the model's execute_imports builds from it.
   The model and the specification designate the same function - the result is the table entry of that
   function - or fail with the corresponding error.  The priority between the rules is part of the
   statement: spec_resolve returns the first rule's function, and so does the model. *)
Theorem C08_resolve_agrees :
  forall root il name s,
    table_matches root (cs_jump s) ->
    Forall dotfree (cs_ns s) ->
    execute_imports il [] = inr (cs_imports s) ->
    match spec_resolve root (cs_ns s) il name with
    | SFound f => exists m, sm_find (ns_prefix (fst f) ++ snd f) (cs_jump s) = Some m /\
                            resolve_function name s = ROk m s
    | SNotFound => resolve_function name s = RErr (EInvalidJump name) (Some (cur_loc s))
    | SSuperLimit => resolve_function name s = RErr ESuperLimitReached (Some (cur_loc s))
    end.
Proof. exact resolve_agrees. Qed.
Print Assumptions C08_resolve_agrees.

Theorem C08_resolve_sound :
  forall root il name s m s',
    table_matches root (cs_jump s) -> Forall dotfree (cs_ns s) -> execute_imports il [] = inr (cs_imports s) ->
    resolve_function name s = ROk m s' ->
    s' = s /\ exists f, spec_resolve root (cs_ns s) il name = SFound f /\
                        sm_find (ns_prefix (fst f) ++ snd f) (cs_jump s) = Some m.
Proof. exact resolve_sound. Qed.
Print Assumptions C08_resolve_sound.

Theorem C08_resolve_complete :
  forall root il name s f,
    table_matches root (cs_jump s) -> Forall dotfree (cs_ns s) -> execute_imports il [] = inr (cs_imports s) ->
    spec_resolve root (cs_ns s) il name = SFound f ->
    exists m, resolve_function name s = ROk m s /\ sm_find (ns_prefix (fst f) ++ snd f) (cs_jump s) = Some m.
Proof. exact resolve_complete. Qed.
Print Assumptions C08_resolve_complete.

(* InvalidJump <-> SNotFound, SuperLimitReached <-> SSuperLimit, and no other error *)
Theorem C08_resolve_errors :
  forall root il name s,
    table_matches root (cs_jump s) -> Forall dotfree (cs_ns s) -> execute_imports il [] = inr (cs_imports s) ->
    (forall e l, resolve_function name s = RErr e l ->
       l = Some (cur_loc s) /\
       ((e = EInvalidJump name /\ spec_resolve root (cs_ns s) il name = SNotFound) \/
        (e = ESuperLimitReached /\ spec_resolve root (cs_ns s) il name = SSuperLimit))) /\
    (spec_resolve root (cs_ns s) il name = SNotFound ->
       resolve_function name s = RErr (EInvalidJump name) (Some (cur_loc s))) /\
    (spec_resolve root (cs_ns s) il name = SSuperLimit ->
       resolve_function name s = RErr ESuperLimitReached (Some (cur_loc s))).
Proof. exact resolve_errors. Qed.
Print Assumptions C08_resolve_errors.

(* ---- bad_names_rejected ---- *)
(* duplicates by full name, at any depth: stage 1 succeeds only on pairwise distinct full names *)
Theorem C08_duplicate_name_rejected :
  forall fs d, ~ NoDup (map fi_full_name fs) ->
               exists n l, stage_1 fs (init_state d) = RErr (EDuplicateName n) l.
Proof. exact duplicate_name_rejected. Qed.
Print Assumptions C08_duplicate_name_rejected.

(* a user module named like the injected standard library *)
Theorem C08_std_module_rejected :
  forall subs funs imps o, In s_std (map fst subs) ->
    exists d, compile (Module subs funs imps) o = CErr (EDuplicateModule d) (Some loc_default).
Proof. exact std_module_rejected. Qed.
Print Assumptions C08_std_module_rejected.

Theorem C08_no_main_rejected :
  forall subs funs imps o,
    (forall nf, In nf funs -> str_eqb (fst nf) s_main = false) ->
    (exists d, compile (Module subs funs imps) o = CErr (EDuplicateModule d) (Some loc_default)) \/
    compile (Module subs funs imps) o = CErr ENoMain (Some loc_default).
Proof. exact no_main_rejected. Qed.
Print Assumptions C08_no_main_rejected.

(* invalid function names (is_name_valid) in any module that is flattened *)
Theorem C08_bad_function_name_rejected :
  forall fs name fid ns imports out n,
    In name (map fst fs) -> is_name_valid name = false ->
    exists bad, flatten_functions fs fid ns imports out n = inl (EBadFunctionName bad).
Proof. exact bad_function_name_rejected. Qed.
Print Assumptions C08_bad_function_name_rejected.

(* malformed imports, and what the import errors mean *)
Theorem C08_bad_import_rejected :
  forall imps imp, In imp imps -> rsplit_once_c c_dot imp = None -> exists e, execute_imports imps [] = inl e.
Proof. exact bad_import_rejected. Qed.
Print Assumptions C08_bad_import_rejected.
Theorem C08_import_errors :
  forall imps acc e, execute_imports imps acc = inl e ->
    exists imp, In imp imps /\
      ((e = EBadImport imp /\ rsplit_once_c c_dot imp = None) \/
       (e = EAmbigousImport imp /\ exists pre key, rsplit_once_c c_dot imp = Some (pre, key))).
Proof. exact execute_imports_errors. Qed.
Print Assumptions C08_import_errors.

(* every error of the flattening front end is the result of compile (never a panic) *)
Theorem C08_front_end_error :
  forall M o e, into_ir_stream M (o_recursion_limit o) = inl e -> compile M o = CErr e (Some loc_default).
Proof. exact front_end_error. Qed.
Print Assumptions C08_front_end_error.

(* ---- call_targets_body ---- *)
(* after stage 1 the jump table maps exactly the full names of the IR functions to (handle, arity) *)
Theorem C08_jump_table :
  forall fs d s', stage_1 fs (init_state d) = ROk tt s' -> table_of fs (cs_jump s').
Proof. exact stage_1_ok_table. Qed.
Print Assumptions C08_jump_table.

(* the FunctionPointer emitted for a Call / Function card carries the handle and arity of a declared
   function: the one whose full name the resolution found *)
Theorem C08_call_target_meta :
  forall fs n s m s',
    table_of fs (cs_jump s) -> resolve_function n s = ROk m s' ->
    s' = s /\ exists f, In f fs /\ fm_handle m = fi_handle f /\
                        fm_arity m = (N.of_nat (length (fi_args f)) mod two32)%N.
Proof. exact call_target_meta. Qed.
Print Assumptions C08_call_target_meta.

(* labels[handle f] = first byte of f's code: put there by compile_other, kept by every card label
   (entry never overwrites), and kept by a closure / function label of a DIFFERENT handle.  That
   function and closure handles are pairwise distinct is the obligation the compiler does not check
   (32-bit hashes): it appears here as the hypothesis h <> k. *)
Theorem C08_function_label_at_start :
  forall h s s', label_insert_here h s = ROk tt s' ->
                 nm_find h (cs_labels s') = Some (cs_pc s) /\ cs_pc s' = cs_pc s.
Proof. exact function_label_at_start. Qed.
Print Assumptions C08_function_label_at_start.
Theorem C08_label_kept_by_card_labels :
  forall h k s s', label_entry_here k s = ROk tt s' ->
                   forall p, nm_find h (cs_labels s) = Some p -> nm_find h (cs_labels s') = Some p.
Proof. exact label_entry_preserves. Qed.
Print Assumptions C08_label_kept_by_card_labels.
Theorem C08_label_kept_if_distinct :
  forall h k s s', h <> k -> label_insert_here k s = ROk tt s' ->
                   forall p, nm_find h (cs_labels s) = Some p -> nm_find h (cs_labels s') = Some p.
Proof. exact label_insert_preserves. Qed.
Print Assumptions C08_label_kept_if_distinct.

(* ---- the jump table of a compiled module matches the tree ---- *)
(* [with_std std_module M] is the tree the compiler flattens (the standard library injected as the last
   submodule).  module_names_dotfree is the decidable side condition "no module name contains '.'":
   module names are not validated by the compiler, and with a dotted module name two different functions
   can have the same full name. *)
Theorem C08_compile_table_matches :
  forall M limit fs d s1,
    into_ir_stream M limit = inr fs -> module_names_dotfree (with_std std_module M) = true ->
    stage_1 fs (init_state d) = ROk tt s1 ->
    table_matches (with_std std_module M) (cs_jump s1).
Proof. exact compile_table_matches. Qed.
Print Assumptions C08_compile_table_matches.

(* the flattening front end enumerates exactly ResolveSpec.tree_functions, numbered consecutively
   (handle of the k-th function = Handle::from_u64(k)), `main` swapped to the front *)
Theorem C08_ir_stream_is_tree :
  forall M limit fs,
    into_ir_stream M limit = inr fs ->
    ensure_invariants (with_std std_module M) = None /\
    exists irs i, fs = swap0 irs i /\ irs_from 0 (tree_functions (with_std std_module M) []) irs.
Proof. exact into_ir_stream_spec. Qed.
Print Assumptions C08_ir_stream_is_tree.

(* the table entry of a declared function: its position (as a handle) and its arity *)
Theorem C08_entry_is_position :
  forall root irs fs jt p g m,
    irs_from 0 (tree_functions root []) irs -> (forall f, In f fs <-> In f irs) -> table_of fs jt ->
    lookup root p g = Some (p, g) -> sm_find (ns_prefix p ++ g) jt = Some m ->
    exists pos fn, fn_position root p g 0 = Some pos /\ function_at root (p, g) = Some fn /\
                   fm_handle m = handle_from_u64 (N.of_nat pos) /\
                   fm_arity m = (N.of_nat (length (f_args fn)) mod two32)%N.
Proof. exact entry_is_position. Qed.
Print Assumptions C08_entry_is_position.

(* ---- C08_call_resolves: every static call of a compiled module carries the designated target ----
   The call skeleton of the program (its FunctionPointer and CallFunction instructions, in program
   order) is, function by function in compile order (tree_functions with `main` swapped to the front),
   card by card in compile order (ResolveSpec.card_items): one FunctionPointer per Call / Function card,
   whose handle is Handle(position) and whose arity is the parameter count of the function that
   spec_resolve designates for the card's name from that function's module path with that module's
   import list (site_target), followed by CallFunction for a Call card.  In particular every such name
   resolves (site_target is Some) whenever the module compiles. *)
Theorem C08_call_resolves :
  forall M o B,
    compile M o = COk B ->
    module_names_dotfree (with_std std_module M) = true ->
    exists is mi,
      p_bytecode B = encode is /\
      main_index (m_functions M) 0 = Some mi /\
      Forall2 (site_item_ok (with_std std_module M))
              (flat_map site_items (swap0 (tree_functions (with_std std_module M) []) mi))
              (filter is_call_instr is).
Proof. exact compile_calls. Qed.
Print Assumptions C08_call_resolves.

(* the same, call by call: if the module compiles, every static call / function reference of every
   function of the tree resolves under the specification (so: a name that resolves to nothing is a
   compilation error), and the FunctionPointer of its target is in the program *)
Theorem C08_every_call_resolves :
  forall M o B,
    compile M o = COk B ->
    module_names_dotfree (with_std std_module M) = true ->
    exists is, p_bytecode B = encode is /\
      forall st name,
        In st (tree_functions (with_std std_module M) []) ->
        In (CPtr name) (flat_map card_items (f_cards (fs_fn st))) ->
        exists pos ar, site_target (with_std std_module M) st name = Some (pos, ar) /\
                       In (IFunctionPointer (handle_from_u64 (N.of_nat pos)) (N.of_nat ar mod two32)%N) is.
Proof. exact compile_every_call_resolves. Qed.
Print Assumptions C08_every_call_resolves.

(* and conversely for the errors: compile returns InvalidJump / SuperLimitReached only because some
   static call or function reference of the tree has exactly that outcome under the specification *)
Theorem C08_resolve_error_is_unresolved_call :
  forall M o e l,
    compile M o = CErr e l -> is_resolve_err e = true ->
    module_names_dotfree (with_std std_module M) = true ->
    exists st name,
      In st (tree_functions (with_std std_module M) []) /\
      In (CPtr name) (flat_map card_items (f_cards (fs_fn st))) /\
      ((e = EInvalidJump name /\ spec_resolve (with_std std_module M) (fs_path st) (fs_imports st) name = SNotFound) \/
       (e = ESuperLimitReached /\ spec_resolve (with_std std_module M) (fs_path st) (fs_imports st) name = SSuperLimit)).
Proof. exact compile_resolve_error. Qed.
Print Assumptions C08_resolve_error_is_unresolved_call.

(* ---- C08_label_points_to_body: labels[handle g] is the first byte of g's code ----
   label_keys_distinct is the decidable condition the compiler does not check: the 32-bit keys of all
   function labels and closure labels (CompilerLabels.insert_keys: a pure traversal of the cards that
   mirrors the compiler's card indices) are pairwise distinct.  g is any function but the first (main,
   which gets no label). *)
Theorem C08_label_points_to_body :
  forall M o B fs pre g post,
    into_ir_stream M (o_recursion_limit o) = inr fs -> fs = pre ++ g :: post -> pre <> [] ->
    compile M o = COk B -> label_keys_distinct fs = true ->
    exists before body rest,
      p_bytecode B = encode before ++ encode body ++ encode rest /\
      nm_find (fi_handle g) (p_labels B) = Some (N.of_nat (length (encode before))) /\
      (exists s1 s2, compile_other g s1 = ROk tt s2 /\ rev (cs_code s1) = before /\ rev (cs_code s2) = before ++ body).
Proof. exact compile_label_points_to_body. Qed.
Print Assumptions C08_label_points_to_body.

(* the same by position in the tree: the handle a call carries (C08_call_resolves) is the key of the
   label of the designated function, and that label is the start of its code *)
Theorem C08_label_of_position :
  forall M o B pos st,
    compile M o = COk B ->
    label_keys_distinct_module M (o_recursion_limit o) = true ->
    nth_error (tree_functions (with_std std_module M) []) pos = Some st ->
    main_index (m_functions M) 0 <> Some pos ->
    exists f before body rest,
      ir_of (N.of_nat pos) st f /\
      p_bytecode B = encode before ++ encode body ++ encode rest /\
      nm_find (handle_from_u64 (N.of_nat pos)) (p_labels B) = Some (N.of_nat (length (encode before))) /\
      exists s1 s2, compile_other f s1 = ROk tt s2 /\ rev (cs_code s1) = before /\ rev (cs_code s2) = before ++ body.
Proof. exact compile_label_of_position. Qed.
Print Assumptions C08_label_of_position.

(* the excluded position: `main` is compiled first and gets no label (known finding N-C08-3: a static
   call of main compiles - C08_call_resolves gives it Handle(position of main) - and fails at run time
   with ProcedureNotFound).  Witness on main = [main()]: *)
Theorem C08_main_has_no_label :
  spec_resolve (with_std std_module ex_call_main_module) [] [] s_main = SFound ([], s_main) /\
  fn_position (with_std std_module ex_call_main_module) [] s_main 0 = Some 0%nat /\
  exists B, compile ex_call_main_module default_options = COk B /\
            In (IFunctionPointer (handle_from_u64 0) 0)
               (match decode (p_bytecode B) with Some l => map snd l | None => [] end) /\
            nm_find (handle_from_u64 0) (p_labels B) = None.
Proof. exact ex_main_has_no_label. Qed.
Print Assumptions C08_main_has_no_label.

(* ---- examples: root { main = [a.b.go()]; lib { g }; a { util { h(x, y) };
                        b { imports = [super.super.lib.g, super.util]; go = [g(); util.h(1, 2); &g] } } } ---- *)
Theorem C08_example_super_spec :
  module_names_dotfree ex_super_root = true /\
  spec_resolve ex_super_root [w_a; w_b] ex_b_imports w_g = SFound ([w_lib], w_g) /\
  spec_resolve ex_super_root [w_a; w_b] ex_b_imports (dotted [w_util; w_h]) = SFound ([w_a; w_util], w_h) /\
  fn_position ex_super_root [w_lib] w_g 0 = Some 1%nat /\
  fn_position ex_super_root [w_a; w_util] w_h 0 = Some 2%nat /\
  fn_position ex_super_root [w_a; w_b] w_go 0 = Some 3%nat.
Proof. exact ex_super_spec. Qed.
Print Assumptions C08_example_super_spec.

Theorem C08_example_super_compiled :
  exists B is, compile ex_super_module default_options = COk B /\ p_bytecode B = encode is /\
    firstn 7 (filter is_call_instr is) =
      [IFunctionPointer (handle_from_u64 3) 0; ICallFunction;
       IFunctionPointer (handle_from_u64 1) 0; ICallFunction;
       IFunctionPointer (handle_from_u64 2) 2; ICallFunction;
       IFunctionPointer (handle_from_u64 1) 0].
Proof. exact ex_super_compiled. Qed.
Print Assumptions C08_example_super_compiled.

Theorem C08_example_super_label :
  label_keys_distinct_module ex_super_module 64 = true /\
  exists B before body rest p,
    compile ex_super_module default_options = COk B /\
    p_bytecode B = encode before ++ encode body ++ encode rest /\
    nm_find (handle_from_u64 3) (p_labels B) = Some p /\
    p = N.of_nat (length (encode before)) /\
    match decode (p_bytecode B) with
    | Some l => In (N.to_nat p, IFunctionPointer (handle_from_u64 1) 0) l
    | None => False
    end.
Proof. exact ex_super_label. Qed.
Print Assumptions C08_example_super_label.

(* ---- findings N-C08-1 / N-C08-2 (confirmed on the crate at 2f34106, repaired by 4a89bbc) ---- *)
(* the former super_depth counted the substring "super." inside an ordinary segment such as xsuper *)
Theorem C08_super_depth_legacy_refuted :
  super_depth_legacy (w_xsuper ++ [c_dot] ++ w_bar) = Some (1%nat, Some w_bar) /\
  super_depth (w_xsuper ++ [c_dot] ++ w_bar) = Some (0%nat, None).
Proof. exact super_depth_legacy_refuted. Qed.
Print Assumptions C08_super_depth_legacy_refuted.

(* root { imports = ["xsuper.bar"]; xsuper { bar }; main = [Call bar] }: the specification designates
   xsuper.bar and the compiled call carries its handle (function 1 in the compiler's order) *)
Theorem C08_import_of_xsuper_repaired :
  spec_resolve (Module [(w_xsuper, Module [] [(w_bar, fn0 [CScalarNil])] [])] [(s_main, fn0 [CCall w_bar []])] [])
               [] [w_xsuper ++ [c_dot] ++ w_bar] w_bar = SFound ([w_xsuper], w_bar) /\
  exists B, compile n_c08_1_module {| o_recursion_limit := 64%N; o_debug := true |} = COk B /\
            In (IFunctionPointer (handle_from_u64 1) 0)
               (match decode (p_bytecode B) with Some l => map snd l | None => [] end).
Proof. exact n_c08_1_repaired. Qed.
Print Assumptions C08_import_of_xsuper_repaired.

(* xsuper { util { f }; m1 { imports = ["super.util"]; g = [Call util.f] } }: a module imported through
   `super` resolves its functions *)
Theorem C08_module_import_through_super_repaired :
  exists B, compile n_c08_2_module {| o_recursion_limit := 64%N; o_debug := true |} = COk B /\
            In (IFunctionPointer (handle_from_u64 1) 0)
               (match decode (p_bytecode B) with Some l => map snd l | None => [] end).
Proof. exact n_c08_2_repaired. Qed.
Print Assumptions C08_module_import_through_super_repaired.
