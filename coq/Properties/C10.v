(* C10 - the compiler emits structurally valid bytecode.
   Statements only; proofs are in Cao.CompilerProofs. *)
From Coq Require Import List NArith ZArith.
From Cao Require Import ListUtil Bits CardAst Bytecode Compiler Wellformed CompilerProofs.
Import ListNotations.

(* codec round trip, all 47 opcodes: decoding the encoding of instructions whose operands are in
   the range of their machine types returns the instructions at their byte positions *)
Theorem C10_decode_encode :
  forall is : list instr, Forall instr_ok is -> decode (encode is) = Some (positions is).
Proof. exact decode_encode. Qed.
Print Assumptions C10_decode_encode.

(* the executable checker that is run on every output of the real compiler is sound for the
   Prop-level definition of well-formedness *)
Theorem C10_wf_check_sound :
  forall B : compiled, wf_check B = true -> wellformed B.
Proof. exact wf_check_sound. Qed.
Print Assumptions C10_wf_check_sound.

Theorem C10_wf_check_gen_sound :
  forall (window : bool) (B : compiled), wf_check_gen window B = true -> wellformed_gen window B.
Proof. exact wf_check_gen_sound. Qed.
Print Assumptions C10_wf_check_gen_sound.

Theorem C10_trace_complete_check_sound :
  forall B : compiled, trace_complete_check B = true -> trace_complete B.
Proof. exact trace_complete_check_sound. Qed.
Print Assumptions C10_trace_complete_check_sound.

(* the hand-written Instruction::span table and the operand widths the VM decodes differ exactly at
   NativeFunctionPointer (span() says 6, the VM reads 5 bytes) *)
Theorem C10_span_table_vs_vm :
  forall o n, In (o, n) span_table ->
              (o <> OpNativeFunctionPointer -> n = op_span o) /\
              (o = OpNativeFunctionPointer -> n = 6 /\ op_span o = 5).
Proof. exact span_table_vs_vm. Qed.
Print Assumptions C10_span_table_vs_vm.
