(* C10 - the compiler emits structurally valid bytecode.
   Statements only; proofs are in Cao.CompilerProofs. *)
From Coq Require Import List NArith ZArith.
From Cao Require Import ListUtil Bits CardAst Bytecode Compiler Wellformed CompilerProofs.
Import ListNotations.

(* codec round trip, all 47 opcodes: decoding the encoding of instructions whose operands are in
   the range of their machine types returns the instructions at their byte positions *)
Theorem C10_decode_encode :
  forall is : list instr, Forall instr_ok is -> decode (encode is) = Some (positions is).
Proof. exact decode_encode. Qed.
Print Assumptions C10_decode_encode.

(* the executable checker that is run on every output of the real compiler is sound for the
   Prop-level definition of well-formedness *)
Theorem C10_wf_check_sound :
  forall B : compiled, wf_check B = true -> wellformed B.
Proof. exact wf_check_sound. Qed.
Print Assumptions C10_wf_check_sound.

Theorem C10_wf_check_gen_sound :
  forall (window : bool) (B : compiled), wf_check_gen window B = true -> wellformed_gen window B.
Proof. exact wf_check_gen_sound. Qed.
Print Assumptions C10_wf_check_gen_sound.

Theorem C10_trace_complete_check_sound :
  forall B : compiled, trace_complete_check B = true -> trace_complete B.
Proof. exact trace_complete_check_sound. Qed.
Print Assumptions C10_trace_complete_check_sound.

(* the Instruction::span table (regenerated from the source on every run and compared with the
   hand-written one) and the operand widths the VM decodes agree for every opcode *)
Theorem C10_span_table_vs_vm :
  forall o n, In (o, n) span_table -> n = op_span o.
Proof. exact span_table_vs_vm. Qed.
Print Assumptions C10_span_table_vs_vm.

(* ---- the compiler model ----
   Full statement: PROVED below as C10_compile_wellformed (side conditions on the flattened program) and
   C10_compile_wellformed_module (side conditions on the module tree):

       forall M o B, compile M o = COk B -> module_in_range M = true ->
                     N.of_nat (length (p_bytecode B)) < 2^31 -> N.of_nat (length (p_data B)) < 2^32 ->
                     wellformed_gen false B /\ trace_complete B

   where module_in_range says that integer / float literals fit their machine types and the strings copied
   into the data section are valid UTF-8.  With the MAX_STR_LEN window that read_str had before the repair
   of A-23 it cannot hold (C10_A23_legacy_window_refuted); at /repo HEAD the reader has no window and
   wellformed = wellformed_gen false (C10_compile_wellformed_head).

   First, the emission invariants alone, for ALL modules and card kinds, without any condition on the
   literals.  In every program the model returns, the bytecode is the encoding of an instruction list
   that ends with Exit, every jump operand, every function / closure / card label and every trace key
   is the first byte of an instruction of that program, and every instruction has a trace entry; the
   decoder returns exactly that list when the operands are in range.  (Operand ranges, string operands,
   local / upvalue / global index ranges and the variables tables are covered by the full theorem.) *)
From Cao Require Import CompilerWf.

Theorem C10_compile_wellformed_partial :
  forall (M : module) (o : options) (B : compiled),
    compile M o = COk B ->
    (N.of_nat (length (p_bytecode B)) < 2147483648)%N ->
    exists is : list instr,
      p_bytecode B = encode is /\
      (Forall instr_ok is -> decode (p_bytecode B) = Some (positions is)) /\
      (exists is', is = is' ++ [IExit]) /\
      (forall i z, In i is -> jump_target i = Some z ->
                   (0 <= z)%Z /\ In (Z.to_nat z) (map fst (positions is))) /\
      (forall h pos, In (h, pos) (p_labels B) -> In (N.to_nat pos) (map fst (positions is))) /\
      (forall a l, In (a, l) (p_trace B) -> In (N.to_nat a) (map fst (positions is))) /\
      (forall p i, In (p, i) (positions is) -> exists l, In (N.of_nat p, l) (p_trace B)).
Proof.
  intros M o B H Hl. destruct (compile_wellformed_partial M o B H Hl) as [is Hw]. exists is. exact Hw.
Qed.
Print Assumptions C10_compile_wellformed_partial.

(* finding A-23 (repaired in /repo): a 253-byte string literal compiles into a program that is
   well-formed for a reader without window, and ill-formed under the former MAX_STR_LEN window *)
Theorem C10_A23_legacy_window_refuted :
  exists B, compile (main_module [CStringLiteral (repeat 76%N 253)]) default_options = COk B /\
            wellformed_gen false B /\ ~ wellformed_gen true B.
Proof. exact a23_witness. Qed.
Print Assumptions C10_A23_legacy_window_refuted.

(* finding A-24 (repaired in /repo): the CloseUpvalue emitted by scope_end now has a trace entry *)
Theorem C10_A24_repaired :
  exists B, compile (main_module [CSetVar [120%N] (CScalarInt 1); CClosure [] [CReadVar [120%N]]])
                    default_options = COk B /\
            wellformed B /\ trace_complete B.
Proof. exact a24_repaired. Qed.
Print Assumptions C10_A24_repaired.

(* Strengthening: when the literals of the program fit their machine types ([program_in_range], an
   executable condition that holds for every module built from the Rust types and is checked on every
   generated case), every emitted instruction has in-range operands, so the decoder returns exactly
   the emitted instruction list - together with the emission invariants above. *)
From Cao Require Import CompilerOk.
Theorem C10_compile_wellformed_partial_strong :
  forall (M : module) (o : options) (B : compiled),
    compile M o = COk B ->
    program_in_range M o = true ->
    (N.of_nat (length (p_bytecode B)) < 2147483648)%N ->
    exists is : list instr,
      Forall instr_ok is /\
      decode (p_bytecode B) = Some (positions is) /\
      p_bytecode B = encode is /\
      (exists is', is = is' ++ [IExit]) /\
      (forall i z, In i is -> jump_target i = Some z ->
                   (0 <= z)%Z /\ In (Z.to_nat z) (map fst (positions is))) /\
      (forall h pos, In (h, pos) (p_labels B) -> In (N.to_nat pos) (map fst (positions is))) /\
      (forall a l, In (a, l) (p_trace B) -> In (N.to_nat a) (map fst (positions is))) /\
      (forall p i, In (p, i) (positions is) -> exists l, In (N.of_nat p, l) (p_trace B)).
Proof.
  intros M o B H Hr Hl.
  destruct (compile_wellformed_partial_strong M o B H Hr Hl) as (is & Hok & Hd & Hb & _ & Hrest).
  destruct Hrest as (He & Hj & Hlab & Htr & Hcomp).
  exists is. split; [exact Hok|]. split; [exact Hd|]. split; [exact Hb|].
  split; [exact He|]. split; [exact Hj|]. split; [exact Hlab|]. split; [exact Htr | exact Hcomp].
Qed.
Print Assumptions C10_compile_wellformed_partial_strong.

(* ---- the full statement ----
   Every program the compiler model returns is well-formed for a reader without MAX_STR_LEN window
   (the reader of /repo HEAD: CompilerGen.read_str_windowed = false, so wellformed_gen false = wellformed),
   under explicit, executable side conditions:
     program_in_range M o        integer / float literals fit i64 / 64 bits, function handles are 32-bit
                                 (true for every module built from the Rust types);
     program_utf8 M o            the strings the compiler copies into the data section (string literals,
                                 native function names, names of ReadVar / SetVar cards - their
                                 `.`-separated suffixes become string literals) are valid UTF-8
                                 (true for every module built from Rust `String`s; the proof shows that
                                 cutting at '.' keeps the pieces valid);
     bytecode < 2^31 bytes       jump operands are `bytecode.len() as i32`;
     data < 2^32 bytes           string operands are `data.len() as u32`.
   No hypothesis on hash collisions is needed:
   - the number of globals is bounded by the code size (C10_few_globals: every new id is followed by a
     5-byte instruction), so the u32 counter `next_var` does not wrap;
   - Handle::from_u32 is injective on 0 .. 2^32 - 2 (C10_from_u32_injective), so the ids in use have
     pairwise distinct keys in `variables.names`;
   - two variable NAMES with the same Handle::from_str hash share one id and the name of the first; the
     tables stay mutually inverse in the sense of [wellformed] (the second name is not recorded: that is
     a property of the language, not of the bytecode's validity).
   New with respect to C10_compile_wellformed_partial_strong, all proved as invariants of the
   compilation state threaded through process_card (CompilerFull.Inv3, next to CompilerOk.Inv2):
   (1) every string operand (StringLiteral, NativeFunctionPointer, property shorthands) is the offset of a
       complete length-prefixed entry of the data section with valid UTF-8 payload, and read_str returns it;
   (2) every local / upvalue index, both halves of RegisterUpvalue, CloseUpvalue's operand and the five
       hidden-local operands of BeginForEach / ForEach are in range (index < 255, is_local <= 1);
   (3) every ReadGlobalVar / SetGlobalVar operand is < the number of globals, ids are exactly 0..n-1 without
       repetition, `variables.ids` and `variables.names` are mutually inverse.
   Not proved (not part of [wellformed]; see the comment at Wellformed.index_ok): that a local index is
   below the number of locals its own function has declared at that point, and that RegisterUpvalue's index
   refers to an existing local / upvalue of the enclosing function - the bytecode does not declare the
   number of locals of a function, so this is not a property of the output alone. *)
From Cao Require Import WellformedSide CompilerFull HandleInj.
Theorem C10_compile_wellformed :
  forall (M : module) (o : options) (B : compiled),
    compile M o = COk B ->
    program_in_range M o = true ->
    program_utf8 M o = true ->
    (N.of_nat (length (p_bytecode B)) < 2147483648)%N ->
    (N.of_nat (length (p_data B)) < 4294967296)%N ->
    wellformed_gen false B.
Proof. exact compile_wellformed. Qed.
Print Assumptions C10_compile_wellformed.

(* the statement of the property record, for the reader of /repo HEAD (CompilerGen.read_str_windowed,
   regenerated from the source on every run, is false; if the window came back this proof would fail) *)
Theorem C10_compile_wellformed_head :
  forall (M : module) (o : options) (B : compiled),
    compile M o = COk B ->
    program_in_range M o = true ->
    program_utf8 M o = true ->
    (N.of_nat (length (p_bytecode B)) < 2147483648)%N ->
    (N.of_nat (length (p_data B)) < 4294967296)%N ->
    wellformed B.
Proof. exact compile_wellformed. Qed.
Print Assumptions C10_compile_wellformed_head.

(* together with: every instruction of the returned program has a source-trace entry *)
Theorem C10_compile_trace_complete :
  forall (M : module) (o : options) (B : compiled),
    compile M o = COk B ->
    program_in_range M o = true ->
    (N.of_nat (length (p_bytecode B)) < 2147483648)%N ->
    trace_complete B.
Proof. exact compile_trace_complete. Qed.
Print Assumptions C10_compile_trace_complete.

Theorem C10_from_u32_injective :
  forall i j : N, (i < 4294967295)%N -> (j < 4294967295)%N -> handle_from_u32 i = handle_from_u32 j -> i = j.
Proof. exact handle_from_u32_inj. Qed.
Print Assumptions C10_from_u32_injective.

Theorem C10_few_globals :
  forall (M : module) (o : options) (B : compiled),
    compile M o = COk B -> program_in_range M o = true -> program_utf8 M o = true ->
    (N.of_nat (length (p_bytecode B)) < 2147483648)%N ->
    (5 * N.of_nat (length (p_ids B)) <= N.of_nat (length (p_bytecode B)))%N.
Proof. exact compile_few_globals. Qed.
Print Assumptions C10_few_globals.

(* a concrete instance (global, local captured by a closure, property shorthands, for-each, native
   function pointer, a non-ASCII string literal): the side conditions evaluate to true and the
   executable checker agrees with the theorem *)
Example C10_compile_wellformed_example :
  exists B, compile full_example_module default_options = COk B /\
            program_in_range full_example_module default_options = true /\
            program_utf8 full_example_module default_options = true /\
            var_handles_collision_free (length (p_ids B)) = true /\
            wf_check_gen false B = true /\ wellformed_gen false B.
Proof. exact full_example. Qed.
Print Assumptions C10_compile_wellformed_example.

(* the same theorem with the side conditions stated on the module tree itself:
   [module_in_range M] = in every card of every function of M and of its submodules, integer / float
   literals fit i64 / 64 bits and the strings copied into the data section (string literals, native
   function names, ReadVar / SetVar names) are valid UTF-8.  The standard library, which into_ir_stream
   adds, satisfies it (evaluated); into_ir_stream only rearranges functions and gives them 32-bit handles. *)
From Cao Require Import CompilerFlatten.
Theorem C10_compile_wellformed_module :
  forall (M : module) (o : options) (B : compiled),
    compile M o = COk B ->
    module_in_range M = true ->
    (N.of_nat (length (p_bytecode B)) < 2147483648)%N ->
    (N.of_nat (length (p_data B)) < 4294967296)%N ->
    wellformed_gen false B /\ trace_complete B.
Proof. exact compile_wellformed_module. Qed.
Print Assumptions C10_compile_wellformed_module.

Theorem C10_module_in_range_program :
  forall (M : module) (o : options),
    module_in_range M = true -> program_in_range M o = true /\ program_utf8 M o = true.
Proof. exact module_in_range_program. Qed.
Print Assumptions C10_module_in_range_program.

(* observation O-C10-1 (not a violation of C10; confirmed on the real crate by `cao-verif-harness
   c10-witness`: after `brljcd := 1; uqabx := 2` both names read 2): two global variable names with the
   same 32-bit Handle::from_str hash are one variable; the program is well-formed all the same *)
Example C10_name_collision_observation :
  handle_of_bytes [98; 114; 108; 106; 99; 100]%N = handle_of_bytes [117; 113; 97; 98; 120]%N /\
  exists B, compile name_collision_module default_options = COk B /\
            length (p_ids B) = 1%nat /\ map snd (p_names B) = [[98; 114; 108; 106; 99; 100]%N] /\
            wf_check B = true.
Proof. exact name_collision_observation. Qed.
Print Assumptions C10_name_collision_observation.

(* ---- scoping of index operands where the compiler produces them (CompilerScope.v) ----
   The bytecode does not declare the number of locals of a function, so "a local index refers to an
   existing local of its function at that point" is not a property of the output; these theorems are about
   the operations of the model that produce the index operands.  (Not proved: the same for every
   emission inside process_card - the hidden locals of Repeat / ForEach / Array are used after their
   children were compiled; that needs an instrumented copy of process_card.) *)
From Cao Require Import CompilerScope.

(* the slot returned by add_local is the one just created: index = number of locals before, < 255 *)
Theorem C10_add_local_slot :
  forall (x : str) (s : cstate) (i : N) (s' : cstate),
    cs_locals s <> [] -> add_local x s = ROk i s' ->
    i = nlocals s /\ nlocals s' = (nlocals s + 1)%N /\ (i < 255)%N.
Proof. exact add_local_slot. Qed.
Print Assumptions C10_add_local_slot.

(* resolve_var returns indices inside the locals / upvalues of the function being compiled, and keeps
   the upvalue lists linked: an entry (is_local = true, index) of a function refers to an existing local
   of the enclosing function, an entry (false, index) to an existing upvalue of the enclosing function
   ([frames_ok]; these entries are the operand pairs of RegisterUpvalue) *)
Theorem C10_resolve_var_in_scope :
  forall (x : str) (s : cstate) (v : variable) (s' : cstate),
    frames_ok (cs_locals s) (cs_upvalues s) ->
    resolve_var x s = ROk v s' ->
    frames_ok (cs_locals s') (cs_upvalues s') /\
    match v with
    | VLocal i => (i < nlocals s')%N /\ nlocals s' = nlocals s
    | VUpvalue k => (k < nupvalues s')%N /\ nlocals s' = nlocals s
    | VGlobal => nlocals s' = nlocals s
    end.
Proof. exact resolve_var_in_scope. Qed.
Print Assumptions C10_resolve_var_in_scope.

(* the operand of a CloseUpvalue emitted at scope end is the slot of a local that goes out of scope *)
Theorem C10_close_upvalue_slot :
  forall (rls : list local) (d : Z),
    Forall (close_slot (length (fst (pop_locals rls d))) (length rls)) (snd (pop_locals rls d)).
Proof. exact pop_locals_close_slot. Qed.
Print Assumptions C10_close_upvalue_slot.
