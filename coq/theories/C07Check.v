(* Executable correspondence checker for C07 (CaoLangTable through the host API). *)
From Cao Require Export CheckUtil Table.
Local Open Scope N_scope.

Definition tv := option Z.      (* table values: nil or an integer *)
Definition tv_eqb : tv -> tv -> bool := opt_eqb Z.eqb.
Definition cop7 := tbop tv.
Definition cout7 := tbout tv.

Definition knil : tkey := KNil.
Definition kint (z : Z) : tkey := KInt z.
Definition kreal (b : N) : tkey := KReal b.
Definition kstr (s : list N) : tkey := KStr s.
Definition oins (k : tkey) (v : tv) : cop7 := OInsert k v.
Definition orem (k : tkey) : cop7 := @ORemove tv k.
Definition oapp (v : tv) : cop7 := OAppend v.
Definition opop : cop7 := @OPop tv.
Definition oget (k : tkey) : cop7 := @OGet tv k.
Definition onth (i : nat) : cop7 := @ONthKey tv i.
Definition olen : cop7 := @OLen tv.
Definition oiter : cop7 := @OIter tv.
Definition okeys : cop7 := @OKeys tv.
Definition xunit : cout7 := @XUnit tv.
Definition xval (v : tv) : cout7 := XVal v.
Definition xoptv (o : option tv) : cout7 := XOptV o.
Definition xoptk (o : option tkey) : cout7 := @XOptK tv o.
Definition xnat (n : nat) : cout7 := @XNat tv n.
Definition xiter (l : list (tkey * tv)) : cout7 := XIter l.
Definition xkeys (l : list tkey) : cout7 := @XKeys tv l.
Definition xpanic : cout7 := @XDiverge tv.   (* a panic / hang of the implementation is printed as this *)

Definition kv7_eqb (a b : tkey * tv) : bool := tkey_eqb (fst a) (fst b) && tv_eqb (snd a) (snd b).

Definition cout7_eqb (a b : cout7) : bool :=
  match a, b with
  | @XUnit _, @XUnit _ => true
  | @XVal _ v, @XVal _ v' => tv_eqb v v'
  | @XOptV _ o, @XOptV _ o' => opt_eqb tv_eqb o o'
  | @XOptK _ o, @XOptK _ o' => opt_eqb tkey_eqb o o'
  | @XNat _ n, @XNat _ n' => Nat.eqb n n'
  | @XIter _ l, @XIter _ l' => list_eqb kv7_eqb l l'
  | @XKeys _ l, @XKeys _ l' => list_eqb tkey_eqb l l'
  | @XDiverge _, @XDiverge _ => true
  | _, _ => false
  end.

Inductive c07case := TbCase (ops : list cop7) (obs : list cout7).

Definition check1 (c : c07case) : list N :=
  match c with
  | TbCase ops obs =>
      (if list_eqb cout7_eqb (snd (tb_run None (t_empty tv) ops)) obs then [] else [1]) ++
      (if list_eqb cout7_eqb (snd (s_run None [] ops)) obs then [] else [2])
  end.

Definition check_all := CheckUtil.check_all check1.
