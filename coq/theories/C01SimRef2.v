(* C01, simulation, reference half for fragment F2a (conditionals). *)
From Coq Require Import List NArith ZArith Bool Lia.
From Cao Require Import CheckUtil Bits CardAst Table TableProofs StdlibGen RefSem C01SimDefs C01SimRef C01SimDefs2.
Import ListNotations.

Section Eval.
Variable P : list fentry.
Variable host : list str.
Variable limit : N.
Variable fi : nat.

Notation evalf := (eval P host limit).

Definition stmt_res (r : res) (s : state) (c : card) : Prop :=
  r = RFuel \/
  (exists s', r = ok [] env0 s' /\ run_stmt2 (st_globals s) c = (true, st_globals s') /\ gs s') \/
  (exists s', r = err EVarNotFound env0 s' /\ run_stmt2 (st_globals s) c = (false, st_globals s') /\ gs s').

Definition stmt_good (c : card) : Prop := forall fuel s, gs s -> stmt_res (evalf fuel (TkCard fi env0 c) s) s c.

(* the condition of a conditional: one operand *)
Lemma eval_cond e : expr_f1 e = true -> forall fuel s, gs s ->
  let r := evalf fuel (TkArgs false fi env0 [e]) s in
  r = RFuel \/
  (exists v s', r = ok [v] env0 s' /\ ev (st_globals s) e = Some v /\ simple v /\ st_globals s' = st_globals s /\ gs s') \/
  (exists s', r = err EVarNotFound env0 s' /\ ev (st_globals s) e = None /\ st_globals s' = st_globals s /\ gs s').
Proof.
  intros He fuel s Hs r.
  assert (Hgood : Forall (expr_good P host limit fi) [e]) by (apply Forall_cons; [apply expr_f1_good, He | apply Forall_nil]).
  pose proof (eval_args P host limit fi _ Hgood fuel s Hs) as [E|[(vs & s1 & E & Hv & Hg1 & Hh1)|(s1 & E & Hv & Hg1 & Hh1)]].
  - left. exact E.
  - right; left. cbn [evs] in Hv. destruct (ev (st_globals s) e) as [x|] eqn:E1; [|discriminate]. injection Hv as <-.
    exists x, s1. repeat split; auto; [eapply ev_simple; [apply Hs | exact E1] | rewrite Hg1; apply Hs].
  - right; right. cbn [evs] in Hv. exists s1. destruct (ev (st_globals s) e); [discriminate|].
    repeat split; auto. rewrite Hg1; apply Hs.
Qed.

Lemma v_bool_simple h v : simple v -> v_bool h v = v_bool [] v.
Proof. destruct v; intros []; reflexivity. Qed.

Definition seq_res2 (r : res) (s : state) (cards : list card) : Prop :=
  r = RFuel \/
  (exists s', r = ok [] env0 s' /\ run_cards2 (st_globals s) cards = (true, st_globals s') /\ gs s') \/
  (exists s', r = err EVarNotFound env0 s' /\ run_cards2 (st_globals s) cards = (false, st_globals s') /\ gs s').

Lemma eval_seq_good cards : Forall stmt_good cards -> forall fuel s, gs s ->
  seq_res2 (evalf fuel (TkSeq fi env0 cards) s) s cards.
Proof.
  induction 1 as [|c r Hgood _ IH]; intros fuel s Hs;
    (destruct fuel as [|f]; [left; reflexivity|]); cbn [eval]; unfold F;
    (destruct (limit <? st_steps s)%N; [left; reflexivity|]);
    pose proof (gs_bump _ Hs) as Hb; cbn [F].
  - right; left. exists (bump s). cbn. auto.
  - unfold seq_res2. cbn [run_cards2].
    pose proof (Hgood f (bump s) Hb) as [E|[(s1 & E & Hrun & Hs1)|(s1 & E & Hrun & Hs1)]];
      rewrite E; cbn [bnd ok err bump st_globals] in *; try rewrite Hrun.
    + left; reflexivity.
    + pose proof (IH f s1 Hs1) as [E2|[(s2 & E2 & Hrun2 & Hs2)|(s2 & E2 & Hrun2 & Hs2)]];
        rewrite E2; cbn [bnd ok err app].
      * left; reflexivity.
      * right; left. exists s2. auto.
      * right; right. exists s2. auto.
    + right; right. exists s1. auto.
Qed.

Lemma stmt_f2_good c : stmt_f2 c = true -> stmt_good c.
Proof.
  induction c using CompilerWf.card_ind'; intros Hc; cbn [stmt_f2] in Hc; try discriminate Hc; intros fuel st Hs; unfold stmt_res.
  - (* CBin: IfTrue / IfFalse *)
    destruct op; try discriminate Hc; apply andb_true_iff in Hc; destruct Hc as [He Hb];
      (destruct fuel as [|f]; [left; reflexivity|]); cbn [eval]; unfold F;
      (destruct (limit <? st_steps st)%N; [left; reflexivity|]);
      pose proof (gs_bump _ Hs) as Hbs; cbn [eval_card];
      pose proof (eval_cond _ He f (bump st) Hbs) as [E|[(v & s1 & E & Hv & Hsv & Hg1 & Hs1)|(s1 & E & Hv & Hg1 & Hs1)]];
      cbn zeta in E; rewrite E; cbn [bnd ok err one bump st_globals run_stmt2] in *; try rewrite Hv.
    + left; reflexivity.
    + rewrite (v_bool_simple _ _ Hsv). destruct (v_bool [] v).
      * rewrite <- Hg1. apply (IHc2 Hb f s1 Hs1).
      * right; left. exists s1. rewrite Hg1. auto.
    + right; right. exists s1. rewrite Hg1. auto.
    + left; reflexivity.
    + rewrite (v_bool_simple _ _ Hsv). destruct (v_bool [] v).
      * right; left. exists s1. rewrite Hg1. auto.
      * rewrite <- Hg1. apply (IHc2 Hb f s1 Hs1).
    + right; right. exists s1. rewrite Hg1. auto.
  - (* CTri: IfElse *)
    destruct op; try discriminate Hc. apply andb_true_iff in Hc. destruct Hc as [Hc Hb].
    apply andb_true_iff in Hc. destruct Hc as [He Ha].
    (destruct fuel as [|f]; [left; reflexivity|]); cbn [eval]; unfold F.
    (destruct (limit <? st_steps st)%N; [left; reflexivity|]).
    pose proof (gs_bump _ Hs) as Hbs; cbn [eval_card].
    pose proof (eval_cond _ He f (bump st) Hbs) as [E|[(v & s1 & E & Hv & Hsv & Hg1 & Hs1)|(s1 & E & Hv & Hg1 & Hs1)]];
      cbn zeta in E; rewrite E; cbn [bnd ok err one bump st_globals run_stmt2] in *; try rewrite Hv.
    + left; reflexivity.
    + rewrite (v_bool_simple _ _ Hsv). destruct (v_bool [] v); rewrite <- Hg1.
      * apply (IHc2 Ha f s1 Hs1).
      * apply (IHc3 Hb f s1 Hs1).
    + right; right. exists s1. rewrite Hg1. auto.
  - (* Comment *)
    match goal with |- context [TkCard fi env0 (CComment ?x)] =>
      pose proof (eval_stmt P host limit fi (CComment x) eq_refl fuel st Hs) as H end.
    unfold seq_res in H. cbn [run_cards] in H. exact H.
  - (* SetGlobalVar *)
    match goal with |- context [TkCard fi env0 (CSetGlobalVar ?x ?y)] =>
      pose proof (eval_stmt P host limit fi (CSetGlobalVar x y) Hc fuel st Hs) as H;
      unfold seq_res in H; cbn [run_cards] in H; cbn [run_stmt2];
      destruct (ev (st_globals st) y); exact H end.
  - (* Composite *)
    assert (Hall : Forall stmt_good cards).
    { match goal with HF : Forall _ cards |- _ => revert Hc; induction HF as [|x r Hx _ IHr]; intros Hc end;
        [constructor|]. cbn [forallb] in Hc. apply andb_true_iff in Hc. destruct Hc as [H1 H2]. constructor; auto. }
    (destruct fuel as [|f]; [left; reflexivity|]); cbn [eval]; unfold F.
    (destruct (limit <? st_steps st)%N; [left; reflexivity|]). cbn [eval_card].
    pose proof (eval_seq_good _ Hall f (bump st) (gs_bump _ Hs)) as H2. unfold seq_res2 in H2.
    rewrite run_stmt2_composite. cbn [bump st_globals] in H2. exact H2.
Qed.

Lemma eval_seq2 cards : forallb stmt_f2 cards = true -> forall fuel s, gs s ->
  seq_res2 (evalf fuel (TkSeq fi env0 cards) s) s cards.
Proof.
  intros Hc. apply eval_seq_good. induction cards as [|c r IH]; [constructor|].
  cbn [forallb] in Hc. apply andb_true_iff in Hc. destruct Hc as [H1 H2].
  constructor; [apply stmt_f2_good, H1 | apply IH, H2].
Qed.
End Eval.

Theorem eval_program_f2 fuel M host o :
  in_f2 M = true -> eval_program fuel M host = PObs o ->
  exists g, run_cards2 [] (main_cards M) = (match ob_kind o with KOk => true | _ => false end, g) /\
            (ob_kind o = KOk \/ ob_kind o = KErr EVarNotFound) /\
            Forall (fun nv => simple (snd nv)) g /\
            ob_globals o = map (fun nv => (fst nv, vm_tree (to_vm (snd nv)))) g.
Proof.
  intros HM. destruct M as [subs funs imps]. cbn [in_f2] in HM.
  destruct subs; [|discriminate]. destruct funs as [|[name f] [|]]; try discriminate.
  destruct imps; [|discriminate].
  apply andb_true_iff in HM. destruct HM as [HM Hcards]. apply andb_true_iff in HM. destruct HM as [Hname _].
  apply str_eqb_main in Hname. subst name.
  destruct flatten_std_some as [stdl Hstd].
  unfold eval_program, program_of, add_std. cbn [app].
  change 64%nat with (S 63). rewrite (flatten_f1 63 f stdl Hstd).
  cbn [find_index fe_name]. change (str_eqb s_main s_main) with true. cbv iota.
  cbn [nth_error fe_fn main_cards].
  set (P := _ :: stdl).
  intros H.
  assert (Hgs : gs init_state) by (split; [reflexivity | constructor]).
  pose proof (eval_seq2 P host (step_limit fuel) 0 _ Hcards fuel _ Hgs) as [E|[(s1 & E & Hrun & Hs1)|(s1 & E & Hrun & Hs1)]];
    fold env0 in H; rewrite E in H; cbn [ok err] in H; try discriminate H.
  - injection H as <-. exists (st_globals s1). cbn [ob_kind ob_globals observe]. destruct Hs1 as [Hh Hg].
    repeat split; auto. rewrite Hh. apply map_ext_in. intros [n v] Hin.
    rewrite Forall_forall in Hg. pose proof (Hg _ Hin) as Hv. cbn [snd] in Hv.
    destruct v; try contradiction; reflexivity.
  - injection H as <-. exists (st_globals s1). cbn [ob_kind ob_globals observe]. destruct Hs1 as [Hh Hg].
    repeat split; auto. rewrite Hh. apply map_ext_in. intros [n v] Hin.
    rewrite Forall_forall in Hg. pose proof (Hg _ Hin) as Hv. cbn [snd] in Hv.
    destruct v; try contradiction; reflexivity.
Qed.
