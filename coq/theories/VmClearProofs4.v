(* C17, part 4: call_native preserves the relation of VmClearProofs.v, hence [natives_ok] holds and
   run P (clear s) = run P fresh (up to dead stack slots) without any hypothesis on the natives. *)
From Coq Require Import NArith ZArith List Lia Bool.
From Cao Require Import ListUtil Bits Stacks StacksProofs Vm VmWitness VmProofs VmClearProofs VmClearProofs2
     VmClearProofs3.
Import ListNotations.

Set Implicit Arguments.

Ltac frames_tac ::=
  goal_cbn;
  try match goal with H : st_calls ?a = _ |- context [st_calls ?a] => rewrite H end;
  first [ assumption
        | apply frames_ok_nil
        | (eapply frames_ok_mono; [eassumption | bounds])
        | (apply frames_ok_cons; [bounds | frames_tac])
        | (apply frames_ok_skipn; frames_tac)
        | (eapply frames_ok_tail; eassumption) ].

Section CallNative.
  Variable F : fops.
  Variable P : program.
  Variable re : N -> state -> rres.
  Hypothesis Hre : forall ip x y, Sim x y -> rres_sim (re ip x) (re ip y).

  Lemma call_native_fuel_sim : forall fuel h x y,
    Sim x y -> nres_sim (call_native_fuel F P re fuel h x) (call_native_fuel F P re fuel h y).
  Proof.
    induction fuel as [|f IH]; intros h x y HS; cbn [call_native_fuel].
    - cbn [nres_sim]. split; [reflexivity|exact HS].
    - destruct (find_native h all_natives) as [n|]; [|cbn [nres_sim]; split; [reflexivity|exact HS]].
      pose proof (@native_body_sim F P re Hre (call_native_fuel F P re f) (IH) n x y HS) as Hb.
      destruct (native_body F P re (call_native_fuel F P re f) n x) as [v x1|e x1|ab x1],
               (native_body F P re (call_native_fuel F P re f) n y) as [v' y1|e' y1|ab' y1];
        cbn [nres_sim] in Hb; try contradiction.
      + destruct Hb as [-> Hb]. revert Hb. sim_start. cbv zeta. sim_auto.
      + destruct Hb as [-> Hb]. revert Hb. sim_start. sim_auto.
      + exact Hb.
  Qed.

  Lemma native_step_sim h ip x y :
    Sim x y -> sres_sim (native_step F P re h ip x) (native_step F P re h ip y).
  Proof.
    intros HS. unfold native_step, call_native.
    pose proof (call_native_fuel_sim 8 h HS) as Hc.
    destruct (call_native_fuel F P re 8 h x), (call_native_fuel F P re 8 h y);
      cbn [nres_sim sres_sim] in *; try contradiction; intuition.
  Qed.
End CallNative.

Theorem natives_ok_holds F P : natives_ok F P.
Proof. intros re Hre h ip x y HS. apply native_step_sim; assumption. Qed.

(* run P (clear s) against run P on a new Vm (with the same host log, ghost counter and leftover budget, which are
   not VM state): the same outcome - error payload and trace included - and final states that differ only in dead
   slots of the value stack above the high-water mark of the run. For ALL programs (any bytecode), all budgets, every
   native of the menu with re-entry at any depth. *)
Theorem run_after_clear : forall F bld N P s,
  length (vdata (st_stack s)) = stack_size ->
  let fresh := mkState (vs_new VNil stack_size) [] [] [] None (st_log s) (st_count s) (st_rem s) in
  fst (run F bld N P (clear_state s)) = fst (run F bld N P fresh) /\
  Sim (snd (run F bld N P fresh)) (snd (run F bld N P (clear_state s))).
Proof. intros F bld N P s. apply run_after_clear_partial. apply natives_ok_holds. Qed.

(* what Sim means for an observer: everything but the value-stack array is equal, the height is equal, and the
   live part of the stack is equal *)
Lemma Sim_readable x y : Sim x y ->
  st_calls y = st_calls x /\ st_globals y = st_globals x /\ st_heap y = st_heap x /\ st_open y = st_open x /\
  st_log y = st_log x /\ st_count y = st_count x /\ st_rem y = st_rem x /\
  vcount (st_stack y) = vcount (st_stack x) /\
  firstn (vcount (st_stack x)) (vdata (st_stack y)) = firstn (vcount (st_stack x)) (vdata (st_stack x)).
Proof.
  intros (hw & kb & -> & Hag & _). cbn [st_calls st_globals st_heap st_open st_log st_count st_rem st_stack set_stack].
  repeat split; auto.
  - apply (agree_count Hag).
  - symmetry. apply (agree_firstn Hag). apply (agree_le Hag).
Qed.
