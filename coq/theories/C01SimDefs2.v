(* C01, simulation: fragment F2a = F1 plus conditionals.
     statements of main:  SetGlobalVar g e | Comment | IfTrue e s | IfFalse e s | IfElse e s s | Composite [s; ...]
   with e an expression of F1 and s again such statements.
   The emitted code now depends on where it lies (jump targets are absolute byte addresses). *)
From Coq Require Import List NArith ZArith Bool.
From Cao Require Import ListUtil Bits CardAst Bytecode Compiler CompilerWf C01SimDefs.
From Cao Require RefSem Vm.
Import ListNotations.
Local Open Scope N_scope.

Fixpoint stmt_f2 (c : card) : bool :=
  match c with
  | CSetGlobalVar g e => negb (is_empty g) && expr_f1 e
  | CComment _ => true
  | CBin BIfTrue e b | CBin BIfFalse e b => expr_f1 e && stmt_f2 b
  | CTri TIfElse e a b => expr_f1 e && stmt_f2 a && stmt_f2 b
  | CComposite _ cs => forallb stmt_f2 cs
  | _ => false
  end.

Definition in_f2 (M : module) : bool :=
  match M with
  | Module [] [(name, f)] [] =>
      str_eqb name s_main && (match f_args f with [] => true | _ => false end) &&
      forallb stmt_f2 (f_cards f)
  | _ => false
  end.

(* the code of a statement that starts at byte [base] *)
Fixpoint code_stmt2 (T : list (N * N)) (base : N) (c : card) : list instr :=
  match c with
  | CSetGlobalVar g e => code_expr T e ++ [ISetGlobalVar (idT T g)]
  | CBin BIfTrue e b =>
      let ce := code_expr T e in
      let cb := code_stmt2 T (base + bytes ce + 5) b in
      ce ++ IGotoIfFalse (u32_to_i32 (base + bytes ce + 5 + bytes cb)) :: cb
  | CBin BIfFalse e b =>
      let ce := code_expr T e in
      let cb := code_stmt2 T (base + bytes ce + 5) b in
      ce ++ IGotoIfTrue (u32_to_i32 (base + bytes ce + 5 + bytes cb)) :: cb
  | CTri TIfElse e a b =>
      let ce := code_expr T e in
      let ca := code_stmt2 T (base + bytes ce + 5) a in
      let else_at := base + bytes ce + 5 + bytes ca + 5 in
      let cb := code_stmt2 T else_at b in
      ce ++ IGotoIfFalse (u32_to_i32 else_at) :: ca ++ IGoto (u32_to_i32 (else_at + bytes cb)) :: cb
  | CComposite _ cs =>
      (fix go (base : N) (l : list card) {struct l} : list instr :=
         match l with
         | [] => []
         | c :: r => let cc := code_stmt2 T base c in cc ++ go (base + bytes cc) r
         end) base cs
  | _ => []
  end.

Fixpoint code_main2 (T : list (N * N)) (base : N) (cards : list card) : list instr :=
  match cards with
  | [] => []
  | c :: r => let cc := code_stmt2 T base c in cc ++ code_main2 T (base + bytes cc) r
  end.

Fixpoint stmt_depth2 (c : card) : nat :=
  match c with
  | CSetGlobalVar _ e => depth e
  | CBin _ e b => Nat.max (depth e) (stmt_depth2 b)
  | CTri _ e a b => Nat.max (depth e) (Nat.max (stmt_depth2 a) (stmt_depth2 b))
  | CComposite _ cs => fold_right (fun c m => Nat.max (stmt_depth2 c) m) 0%nat cs
  | _ => 0
  end.
Definition depth_ok2 (cards : list card) : bool :=
  forallb (fun c => Nat.ltb (S (stmt_depth2 c)) Vm.stack_size) cards.

Fixpoint stmt_names2 (c : card) : list str :=
  match c with
  | CSetGlobalVar g e => expr_names e ++ [g]
  | CBin _ e b => expr_names e ++ stmt_names2 b
  | CTri _ e a b => expr_names e ++ stmt_names2 a ++ stmt_names2 b
  | CComposite _ cs => flat_map stmt_names2 cs
  | _ => []
  end.
Definition main_names2 (cards : list card) : list str := flat_map stmt_names2 cards.

Definition needed_f2 (M : module) : nat := S (S (length (code_main2 [] 0 (main_cards M)))).

(* the meaning: whether the statement ran to its end, and the globals after it *)
Fixpoint run_stmt2 (g : list (str * RefSem.value)) (c : card) : bool * list (str * RefSem.value) :=
  match c with
  | CSetGlobalVar n e =>
      match ev g e with Some v => (true, RefSem.set_assoc n v g) | None => (false, g) end
  | CBin BIfTrue e b =>
      match ev g e with
      | None => (false, g)
      | Some v => if RefSem.v_bool [] v then run_stmt2 g b else (true, g)
      end
  | CBin BIfFalse e b =>
      match ev g e with
      | None => (false, g)
      | Some v => if RefSem.v_bool [] v then (true, g) else run_stmt2 g b
      end
  | CTri TIfElse e a b =>
      match ev g e with
      | None => (false, g)
      | Some v => if RefSem.v_bool [] v then run_stmt2 g a else run_stmt2 g b
      end
  | CComposite _ cs =>
      (fix go (g : list (str * RefSem.value)) (l : list card) {struct l} : bool * list (str * RefSem.value) :=
         match l with
         | [] => (true, g)
         | c :: r => let '(okf, g1) := run_stmt2 g c in if okf then go g1 r else (false, g1)
         end) g cs
  | _ => (true, g)
  end.
Fixpoint run_cards2 (g : list (str * RefSem.value)) (cards : list card) : bool * list (str * RefSem.value) :=
  match cards with
  | [] => (true, g)
  | c :: r => let '(okf, g1) := run_stmt2 g c in if okf then run_cards2 g1 r else (false, g1)
  end.

(* the local loops of the Composite case are the functions on card lists *)
Lemma code_stmt2_composite T base ty cs : code_stmt2 T base (CComposite ty cs) = code_main2 T base cs.
Proof.
  revert base. induction cs as [|c r IH]; intros base; [reflexivity|].
  cbn [code_main2]. rewrite <- IH. reflexivity.
Qed.
Lemma run_stmt2_composite g ty cs : run_stmt2 g (CComposite ty cs) = run_cards2 g cs.
Proof.
  revert g. induction cs as [|c r IH]; intros g; [reflexivity|].
  cbn [run_cards2]. destruct (run_stmt2 g c) as [okf g1] eqn:E.
  change (run_stmt2 g (CComposite ty (c :: r))) with
    (let '(okf, g1) := run_stmt2 g c in if okf then run_stmt2 g1 (CComposite ty r) else (false, g1)).
  rewrite E. destruct okf; [apply IH | reflexivity].
Qed.
Lemma stmt_depth2_composite ty cs c : In c cs -> (stmt_depth2 c <= stmt_depth2 (CComposite ty cs))%nat.
Proof.
  cbn [stmt_depth2]. induction cs as [|x r IH]; [intros []|]. intros [<-|Hin]; cbn [fold_right].
  - apply Nat.le_max_l.
  - etransitivity; [apply IH, Hin | apply Nat.le_max_r].
Qed.
