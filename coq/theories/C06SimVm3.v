(* C06, refinement, VM side, third part: the CAPTURE (RegisterUpvalue index, local) and the RETURN of a frame.
   - rep_register_upvalue: the closure object under construction gets one more upvalue address, and that address
     denotes the cell of the captured local of the running frame (capture by reference; the existing open upvalue
     of the slot is reused - a sibling closure that captured the variable before holds the same address - or a new
     one is linked into the list); nothing else changes for the representation;
   - rep_return: the frame's slots go away, the cells that closures captured move into the upvalue objects
     (as for CloseUpvalue), the caller finds the return value on its stack. *)
From Coq Require Import List NArith ZArith Bool Lia Sorted.
From Cao Require Import ListUtil Bits Stacks Vm VmUpvalueProofs VmUpvalueStep VmUpvalueSem C06SimDefs C06SimVm C06SimVm2.
From Cao Require RefSem.
Import ListNotations.

Lemma ins_desc_incl a loc l x : In x l -> In x (ins_desc a loc l).
Proof.
  induction l as [|y r IH]; intros H; [destruct H|]. cbn [ins_desc].
  destruct (loc <? snd y); [|right; exact H]. destruct H as [->|H]; [left; reflexivity | right; auto].
Qed.
Lemma ins_desc_new a loc l : In (a, loc) (ins_desc a loc l).
Proof.
  induction l as [|y r IH]; cbn [ins_desc]; [left; reflexivity|].
  destruct (loc <? snd y); [right; exact IH | left; reflexivity].
Qed.

Lemma in_slots_ex (l : list (N * nat)) loc : In loc (slots l) -> exists a, In (a, loc) l.
Proof.
  unfold slots. intros H. apply in_map_iff in H. destruct H as ([a k] & E & Hin). cbn in E. subst k. eauto.
Qed.

Section Capture.
  Variable F : fops.
  Variable bld : build.
  Variable P : program.
  Variable reenter : N -> state -> rres.
  Notation STEP := (step F bld P reenter).

  Variable K : clomap.
  Variable R : cellmap.

  Theorem rep_register_upvalue : forall ip0 s index is_local s1 ca ch car cups off l top cells c,
    opcode_at P ip0 = 45%N ->
    read_le (p_code P) (ip0 + 1) 1 = Some index -> read_le (p_code P) (ip0 + 1 + 1) 1 = Some is_local ->
    is_local <> 0%N ->
    spop s = (s1, VObj ca) -> hget (st_heap s1) ca = Some (OClo ch car cups) ->
    top_offset s1 = Some off ->
    vm_ok s -> open_list s l -> rep K R top cells s -> top < scount s ->
    R c = Some (LSlot (off + N.to_nat index)) ->
    exists s' ua l', STEP ip0 s = SNext (ip0 + 1 + 2) s' /\ vm_ok s' /\ open_list s' l' /\
      (forall x, In x l -> In x l') /\
      scount s' = scount s - 1 /\ st_calls s' = st_calls s1 /\
      (* the new upvalue of the closure denotes the captured variable's cell *)
      hget (st_heap s') ca = Some (OClo ch car (cups ++ [ua])) /\ up_cell R s' ua c /\
      rep K R top cells s' /\
      (forall ua' c', up_cell R s ua' c' -> up_cell R s' ua' c') /\
      (forall a o, a <> ca -> hget (st_heap s) a = Some o -> (forall u, o <> OUp u) -> hget (st_heap s') a = Some o).
  Proof.
    intros ip0 s index is_local s1 ca ch car cups off l top cells c Hop Ei Eil Hnz Ep Hca Eo Hs Hl Hrep Htop Hc.
    pose proof (rep_top _ _ _ _ _ Hrep _ _ Hc) as Hloc.
    destruct (spop_raw s) as (s1' & Ep' & Hn1 & Hcap1 & Hh1 & Hc1 & Ho1 & Hsame1); [lia|].
    rewrite Ep in Ep'. injection Ep' as <- Htopv.
    pose proof (spop_keep _ _ _ Ep) as Kp.
    pose proof (keep_vm_ok _ _ Kp Hs) as Hs1. pose proof (keep_open_list _ _ _ Kp Hl) as Hl1.
    pose proof (vm_ok_list _ _ Hs1 Hl1) as Hok1.
    assert (Hrep1 : rep K R top cells s1).
    { eapply rep_frame; [exact Hrep | | |].
      - intros i Hi. apply Hsame1. lia.
      - intros a w0 nx Ha. rewrite Hh1. eauto.
      - lia. }
    set (loc := off + N.to_nat index) in *.
    destruct (register_shares F bld P reenter ip0 s index is_local s1 ca ch car cups off l loc
                Hop Ei Eil Hnz Ep Hca Eo eq_refl ltac:(lia) Hs Hl) as [A B].
    destruct (in_dec Nat.eq_dec loc (slots l)) as [Hin|Hnin].
    - (* the slot already has an open upvalue: shared *)
      destruct (in_slots_ex _ _ Hin) as (a & Hina).
      destruct (open_in_obj _ _ _ _ Hok1 _ _ Hina) as (v & nx & Ha).
      assert (Hne : a <> ca) by (intros ->; rewrite Hca in Ha; discriminate).
      set (s' := set_heap s1 (hset (st_heap s1) ca (OClo ch car (cups ++ [a])))).
      assert (Kk : keep s1 s').
      { apply clo_append_keep; [exact Hca|]. intros _. eauto. }
      assert (Hlt : N.to_nat ca < length (st_heap s1)) by (eapply hget_lt; eauto).
      exists s', a, l. split; [apply A, Hina|]. split; [eapply keep_vm_ok; eauto|].
      split; [eapply keep_open_list; eauto|]. split; [auto|]. split; [exact Hn1|]. split; [reflexivity|].
      split; [cbn [s' st_heap set_heap]; apply hget_hset_eq, Hlt|].
      split.
      { exists (mkUp (Some loc) v nx). split; [cbn [s' st_heap set_heap]; rewrite hget_hset_ne by exact Hne; exact Ha|].
        exact Hc. }
      split.
      { eapply rep_frame; [exact Hrep1 | reflexivity | | change (top <= scount s1); lia].
        intros x w0 nx0 Hx. exists nx0. cbn [s' st_heap set_heap]. rewrite hget_hset_ne; [exact Hx|].
        intros ->. rewrite Hca in Hx. discriminate. }
      split.
      { intros ua' c' (u & Hu & Hc'). exists u. split; [|exact Hc']. cbn [s' st_heap set_heap].
        rewrite hget_hset_ne; [rewrite Hh1; exact Hu|]. intros ->. rewrite <- Hh1, Hca in Hu. discriminate. }
      intros x o Hx Ho _. cbn [s' st_heap set_heap]. rewrite hget_hset_ne by exact Hx. rewrite Hh1. exact Ho.
    - (* a new open upvalue is created *)
      destruct (B Hnin) as (s' & E & Hs' & Hl' & Hca' & (nx & Hua) & Hst & Hcalls & _ & Hsame & Hmono).
      set (ua := N.of_nat (length (st_heap s1))) in *.
      pose proof (vm_ok_list _ _ Hs' Hl') as Hok'.
      assert (Hfresh : hget (st_heap s1) ua = None).
      { unfold hget, ua. apply nth_error_None. rewrite Nat2N.id. lia. }
      exists s', ua, (ins_desc ua loc l). split; [exact E|]. split; [exact Hs'|]. split; [exact Hl'|].
      split; [intros x Hx; apply ins_desc_incl, Hx|].
      split; [unfold scount in *; rewrite Hst; exact Hn1|]. split; [exact Hcalls|].
      split; [exact Hca'|].
      split; [exists (mkUp (Some loc) VNil nx); split; [exact Hua | exact Hc]|].
      split.
      { eapply rep_frame; [exact Hrep1 | | |].
        - intros i _. apply sraw_get_stack, Hst.
        - intros x w0 nx0 Hx. exists nx0. rewrite Hsame; [exact Hx | rewrite Hx; reflexivity | |].
          + intros ->. rewrite Hfresh in Hx. discriminate.
          + intros ->. rewrite Hca in Hx. discriminate.
        - unfold scount in *. rewrite Hst. lia. }
      split.
      { intros ua' c' (u & Hu & Hc'). rewrite <- Hh1 in Hu. destruct u as [[i|] uv un].
        - assert (Hin' : In (ua', i) l) by (eapply open_obj_in; eauto).
          destruct (open_in_obj _ _ _ _ Hok' _ _ (ins_desc_incl ua loc l _ Hin')) as (v' & nx' & Hu').
          eexists. split; [exact Hu' | exact Hc'].
        - exists (mkUp None uv un). split; [|exact Hc']. rewrite Hsame; [exact Hu | rewrite Hu; reflexivity | |].
          + intros ->. rewrite Hfresh in Hu. discriminate.
          + intros ->. rewrite Hca in Hu. discriminate. }
      intros x o Hx Ho Hn. rewrite <- Hh1 in Ho. rewrite Hsame; [exact Ho | | | exact Hx].
      + rewrite Ho. destruct o; try reflexivity. exfalso. eapply Hn; reflexivity.
      + intros ->. rewrite Hfresh in Ho. discriminate.
  Qed.

  (* ---------------------------------------------------------------- Return *)
  Theorem rep_return : forall ip0 s fr prev rest l top cells,
    opcode_at P ip0 = 22%N -> st_calls s = fr :: prev :: rest ->
    vm_ok s -> open_list s l -> rep K R top cells s -> top < scount s ->
    let off := N.to_nat (fr_off fr) in
    off <= top ->
    exists s', STEP ip0 s = SNext (fr_dst prev) s' /\ vm_ok s' /\ open_list s' (kept_by off l) /\
      st_calls s' = prev :: rest /\ st_globals s' = st_globals s /\
      (* the frame is gone; the caller finds the return value on top of its part of the stack *)
      scount s' = S off /\ sraw_get s' off = sraw_get s (scount s - 1) /\
      (forall i, i < off -> sraw_get s' i = sraw_get s i) /\
      rep K (close_map off l R) off cells s' /\
      (forall ua c, up_cell R s ua c -> up_cell (close_map off l R) s' ua c) /\
      (forall a o, hget (st_heap s) a = Some o -> (forall u, o <> OUp u) -> hget (st_heap s') a = Some o).
  Proof.
    intros ip0 s fr prev rest l top cells Hop Ec Hs Hl Hrep Htop off Hle.
    destruct (return_closes F bld P reenter ip0 s fr prev rest l Hop Ec Hs Hl)
      as (s2 & Ecl & Estep & Hs2 & Hl2 & Hst2 & Hcalls2 & Hcl & Hun).
    fold off in Ecl, Estep, Hl2, Hcl, Hun.
    destruct (rep_closing K R top cells s s2 l off (vm_ok_list _ _ Hs Hl) Hrep Hle Hst2 Hcl Hun)
      as (Hrep2 & Hup2 & Hplain2).
    assert (Hcap : scount s < cap s) by (destruct Hs as (_ & Hc & _); exact Hc).
    set (s3 := fst (sclear_until s2 off)) in *. set (v := snd (sclear_until s2 off)) in *.
    assert (Hv : v = sraw_get s (scount s - 1)).
    { subst v. unfold sclear_until, vs_step, vs_last. cbn [snd]. rewrite Hst2. unfold sraw_get, scount in *.
      destruct (Nat.ltb_spec 0 (vcount (st_stack s))); [reflexivity|lia]. }
    assert (K3 : keep s2 s3).
    { eapply sclear_until_keep; [apply surjective_pairing|]. unfold cap. rewrite Hst2. fold (cap s). lia. }
    assert (Hh3 : st_heap s3 = st_heap s2) by reflexivity.
    assert (Hn3 : scount s3 = off) by reflexivity.
    assert (Hcap3 : cap s3 = cap s) by (unfold cap; cbn; rewrite Hst2; reflexivity).
    assert (Hraw3 : forall i, sraw_get s3 i = sraw_get s i) by (intros i; unfold sraw_get; cbn; rewrite Hst2; reflexivity).
    destruct (spush_raw s3 v) as (s' & E & Hn & _ & Hh & Hcalls & _ & Hnew & Hsame); [rewrite Hn3, Hcap3; lia|].
    pose proof (spush_keep _ _ _ E) as K4.
    exists s'. rewrite Estep. unfold push_next. rewrite E. split; [reflexivity|].
    split; [eapply keep_vm_ok; [exact K4|]; eapply keep_vm_ok; eauto|].
    split; [eapply keep_open_list; [exact K4|]; eapply keep_open_list; eauto|].
    split; [rewrite Hcalls; exact Hcalls2|].
    split.
    { destruct K4 as ((_ & _ & _) & _). unfold spush in E. destruct (vs_push (st_stack s3) v) as [k o]. destruct o; try discriminate.
      injection E as <-. cbn. destruct (close_from_spec off (set_calls s (prev :: rest)) l (cap s)) as (s2' & E2 & _ & (_ & _ & G & _) & _).
      - apply (vm_ok_list (set_calls s (prev :: rest)) l); [|exact Hl].
        apply vm_ok_set_calls; [exact Hs|]. destruct Hs as (_ & _ & Hf). rewrite Ec in Hf. inversion Hf; assumption.
      - rewrite Ecl in E2. injection E2 as <-. exact G. }
    split; [rewrite Hn, Hn3; reflexivity|].
    split; [rewrite Hn3 in Hnew; rewrite Hnew; exact Hv|].
    split; [intros i Hi; rewrite Hsame by (rewrite Hn3; lia); apply Hraw3|].
    split.
    { eapply rep_frame; [exact Hrep2 | | |].
      - intros i Hi. rewrite Hsame by (rewrite Hn3; lia). rewrite Hraw3. symmetry. apply sraw_get_stack, Hst2.
      - intros a w0 nx Ha. rewrite Hh, Hh3. eauto.
      - rewrite Hn, Hn3. lia. }
    split.
    { intros ua c Hu. destruct (Hup2 _ _ Hu) as (u & Hua & Hc). exists u. rewrite Hh, Hh3. auto. }
    intros a o Ha Hn'. rewrite Hh, Hh3. auto.
  Qed.
End Capture.
