(* C07 at the level of the VM model (Vm.v): the table representation of the VM ([table] = map part + key
   vector, operations tget / tinsert / tremove / tappend / tpop / tnth_key / titer), the table instructions
   that apply them to heap cells, reference sharing, and preservation of the table invariant by [step].

   Part 1  (Section TableLevel) is generic in the key equality [eq : eqfun] and in a key domain [D]:
           [eq] answers on D (no fuel exhaustion / dangling address) and every key of D matches itself.
           Nothing else is assumed: neither symmetry nor transitivity of [eq] is needed for the refinement,
           because the invariant speaks about ORDERED pairs (an earlier stored key never matches a later one).
   Part 2  instantiates eq := veq0 F h, D := vkey F h (nil, integers, reals r with r == r, addresses of live
           objects that are not tables) and shows stability under heap growth.
   Part 3  instruction lemmas (InitTable, GetProperty, SetProperty, AppendTable, PopTable, Len, NthRow,
           BeginForEach, ForEach), reference sharing.
   Part 4  [step] preserves "every table of the heap satisfies the invariant". *)
From Coq Require Import NArith ZArith List Lia Bool FinFun.
From Cao Require Import ListUtil Bits Stacks StacksProofs Vm VmProofs VmNativeProofs C04VmProofs.
Import ListNotations.

Set Implicit Arguments.

Arguments N.add : simpl never.
Arguments N.sub : simpl never.
Arguments N.mul : simpl never.
Arguments Z.add : simpl never.
Arguments Z.sub : simpl never.
Arguments Z.mul : simpl never.
Arguments Z.of_nat : simpl never.
Arguments N.of_nat : simpl never.
Arguments N.to_nat : simpl never.

(* ================================================================== *)
(* Part 1 : the table object                                           *)
(* ================================================================== *)

(* the two comparisons the table code uses, as booleans ([false] also when the comparison does not answer):
   [kb eq stored probe] = the map part's test (equal hash - bit-equal reals - and ==),
   [eb eq stored key]   = the plain == of `keys.retain(|k| k != key)` in CaoLangTable::remove *)
Definition kb (eq : eqfun) (a b : value) : bool := match keq eq a b with Some true => true | _ => false end.
Definition eb (eq : eqfun) (a b : value) : bool := match eq a b with Some true => true | _ => false end.

(* ---- the specification: an ordered association list ---- *)
Definition alist := list (value * value).

(* get = the value of the first entry whose key matches *)
Fixpoint al_get (eq : eqfun) (k : value) (m : alist) : option value :=
  match m with
  | [] => None
  | (k', v) :: r => if kb eq k' k then Some v else al_get eq k r
  end.
(* set: the first matching entry keeps its place and its stored key and gets the new value;
   without a match the entry goes to the end *)
Fixpoint al_set (eq : eqfun) (k v : value) (m : alist) : alist :=
  match m with
  | [] => [(k, v)]
  | (k', v') :: r => if kb eq k' k then (k', v) :: r else (k', v') :: al_set eq k v r
  end.
(* remove: every entry whose key is == to the argument disappears, the others keep their order *)
Definition al_remove (eq : eqfun) (key : value) (m : alist) : alist :=
  filter (fun kv => negb (eb eq (fst kv) key)) m.
(* pop: the last entry in order *)
Definition al_pop (m : alist) : alist * value := (removelast m, snd (last m (VNil, VNil))).

(* position and value of the first match (the shape map_find computes) *)
Fixpoint al_find (eq : eqfun) (k : value) (m : alist) : option (nat * value) :=
  match m with
  | [] => None
  | (k', v) :: r =>
      if kb eq k' k then Some (0, v)
      else match al_find eq k r with Some (i, v') => Some (S i, v') | None => None end
  end.

Definition nomatch (eq : eqfun) (k : value) (l : list value) : Prop := Forall (fun k' => kb eq k' k = false) l.

(* no key is matched by a key stored before it *)
Fixpoint kdistinct (eq : eqfun) (l : list value) : Prop :=
  match l with
  | [] => True
  | k :: r => Forall (fun k' => kb eq k k' = false) r /\ kdistinct eq r
  end.

(* the invariant: the map part and the key vector are aligned entry by entry, every key lies in the key
   domain, no key matches an earlier one *)
Definition twf (eq : eqfun) (D : value -> Prop) (t : table) : Prop :=
  map fst (tmap t) = tkeys t /\ Forall D (tkeys t) /\ kdistinct eq (tkeys t).

(* the abstraction: the entries in the order of the key vector (see [tabs_keys], [titer_spec]) *)
Definition tabs (t : table) : alist := tmap t.

Lemma remove_nth_app {A} (pre : list A) x post : remove_nth (length pre) (pre ++ x :: post) = pre ++ post.
Proof. induction pre as [|a pre IH]; cbn [length app remove_nth]; [reflexivity|]. f_equal. exact IH. Qed.

Lemma upd_app_mid {A} (pre : list A) x y post : upd (pre ++ x :: post) (length pre) y = pre ++ y :: post.
Proof. induction pre as [|a pre IH]; cbn [length app upd]; [reflexivity|]. f_equal. exact IH. Qed.

Lemma nth_app_mid {A} (pre : list A) x post d : nth (length pre) (pre ++ x :: post) d = x.
Proof. induction pre as [|a pre IH]; cbn [length app nth]; [reflexivity|]. exact IH. Qed.

Lemma snoc_cases {A} (l : list A) : l = [] \/ exists l' x, l = l' ++ [x].
Proof. destruct l using rev_ind; [left; reflexivity | right; eauto]. Qed.

Section TableLevel.
Variable eq : eqfun.
Variable D : value -> Prop.
Hypothesis eq_total : forall a b, D a -> D b -> eq a b <> None.
Hypothesis kb_refl : forall a, D a -> kb eq a a = true.

Notation kb' := (kb eq).
Notation eb' := (eb eq).

Lemma keq_total a b : D a -> D b -> keq eq a b = Some (kb' a b).
Proof.
  intros Ha Hb. unfold kb. pose proof (eq_total Ha Hb) as T.
  assert (X : forall o : option bool, o <> None -> o = Some (match o with Some true => true | _ => false end)).
  { intros [[|]|] H; try reflexivity. congruence. }
  destruct a, b; cbn [keq] in *; try (apply X; exact T).
  destruct (N.eqb bits bits0); [apply X; exact T | reflexivity].
Qed.

Lemma eq_total_b a b : D a -> D b -> eq a b = Some (eb' a b).
Proof.
  intros Ha Hb. unfold eb. pose proof (eq_total Ha Hb) as T.
  destruct (eq a b) as [[|]|]; try reflexivity. congruence.
Qed.

(* ---- kdistinct toolkit ---- *)
Lemma kdistinct_app a b :
  kdistinct eq (a ++ b) <-> kdistinct eq a /\ kdistinct eq b /\ forall k, In k b -> nomatch eq k a.
Proof.
  induction a as [|x a IH]; cbn [app kdistinct].
  - split; [intros H; repeat split; auto; intros; constructor | tauto].
  - rewrite IH, Forall_app. split.
    + intros ((Ha & Hb) & Hda & Hdb & Hc). repeat split; auto.
      intros k Hk. constructor; [rewrite Forall_forall in Hb; apply Hb, Hk | apply Hc, Hk].
    + intros ((Ha & Hda) & Hdb & Hc). repeat split; auto.
      * rewrite Forall_forall. intros k Hk. specialize (Hc k Hk). inversion Hc; assumption.
      * intros k Hk. specialize (Hc k Hk). inversion Hc; assumption.
Qed.

Lemma kdistinct_snoc l k : kdistinct eq (l ++ [k]) <-> kdistinct eq l /\ nomatch eq k l.
Proof.
  rewrite kdistinct_app. cbn [kdistinct]. split.
  - intros (Ha & _ & Hc). split; [exact Ha | apply Hc; left; reflexivity].
  - intros (Ha & Hn). repeat split; auto. intros k' [<-|[]]. exact Hn.
Qed.

(* ---- map_find computes al_find ---- *)
Lemma map_find_spec m k : Forall D (map fst m) -> D k -> map_find eq k m = Some (al_find eq k m).
Proof.
  intros Hm Hk. induction m as [|[k' v] r IH]; cbn [map_find al_find]; [reflexivity|].
  cbn [map fst] in Hm. inversion Hm as [|? ? Hk' Hr]; subst.
  rewrite (keq_total Hk' Hk). destruct (kb' k' k); [reflexivity|].
  rewrite (IH Hr). destruct (al_find eq k r) as [[i v']|]; reflexivity.
Qed.

Lemma al_find_get k m : al_get eq k m = match al_find eq k m with Some (_, v) => Some v | None => None end.
Proof.
  induction m as [|[k' v] r IH]; cbn [al_get al_find]; [reflexivity|].
  destruct (kb' k' k); [reflexivity|]. rewrite IH. destruct (al_find eq k r) as [[i v']|]; reflexivity.
Qed.

Lemma al_find_some k m i v : al_find eq k m = Some (i, v) ->
  exists pre k' post, m = pre ++ (k', v) :: post /\ length pre = i /\ kb' k' k = true /\
                      nomatch eq k (map fst pre).
Proof.
  revert i v. induction m as [|[k' v'] r IH]; intros i v H; cbn [al_find] in H; [discriminate|].
  destruct (kb' k' k) eqn:E.
  - inversion H; subst. exists [], k', r. repeat split; auto. constructor.
  - destruct (al_find eq k r) as [[j w]|] eqn:F; [|discriminate]. inversion H; subst.
    destruct (IH _ _ eq_refl) as (pre & k2 & post & -> & Hl & Hk & Hn).
    exists ((k', v') :: pre), k2, post. repeat split; auto. cbn [length]. lia.
    cbn [map fst]. constructor; assumption.
Qed.

Lemma al_find_none k m : al_find eq k m = None -> nomatch eq k (map fst m).
Proof.
  induction m as [|[k' v'] r IH]; intros H; cbn [al_find] in H; [constructor|].
  destruct (kb' k' k) eqn:E; [discriminate|].
  destruct (al_find eq k r) as [[j w]|] eqn:F; [discriminate|]. cbn [map fst].
  constructor; [exact E | apply IH; reflexivity].
Qed.

Lemma al_find_app_hit pre k' v post k :
  nomatch eq k (map fst pre) -> kb' k' k = true ->
  al_find eq k (pre ++ (k', v) :: post) = Some (length pre, v).
Proof.
  intros Hn Hk. induction pre as [|[a b] pre IH]; cbn [app al_find length].
  - rewrite Hk. reflexivity.
  - cbn [map fst] in Hn. inversion Hn as [|? ? Ha Hr]; subst. rewrite Ha, (IH Hr). reflexivity.
Qed.

Lemma al_find_nomatch k m : nomatch eq k (map fst m) -> al_find eq k m = None.
Proof.
  induction m as [|[a b] r IH]; intros Hn; cbn [al_find]; [reflexivity|].
  cbn [map fst] in Hn. inversion Hn as [|? ? Ha Hr]; subst. rewrite Ha, (IH Hr). reflexivity.
Qed.

(* al_set through al_find *)
Lemma al_set_find k v m :
  al_set eq k v m = match al_find eq k m with
                    | Some (i, _) => upd m i (fst (nth i m (VNil, VNil)), v)
                    | None => m ++ [(k, v)]
                    end.
Proof.
  induction m as [|[k' v'] r IH]; cbn [al_set al_find]; [reflexivity|].
  destruct (kb' k' k); [reflexivity|]. rewrite IH.
  destruct (al_find eq k r) as [[i w]|]; reflexivity.
Qed.

Lemma al_set_keys_present k v m : al_get eq k m <> None -> map fst (al_set eq k v m) = map fst m.
Proof.
  induction m as [|[k' v'] r IH]; cbn [al_get al_set]; [congruence|].
  destruct (kb' k' k); [reflexivity|]. intros H. cbn [map fst]. f_equal. exact (IH H).
Qed.

Lemma al_set_absent k v m : al_get eq k m = None -> al_set eq k v m = m ++ [(k, v)].
Proof.
  induction m as [|[k' v'] r IH]; cbn [al_get al_set]; [reflexivity|].
  destruct (kb' k' k); [discriminate|]. intros H. cbn [app]. f_equal. exact (IH H).
Qed.

Lemma al_set_length_present k v m : al_get eq k m <> None -> length (al_set eq k v m) = length m.
Proof. intros H. rewrite <- (map_length fst), (@al_set_keys_present k v m H). apply map_length. Qed.

(* a write followed by a read through the same key *)
Lemma al_get_set_same k v m : kb' k k = true -> al_get eq k (al_set eq k v m) = Some v.
Proof.
  intros Hk. induction m as [|[k' v'] r IH]; cbn [al_set al_get].
  - rewrite Hk. reflexivity.
  - destruct (kb' k' k) eqn:E; cbn [al_get]; rewrite E; [reflexivity | exact IH].
Qed.

(* ---- the operations ---- *)

Lemma tabs_keys t : twf eq D t -> map fst (tabs t) = tkeys t.
Proof. intros (H & _). exact H. Qed.

Lemma tlen_spec t : twf eq D t -> length (tkeys t) = length (tabs t).
Proof. intros (H & _). rewrite <- H. apply map_length. Qed.

Lemma twf_empty : twf eq D (mkTable [] []).
Proof. repeat split; constructor. Qed.

Lemma tget_spec t k : twf eq D t -> D k -> tget eq t k = Some (al_get eq k (tabs t)).
Proof.
  intros (Ha & Hd & _) Hk. unfold tget, tabs. rewrite map_find_spec by (rewrite ?Ha; assumption).
  rewrite al_find_get. destruct (al_find eq k (tmap t)) as [[i v]|]; reflexivity.
Qed.

Lemma tinsert_spec t k v : twf eq D t -> D k ->
  exists t', tinsert eq t k v = Some t' /\ twf eq D t' /\ tabs t' = al_set eq k v (tabs t).
Proof.
  intros (Ha & Hd & Hn) Hk. unfold tinsert, tabs.
  rewrite map_find_spec by (rewrite ?Ha; assumption). rewrite al_set_find.
  destruct (al_find eq k (tmap t)) as [[i w]|] eqn:E.
  - eexists; split; [reflexivity|]. split; [|reflexivity].
    destruct (al_find_some _ _ E) as (pre & k' & post & Hm & Hl & _). subst i.
    repeat split; cbn [tmap tkeys]; auto.
    rewrite Hm, nth_app_mid, upd_app_mid. cbn [fst]. rewrite <- Ha, Hm, !map_app. reflexivity.
  - eexists; split; [reflexivity|]. split; [|reflexivity].
    repeat split; cbn [tmap tkeys].
    + rewrite map_app, Ha. reflexivity.
    + apply Forall_app; split; [assumption | constructor; [assumption | constructor]].
    + apply kdistinct_snoc. split; [assumption|]. rewrite <- Ha. apply al_find_none, E.
Qed.

(* remove *)
Lemma tremove_go_spec key : D key -> forall sub pre,
  Forall D (map fst (pre ++ sub)) ->
  (forall k, In k (map fst sub) -> nomatch eq k (map fst pre)) ->
  kdistinct eq (map fst sub) ->
  tremove_go eq key (map fst sub) (pre ++ sub)
  = Some (filter (fun k => negb (eb' k key)) (map fst sub), pre ++ al_remove eq key sub).
Proof.
  intros Hkey. induction sub as [|[k v] sub IH]; intros pre HD Hpre Hdis.
  - cbn [map tremove_go filter al_remove]. reflexivity.
  - cbn [map fst tremove_go filter]. unfold al_remove. cbn [filter fst]. fold (al_remove eq key sub).
    assert (Dk : D k).
    { rewrite map_app, Forall_app in HD. destruct HD as (_ & HD). cbn [map fst] in HD. inversion HD; assumption. }
    rewrite (eq_total_b Dk Hkey). cbn [kdistinct] in Hdis. destruct Hdis as (Hk1 & Hdis).
    destruct (eb' k key) eqn:E; cbn [negb].
    + unfold map_remove. rewrite map_find_spec by assumption.
      rewrite al_find_app_hit; [| apply Hpre; left; reflexivity | apply kb_refl, Dk].
      rewrite remove_nth_app. apply IH; auto.
      * rewrite map_app, Forall_app in *. destruct HD as (H1 & H2). split; [exact H1|].
        cbn [map fst] in H2. inversion H2; assumption.
      * intros k0 Hk0. apply Hpre. right. exact Hk0.
    + replace (pre ++ (k, v) :: sub) with ((pre ++ [(k, v)]) ++ sub) by (rewrite <- app_assoc; reflexivity).
      rewrite IH; auto.
      * rewrite <- app_assoc. reflexivity.
      * rewrite <- app_assoc. exact HD.
      * intros k0 Hk0. rewrite map_app. apply Forall_app. split; [apply Hpre; right; exact Hk0|].
        cbn [map fst]. constructor; [|constructor]. rewrite Forall_forall in Hk1. apply Hk1, Hk0.
Qed.

Lemma filter_keys f (m : alist) : map fst (filter (fun kv => f (fst kv)) m) = filter f (map fst m).
Proof.
  induction m as [|[k v] m IH]; cbn [filter map fst]; [reflexivity|].
  destruct (f k); cbn [map fst]; rewrite IH; reflexivity.
Qed.

Lemma kdistinct_filter f l : kdistinct eq l -> kdistinct eq (filter f l).
Proof.
  induction l as [|k l IH]; cbn [kdistinct filter]; [auto|]. intros (H1 & H2).
  destruct (f k); cbn [kdistinct]; auto. split; auto.
  rewrite Forall_forall in *. intros x Hx. apply H1. apply filter_In in Hx. tauto.
Qed.

Lemma Forall_filter {A} (Pp : A -> Prop) f l : Forall Pp l -> Forall Pp (filter f l).
Proof.
  rewrite !Forall_forall. intros H x Hx. apply H. apply filter_In in Hx. tauto.
Qed.

Lemma tremove_spec t key : twf eq D t -> D key ->
  exists t', tremove eq t key = Some t' /\ twf eq D t' /\ tabs t' = al_remove eq key (tabs t).
Proof.
  intros (Ha & Hd & Hn) Hkey. unfold tremove, tabs. rewrite <- Ha.
  pose proof (@tremove_go_spec key Hkey (tmap t) []) as H. cbn [app] in H. rewrite H.
  - eexists; split; [reflexivity|]. split; [|reflexivity]. repeat split; cbn [tmap tkeys].
    + unfold al_remove. apply (filter_keys (fun k => negb (eb' k key))).
    + apply Forall_filter. rewrite Ha. exact Hd.
    + apply kdistinct_filter. rewrite Ha. exact Hn.
  - rewrite Ha. exact Hd.
  - intros. constructor.
  - rewrite Ha. exact Hn.
Qed.

(* when == and the map's test agree between the stored keys and the argument (no real key of the table is
   == to the argument with another bit pattern, i.e. no -0.0 / +0.0 pair), remove deletes the entry that
   get finds and nothing else *)
Lemma al_remove_single key m :
  kdistinct eq (map fst m) -> Forall D (map fst m) ->
  (forall k, In k (map fst m) -> eb' k key = kb' k key) ->
  (forall a b, In a (map fst m) -> In b (map fst m) -> kb' a key = true -> kb' b key = true -> kb' a b = true) ->
  al_remove eq key m = match al_find eq key m with
                       | Some (i, _) => remove_nth i m
                       | None => m
                       end.
Proof.
  intros Hdis HD Hag Htr. induction m as [|[k v] m IH]; [reflexivity|].
  unfold al_remove in *. cbn [filter al_find fst map kdistinct] in *.
  destruct Hdis as (H1 & Hdis). inversion HD as [|? ? Dk HD']; subst.
  rewrite (Hag k (or_introl Logic.eq_refl)).
  assert (IH' := IH Hdis HD' (fun k0 H => Hag k0 (or_intror H))
                    (fun a b Ha Hb => Htr a b (or_intror Ha) (or_intror Hb))). clear IH.
  destruct (kb' k key) eqn:E; cbn [negb remove_nth].
  - (* no later key matches: it would match k *)
    clear IH'. assert (Hno : forall x, In x m -> negb (eb' (fst x) key) = true).
    { intros [k2 v2] Hx. cbn [fst]. assert (Hin : In k2 (map fst m)) by (apply (in_map fst) in Hx; exact Hx).
      rewrite (Hag k2 (or_intror Hin)). destruct (kb' k2 key) eqn:E2; [|reflexivity].
      pose proof (Htr k k2 (or_introl Logic.eq_refl) (or_intror Hin) E E2) as C.
      rewrite Forall_forall in H1. rewrite (H1 k2 Hin) in C. discriminate. }
    clear -Hno. induction m as [|x m IH]; [reflexivity|]. cbn [filter].
    rewrite (Hno x (or_introl Logic.eq_refl)). f_equal. apply IH. intros y Hy. apply Hno. right. exact Hy.
  - rewrite IH'. destruct (al_find eq key m) as [[i w]|]; reflexivity.
Qed.

(* pop *)
Lemma tpop_spec t : twf eq D t ->
  exists t', tpop eq t = Some (t', snd (al_pop (tabs t))) /\ twf eq D t' /\ tabs t' = fst (al_pop (tabs t)).
Proof.
  intros (Ha & Hd & Hn). unfold tpop, tabs, al_pop. cbn [fst snd].
  destruct (snoc_cases (tmap t)) as [Em | (m0 & [k v] & Em)].
  - rewrite Em in *. cbn [map] in Ha. rewrite <- Ha. cbn [rev last removelast snd]. exists t.
    rewrite Em. split; [reflexivity|]. split; [|reflexivity].
    repeat split; rewrite <- ?Ha, ?Em; cbn; auto.
  - rewrite Em in *. rewrite map_app in Ha. cbn [map fst] in Ha. rewrite <- Ha.
    rewrite rev_app_distr. cbn [rev app]. rewrite <- Ha in Hd, Hn.
    apply Forall_app in Hd. destruct Hd as (Hd1 & Hd2). inversion Hd2 as [|? ? Dk _]; subst.
    apply kdistinct_snoc in Hn. destruct Hn as (Hn1 & Hn2).
    rewrite map_find_spec; [| rewrite map_app; apply Forall_app; split; assumption | assumption].
    rewrite al_find_app_hit by (auto using kb_refl).
    rewrite remove_nth_app, app_nil_r, !removelast_last, last_last. cbn [snd].
    eexists; split; [reflexivity|]. split; [|reflexivity]. repeat split; cbn [tmap tkeys]; auto.
Qed.

(* nth key, iteration *)
Lemma tnth_key_spec t i : twf eq D t -> tnth_key t i = nth i (map fst (tabs t)) VNil.
Proof.
  intros (Ha & _). unfold tnth_key, tabs. rewrite Ha.
  destruct (length (tkeys t) <=? i) eqn:E; [|reflexivity].
  apply Nat.leb_le in E. symmetry. apply nth_overflow. exact E.
Qed.

Lemma titer_go_spec : forall sub pre,
  Forall D (map fst (pre ++ sub)) ->
  (forall k, In k (map fst sub) -> nomatch eq k (map fst pre)) ->
  kdistinct eq (map fst sub) ->
  titer_go eq (pre ++ sub) (map fst sub) = Some sub.
Proof.
  induction sub as [|[k v] sub IH]; intros pre HD Hpre Hdis; [reflexivity|].
  cbn [map fst titer_go].
  assert (HD' := HD). rewrite map_app, Forall_app in HD'. destruct HD' as (HD1 & HD2).
  cbn [map fst] in HD2. inversion HD2 as [|? ? Dk HD3]; subst.
  rewrite map_find_spec by assumption.
  rewrite al_find_app_hit; [| apply Hpre; left; reflexivity | apply kb_refl, Dk].
  cbn [kdistinct map fst] in Hdis. destruct Hdis as (Hk1 & Hdis).
  replace (pre ++ (k, v) :: sub) with ((pre ++ [(k, v)]) ++ sub) by (rewrite <- app_assoc; reflexivity).
  rewrite IH; auto.
  - rewrite <- app_assoc. exact HD.
  - intros k0 Hk0. rewrite map_app. apply Forall_app. split; [apply Hpre; right; exact Hk0|].
    cbn [map fst]. constructor; [|constructor]. rewrite Forall_forall in Hk1. apply Hk1, Hk0.
Qed.

Lemma titer_spec t : twf eq D t -> titer eq t = Some (tabs t).
Proof.
  intros (Ha & Hd & Hn). unfold titer, tabs. rewrite <- Ha.
  apply (titer_go_spec (tmap t) []); cbn [app]; rewrite ?Ha; auto. intros; constructor.
Qed.

(* append: the key is the least integer >= the number of entries that is not a key of the table *)
Section Append.
Hypothesis D_int : forall i, D (VInt i).
(* an integer probe is matched only by that integer *)
Hypothesis kb_int : forall a i, D a -> kb' a (VInt i) = true -> a = VInt i.

Lemma tappend_idx_spec m : Forall D (map fst m) -> forall fuel i,
  (exists j, tappend_idx eq fuel m i = Some (Some j) /\ (i <= j)%Z /\ al_get eq (VInt j) m = None /\
             forall x, (i <= x < j)%Z -> al_get eq (VInt x) m <> None) \/
  (tappend_idx eq fuel m i = Some None /\
   forall x, (i <= x < i + Z.of_nat fuel)%Z -> al_get eq (VInt x) m <> None).
Proof.
  intros HD. induction fuel as [|f IH]; intros i; cbn [tappend_idx].
  - right. split; [reflexivity|]. intros x Hx. lia.
  - rewrite map_find_spec by auto. pose proof (al_find_get (VInt i) m) as G.
    destruct (al_find eq (VInt i) m) as [[p w]|] eqn:E.
    + destruct (IH (i + 1)%Z) as [(j & H1 & H2 & H3 & H4)|(H1 & H2)].
      * left. exists j. split; [exact H1|]. split; [lia|]. split; [exact H3|]. intros x Hx.
        destruct (Z.eq_dec x i) as [->|Hne]; [rewrite G; discriminate | apply H4; lia].
      * right. split; [exact H1|]. intros x Hx.
        destruct (Z.eq_dec x i) as [->|Hne]; [rewrite G; discriminate | apply H2; lia].
    + left. exists i. split; [reflexivity|]. split; [lia|]. split; [rewrite G; reflexivity|].
      intros x Hx. lia.
Qed.

Lemma al_get_in k m : al_get eq k m <> None -> exists k', In k' (map fst m) /\ kb' k' k = true.
Proof.
  induction m as [|[k' v] r IH]; cbn [al_get]; [congruence|].
  destruct (kb' k' k) eqn:E.
  - intros _. exists k'. split; [left; reflexivity | exact E].
  - intros H. destruct (IH H) as (k2 & H1 & H2). exists k2. split; [right; exact H1 | exact H2].
Qed.

(* pigeonhole: among the n+1 integers len .. len+n one is not a key of a table with n entries *)
Lemma tappend_idx_fuel m i : Forall D (map fst m) ->
  tappend_idx eq (S (length m)) m i <> Some None.
Proof.
  intros HD H. destruct (@tappend_idx_spec m HD (S (length m)) i) as [(j & H1 & _)|(_ & H2)]; [congruence|].
  set (l := map (fun x => VInt (i + Z.of_nat x)) (seq 0 (S (length m)))).
  assert (Hnd : NoDup l).
  { apply Injective_map_NoDup; [|apply seq_NoDup]. intros a b E. inversion E. lia. }
  assert (Hincl : incl l (map fst m)).
  { intros k Hk. apply in_map_iff in Hk. destruct Hk as (x & <- & Hx). apply in_seq in Hx.
    destruct (@al_get_in (VInt (i + Z.of_nat x)) m) as (k' & Hin & Hk').
    - apply H2. lia.
    - rewrite Forall_forall in HD. rewrite <- (@kb_int k' _ (HD k' Hin) Hk'). exact Hin. }
  pose proof (NoDup_incl_length Hnd Hincl) as Hlen.
  unfold l in Hlen. rewrite !map_length, seq_length in Hlen. lia.
Qed.

Definition al_append_key (m : alist) (j : Z) : Prop :=
  (Z.of_nat (length m) <= j)%Z /\ al_get eq (VInt j) m = None /\
  forall x, (Z.of_nat (length m) <= x < j)%Z -> al_get eq (VInt x) m <> None.

Lemma tappend_spec t v : twf eq D t ->
  exists t' j, tappend eq t v = TOk t' /\ twf eq D t' /\
               al_append_key (tabs t) j /\ tabs t' = tabs t ++ [(VInt j, v)].
Proof.
  intros W. assert (W' := W). destruct W' as (Ha & Hd & Hn). unfold tappend.
  assert (HD : Forall D (map fst (tmap t))) by (rewrite Ha; exact Hd).
  assert (Hlen : length (tkeys t) = length (tmap t)) by (rewrite <- Ha; apply map_length).
  destruct (@tappend_idx_spec (tmap t) HD (S (length (tmap t))) (Z.of_nat (length (tkeys t))))
    as [(j & H1 & H2 & H3 & H4)|(H1 & _)]; [|exfalso; eapply tappend_idx_fuel; eauto].
  rewrite H1. destruct (tinsert_spec v W (D_int j)) as (t' & E & W' & Habs). rewrite E.
  exists t', j. split; [reflexivity|]. split; [exact W'|]. unfold tabs in *. split.
  - unfold al_append_key. rewrite <- Hlen. auto.
  - rewrite Habs. apply al_set_absent. exact H3.
Qed.
End Append.

End TableLevel.

(* ================================================================== *)
(* Part 2 : the VM's key equality on the key domain                    *)
(* ================================================================== *)

Lemma bytes_eqb_refl l : bytes_eqb l l = true.
Proof. induction l as [|x l IH]; cbn [bytes_eqb]; [reflexivity|]. rewrite N.eqb_refl, IH. reflexivity. Qed.

Lemma hget_app_old (h : heap) o a x : hget h a = Some x -> hget (h ++ [o]) a = Some x.
Proof.
  unfold hget. intros H. rewrite nth_error_app1; [exact H|]. apply nth_error_Some. congruence.
Qed.

Lemma hget_app_cases (h : heap) o a x : hget (h ++ [o]) a = Some x ->
  hget h a = Some x \/ (a = N.of_nat (length h) /\ x = o).
Proof.
  unfold hget. intros H. destruct (Nat.lt_ge_cases (N.to_nat a) (length h)) as [L|G].
  - rewrite nth_error_app1 in H by exact L. left. exact H.
  - rewrite nth_error_app2 in H by exact G. right.
    destruct (N.to_nat a - length h) as [|n] eqn:E; cbn [nth_error] in H.
    + inversion H; subst. split; [lia | reflexivity].
    + destruct n; discriminate.
Qed.

Lemma hget_app_new (h : heap) o : hget (h ++ [o]) (N.of_nat (length h)) = Some o.
Proof.
  unfold hget. rewrite Nat2N.id, nth_error_app2, Nat.sub_diag by lia. reflexivity.
Qed.

Lemma nth_error_upd_same {A} (l : list A) i v : i < length l -> nth_error (upd l i v) i = Some v.
Proof.
  revert i. induction l as [|x l IH]; intros [|i] H; cbn in *; try lia; [reflexivity|]. apply IH. lia.
Qed.
Lemma nth_error_upd_other {A} (l : list A) i j v : i <> j -> nth_error (upd l i v) j = nth_error l j.
Proof.
  revert i j. induction l as [|x l IH]; intros [|i] [|j] H; cbn; try reflexivity; try lia. apply IH. lia.
Qed.

Lemma hget_hset_same h a o x : hget h a = Some x -> hget (hset h a o) a = Some o.
Proof.
  unfold hget, hset. intros H. apply nth_error_upd_same. apply nth_error_Some. congruence.
Qed.
Lemma hget_hset_other h a b o : a <> b -> hget (hset h a o) b = hget h b.
Proof. unfold hget, hset. intros H. apply nth_error_upd_other. lia. Qed.

Lemma hget_hset_cases h a o b x : hget (hset h a o) b = Some x ->
  (b = a /\ x = o) \/ (b <> a /\ hget h b = Some x).
Proof.
  intros H. destruct (N.eq_dec b a) as [->|Hne].
  - left. split; [reflexivity|]. unfold hget, hset in H.
    destruct (Nat.lt_ge_cases (N.to_nat a) (length h)) as [L|G].
    + rewrite nth_error_upd_same in H by exact L. congruence.
    + assert (nth_error (upd h (N.to_nat a) o) (N.to_nat a) = None)
        by (apply nth_error_None; rewrite upd_length; exact G). congruence.
  - right. split; [exact Hne|]. rewrite hget_hset_other in H by congruence. exact H.
Qed.

(* two objects that == cannot tell apart: strings by content, functions by handle and arity, closures and
   upvalues by address (their cells are rewritten, never replaced by another kind), tables are not keys here *)
Definition same_kind (o o' : obj) : Prop :=
  match o, o' with
  | OTable _, OTable _ => True
  | OStr s, OStr s' => s = s'
  | OFun h a, OFun h' a' => h = h' /\ a = a'
  | ONative h, ONative h' => h = h'
  | OClo _ _ _, OClo _ _ _ => True
  | OUp _, OUp _ => True
  | _, _ => False
  end.

(* heap growth: live cells stay live and keep their kind *)
Definition hext (h h' : heap) : Prop :=
  forall a o, hget h a = Some o -> exists o', hget h' a = Some o' /\ same_kind o o'.

Lemma same_kind_refl o : same_kind o o.
Proof. destruct o; cbn; auto. Qed.
Lemma same_kind_trans o1 o2 o3 : same_kind o1 o2 -> same_kind o2 o3 -> same_kind o1 o3.
Proof. destruct o1, o2, o3; cbn; try tauto; try congruence. intros (-> & ->) (-> & ->). auto. Qed.

Lemma hext_refl h : hext h h.
Proof. intros a o H. exists o. split; [exact H | apply same_kind_refl]. Qed.
Lemma hext_trans h1 h2 h3 : hext h1 h2 -> hext h2 h3 -> hext h1 h3.
Proof.
  intros H12 H23 a o H. destruct (H12 a o H) as (o2 & H2 & K2). destruct (H23 a o2 H2) as (o3 & H3 & K3).
  exists o3. split; [exact H3 | eapply same_kind_trans; eauto].
Qed.
Lemma hext_alloc h o : hext h (h ++ [o]).
Proof. intros a x H. exists x. split; [apply hget_app_old, H | apply same_kind_refl]. Qed.
Lemma hext_hset h a o o' : hget h a = Some o -> same_kind o o' -> hext h (hset h a o').
Proof.
  intros Ha K b x Hb. destruct (N.eq_dec a b) as [<-|Hne].
  - exists o'. split; [eapply hget_hset_same; eauto|]. congruence.
  - exists x. split; [rewrite hget_hset_other by exact Hne; exact Hb | apply same_kind_refl].
Qed.

Section VmKeys.
Variable F : fops.

(* the key domain: nil, integers, reals that are == to themselves (not NaN), live objects that are not tables *)
Definition vkey (h : heap) (k : value) : Prop :=
  match k with
  | VNil | VInt _ => True
  | VReal r => f_cmp F r r = Some Eq
  | VObj a => match hget h a with Some (OTable _) | None => False | Some _ => True end
  end.

Lemma veq0_unfold h a b : veq0 F h a b = veq F (S 23) h a b.
Proof. reflexivity. Qed.

Lemma veq0_total h a b : vkey h a -> vkey h b -> veq0 F h a b <> None.
Proof.
  intros Ha Hb. rewrite veq0_unfold. destruct a, b; cbn [veq]; try discriminate.
  cbn [vkey] in Ha, Hb.
  destruct (hget h a) as [[]|]; try contradiction; destruct (hget h a0) as [[]|]; try contradiction; discriminate.
Qed.

Lemma veq0_refl h a : vkey h a -> kb (veq0 F h) a a = true.
Proof.
  intros Ha. unfold kb. destruct a; cbn [keq]; rewrite ?N.eqb_refl, veq0_unfold; cbn [veq].
  - reflexivity.
  - rewrite Z.eqb_refl. reflexivity.
  - cbn [vkey] in Ha. rewrite Ha. reflexivity.
  - cbn [vkey] in Ha. destruct (hget h a) as [[]|]; try contradiction;
      rewrite ?bytes_eqb_refl, ?N.eqb_refl; reflexivity.
Qed.

Lemma vkey_int h i : vkey h (VInt i).
Proof. exact I. Qed.

Lemma veq0_int h a i : vkey h a -> kb (veq0 F h) a (VInt i) = true -> a = VInt i.
Proof.
  intros _. unfold kb. destruct a; cbn [keq]; rewrite veq0_unfold; cbn [veq]; try discriminate.
  destruct (z =? i)%Z eqn:E; [|discriminate]. apply Z.eqb_eq in E. congruence.
Qed.

Lemma vkey_ext h h' k : hext h h' -> vkey h k -> vkey h' k.
Proof.
  intros X. destruct k; cbn [vkey]; auto.
  destruct (hget h a) as [o|] eqn:E; [|contradiction].
  destruct (X a o E) as (o' & -> & K). destruct o, o'; cbn in K; tauto.
Qed.

Lemma veq0_ext h h' a b : hext h h' -> vkey h a -> vkey h b -> veq0 F h' a b = veq0 F h a b.
Proof.
  intros X Ha Hb. rewrite !veq0_unfold. destruct a, b; cbn [veq]; try reflexivity.
  cbn [vkey] in Ha, Hb.
  destruct (hget h a) as [o1|] eqn:E1; [|contradiction].
  destruct (hget h a0) as [o2|] eqn:E2; [|contradiction].
  destruct (X a o1 E1) as (o1' & -> & K1). destruct (X a0 o2 E2) as (o2' & -> & K2).
  destruct o1; try contradiction; destruct o1'; cbn in K1; try contradiction;
  destruct o2; try contradiction; destruct o2'; cbn in K2; try contradiction;
  try reflexivity; try (destruct K1; subst); try (destruct K2; subst); subst; reflexivity.
Qed.

Lemma kb_ext h h' a b : hext h h' -> vkey h a -> vkey h b -> kb (veq0 F h') a b = kb (veq0 F h) a b.
Proof.
  intros X Ha Hb. unfold kb. destruct a, b; cbn [keq]; rewrite ?(veq0_ext X Ha Hb); try reflexivity.
  destruct (N.eqb bits bits0); [rewrite (veq0_ext X Ha Hb)|]; reflexivity.
Qed.

Lemma kdistinct_ext h h' l : hext h h' -> Forall (vkey h) l ->
  kdistinct (veq0 F h) l -> kdistinct (veq0 F h') l.
Proof.
  intros X. induction l as [|k l IH]; cbn [kdistinct]; [auto|]. intros HD (H1 & H2).
  inversion HD as [|? ? Dk Dl]; subst. split; [|apply IH; assumption].
  rewrite Forall_forall in *. intros x Hx. rewrite (kb_ext X Dk (Dl x Hx)). apply H1, Hx.
Qed.

Lemma twf_ext h h' t : hext h h' -> twf (veq0 F h) (vkey h) t -> twf (veq0 F h') (vkey h') t.
Proof.
  intros X (Ha & Hd & Hn). repeat split; [exact Ha | | eapply kdistinct_ext; eauto].
  rewrite Forall_forall in *. intros k Hk. eapply vkey_ext; eauto.
Qed.

(* the reading of an association list through the keys of the domain does not change when the heap grows *)
Lemma al_get_ext h h' k m : hext h h' -> vkey h k -> Forall (vkey h) (map fst m) ->
  al_get (veq0 F h') k m = al_get (veq0 F h) k m.
Proof.
  intros X Hk. induction m as [|[k' v] m IH]; cbn [al_get map fst]; [reflexivity|]. intros HD.
  inversion HD as [|? ? Dk Dm]; subst. rewrite (kb_ext X Dk Hk), (IH Dm). reflexivity.
Qed.

(* every table of the heap satisfies the invariant (with the heap's own equality) *)
Definition tables_wf (h : heap) : Prop :=
  forall a t, hget h a = Some (OTable t) -> twf (veq0 F h) (vkey h) t.

(* a heap transition that keeps cell kinds and the invariant *)
Definition good_ext (h h' : heap) : Prop := hext h h' /\ (tables_wf h -> tables_wf h').

Lemma good_refl h : good_ext h h.
Proof. split; [apply hext_refl | auto]. Qed.
Lemma good_trans h1 h2 h3 : good_ext h1 h2 -> good_ext h2 h3 -> good_ext h1 h3.
Proof. intros (X1 & W1) (X2 & W2). split; [eapply hext_trans; eauto | auto]. Qed.

Lemma tables_wf_step h h' : hext h h' -> tables_wf h ->
  (forall a t', hget h' a = Some (OTable t') ->
                hget h a = Some (OTable t') \/ twf (veq0 F h) (vkey h) t') ->
  tables_wf h'.
Proof.
  intros X W H a t' Ha. destruct (H a t' Ha) as [Hold|Hnew]; eapply twf_ext; eauto.
Qed.

Lemma good_alloc h o :
  (forall t, o = OTable t -> twf (veq0 F h) (vkey h) t) -> good_ext h (h ++ [o]).
Proof.
  intros Ho. split; [apply hext_alloc|]. intros W. apply (tables_wf_step (hext_alloc h o) W).
  intros a t' Ha. apply hget_app_cases in Ha. destruct Ha as [Ha|(_ & <-)]; [left; exact Ha|].
  right. apply Ho. reflexivity.
Qed.

Lemma good_hset h a o o' : hget h a = Some o -> same_kind o o' ->
  (forall t', o' = OTable t' -> tables_wf h -> twf (veq0 F h) (vkey h) t') ->
  good_ext h (hset h a o').
Proof.
  intros Ha K Ho. split; [eapply hext_hset; eauto|]. intros W.
  apply (tables_wf_step (hext_hset _ Ha K) W).
  intros b t' Hb. apply hget_hset_cases in Hb. destruct Hb as [(-> & <-)|(_ & Hb)]; [|left; exact Hb].
  right. apply Ho; auto.
Qed.

Lemma twf_empty_vm h : twf (veq0 F h) (vkey h) (mkTable [] []).
Proof. apply twf_empty. Qed.

End VmKeys.

(* ================================================================== *)
(* Part 3 : the table instructions                                     *)
(* ================================================================== *)

(* [k] is a value stack of capacity [c] whose live part is [l] *)
Definition stack_is (c : nat) (k : vstack value) (l : list value) : Prop :=
  vs_inv k /\ vs_abs k = l /\ length (vdata k) = c.
Definition cap (s : state) : nat := length (vdata (st_stack s)).

Lemma stack_is_self s : stack_ok s -> stack_is (cap s) (st_stack s) (stack_of s).
Proof. intros H. repeat split. exact H. Qed.

Lemma set_stack_twice s k k' : set_stack (set_stack s k) k' = set_stack s k'.
Proof. reflexivity. Qed.

Lemma spop_k s c k l v : st_stack s = k -> stack_is c k (l ++ [v]) ->
  exists k', spop s = (set_stack s k', v) /\ stack_is c k' l.
Proof.
  intros <- (Hi & Ha & Hc). unfold spop.
  pose proof (@pop_refines value VNil (st_stack s) Hi) as R.
  destruct (vs_pop VNil (st_stack s)) as [k' v']. destruct R as (Hv & Hab & Hi' & Hl).
  rewrite Ha, last_last in Hv. rewrite Ha, removelast_last in Hab. subst v'.
  exists k'. split; [reflexivity|]. repeat split; auto. congruence.
Qed.

Lemma spush_k s c k l v : st_stack s = k -> stack_is c k l -> S (length l) < c ->
  exists k', spush s v = Some (set_stack s k') /\ stack_is c k' (l ++ [v]).
Proof.
  intros <- (Hi & Ha & Hc) Hfit. unfold spush.
  pose proof (@push_refines value c (st_stack s) v Hi (Logic.eq_sym Hc)) as R.
  destruct (vs_push (st_stack s) v) as [k' o]. unfold sp_push in R. rewrite Ha in R.
  replace (S (length l) <? c) with true in R by (symmetry; apply Nat.ltb_lt; exact Hfit).
  destruct R as (-> & Hab & Hi' & Hl). exists k'. split; [reflexivity|]. repeat split; auto.
Qed.

Lemma spop_n_k s c l r : stack_is c (st_stack s) (l ++ r) ->
  stack_is c (st_stack (spop_n s (length r))) l.
Proof.
  intros (Hi & Ha & Hc). destruct (@spop_n_app s l r Hi Ha) as (H1 & H2 & H3).
  repeat split; auto. congruence.
Qed.

Lemma speek_k s c l r n : stack_is c (st_stack s) (l ++ r) -> n < length r ->
  speek s n = nth (length r - n - 1) r VNil.
Proof. intros (Hi & Ha & Hc) Hn. eapply speek_app; eauto. Qed.

Lemma stack_is_length c k l : stack_is c k l -> length l < c.
Proof.
  intros (Hi & Ha & Hc). rewrite <- Ha, <- Hc. rewrite (abs_length Hi). exact Hi.
Qed.

Lemma hset_alloc3 (h : heap) x y z v :
  hset (h ++ [x; y; z]) (N.of_nat (length h)) v = h ++ [v; y; z].
Proof. unfold hset. rewrite Nat2N.id. apply upd_app_mid. Qed.

Lemma hget_app_at (h : heap) r i : hget (h ++ r) (N.of_nat (length h + i)) = nth_error r i.
Proof. unfold hget. rewrite Nat2N.id, nth_error_app2 by lia. f_equal. lia. Qed.

Section Instr.
Variable F : fops.
Variable bld : build.
Variable P : program.
Variable reenter : N -> state -> rres.

Notation veq := (veq0 F).
Notation dom := (vkey F).
Notation STEP := (step F bld P reenter).

(* Part 1 at the VM's equality *)
Lemma vm_tget h t k : twf (veq h) (dom h) t -> dom h k -> tget (veq h) t k = Some (al_get (veq h) k (tabs t)).
Proof. apply tget_spec. apply veq0_total. Qed.

Lemma vm_tinsert h t k v : twf (veq h) (dom h) t -> dom h k ->
  exists t', tinsert (veq h) t k v = Some t' /\ twf (veq h) (dom h) t' /\ tabs t' = al_set (veq h) k v (tabs t).
Proof. apply tinsert_spec. apply veq0_total. Qed.

Lemma vm_tremove h t k : twf (veq h) (dom h) t -> dom h k ->
  exists t', tremove (veq h) t k = Some t' /\ twf (veq h) (dom h) t' /\ tabs t' = al_remove (veq h) k (tabs t).
Proof. apply tremove_spec. apply veq0_total. apply veq0_refl. Qed.

Lemma vm_tpop h t : twf (veq h) (dom h) t ->
  exists t', tpop (veq h) t = Some (t', snd (al_pop (tabs t))) /\ twf (veq h) (dom h) t' /\
             tabs t' = fst (al_pop (tabs t)).
Proof. apply tpop_spec. apply veq0_total. apply veq0_refl. Qed.

Lemma vm_tappend h t v : twf (veq h) (dom h) t ->
  exists t' j, tappend (veq h) t v = TOk t' /\ twf (veq h) (dom h) t' /\
               al_append_key (veq h) (tabs t) j /\ tabs t' = tabs t ++ [(VInt j, v)].
Proof. apply tappend_spec. apply veq0_total. apply vkey_int. apply veq0_int. Qed.

Lemma vm_titer h t : twf (veq h) (dom h) t -> titer (veq h) t = Some (tabs t).
Proof. apply titer_spec. apply veq0_total. apply veq0_refl. Qed.

(* the row that NthRow / ForEach read at index i: the i-th entry, (nil, nil) beyond the end *)
Lemma vm_row h t i : twf (veq h) (dom h) t -> i < length (tabs t) ->
  tget (veq h) t (tnth_key t i) = Some (Some (snd (nth i (tabs t) (VNil, VNil)))) /\
  tnth_key t i = fst (nth i (tabs t) (VNil, VNil)).
Proof.
  intros W Hi. assert (W' := W). destruct W' as (Ha & Hd & Hn).
  rewrite (tnth_key_spec i W). unfold tabs in *.
  assert (Hk : nth i (map fst (tmap t)) VNil = fst (nth i (tmap t) (VNil, VNil))).
  { change VNil with (fst (VNil, VNil)) at 1. apply map_nth. }
  rewrite Hk. split; [|reflexivity].
  destruct (nth_split (tmap t) (VNil, VNil) Hi) as (pre & post & Hm & Hl).
  set (e := nth i (tmap t) (VNil, VNil)) in *. destruct e as [k v] eqn:Ee. cbn [fst snd].
  assert (Dk : dom h k).
  { rewrite Forall_forall in Hd. apply Hd. rewrite <- Ha, Hm, map_app. apply in_or_app. right. left. reflexivity. }
  rewrite (vm_tget W Dk). unfold tabs. rewrite (al_find_get (veq h) k (tmap t)), Hm.
  rewrite al_find_app_hit; [reflexivity | | apply veq0_refl, Dk].
  rewrite <- Ha, Hm, map_app in Hn. apply kdistinct_app in Hn. destruct Hn as (_ & _ & Hn).
  apply Hn. left. reflexivity.
Qed.

(* ---- InitTable (31) ---- *)
Theorem step_init_table : forall ip0 s,
  opcode_at P ip0 = 31%N -> stack_ok s -> S (length (stack_of s)) < cap s ->
  exists k,
    STEP ip0 s = SNext (ip0 + 1)
                   (set_stack (set_heap s (st_heap s ++ [OTable (mkTable [] [])])) k) /\
    stack_is (cap s) k (stack_of s ++ [VObj (N.of_nat (length (st_heap s)))]).
Proof.
  intros ip0 s Hop Hok Hfit. step_opc Hop. unfold i_31, salloc, halloc, push_next.
  destruct (@spush_k (set_heap s (st_heap s ++ [OTable (mkTable [] [])])) (cap s) (st_stack s) (stack_of s)
              (VObj (N.of_nat (length (st_heap s)))) Logic.eq_refl (stack_is_self Hok) Hfit) as (k & E & Hk).
  rewrite E. exists k. split; [reflexivity | exact Hk].
Qed.

(* ---- GetProperty (32): instance and key are popped, the value of the first matching entry (nil when
   there is none) is pushed; nothing else changes ---- *)
Theorem step_get_property : forall ip0 s l a key t,
  opcode_at P ip0 = 32%N -> stack_ok s -> stack_of s = l ++ [VObj a; key] ->
  hget (st_heap s) a = Some (OTable t) ->
  twf (veq (st_heap s)) (dom (st_heap s)) t -> dom (st_heap s) key ->
  exists k,
    STEP ip0 s = SNext (ip0 + 1) (set_stack s k) /\
    stack_is (cap s) k (l ++ [match al_get (veq (st_heap s)) key (tabs t) with Some v => v | None => VNil end]).
Proof.
  intros ip0 s l a key t Hop Hok Hst Ha W Dk. step_opc Hop. unfold i_32.
  pose proof (stack_is_self Hok) as K0. rewrite Hst in K0.
  change (l ++ [VObj a; key]) with (l ++ [VObj a] ++ [key]) in K0. rewrite app_assoc in K0.
  destruct (@spop_k s _ _ _ _ Logic.eq_refl K0) as (k1 & E1 & K1). rewrite E1.
  destruct (@spop_k (set_stack s k1) _ _ _ _ Logic.eq_refl K1) as (k2 & E2 & K2). rewrite E2.
  rewrite set_stack_twice. cbn [st_heap set_stack get_table]. rewrite Ha, (vm_tget W Dk).
  unfold push_next.
  assert (Hfit : S (length l) < cap s).
  { pose proof (stack_is_length K1) as L. rewrite app_length in L. cbn [length] in L. lia. }
  destruct (@spush_k (set_stack s k2) _ _ _
              (match al_get (veq (st_heap s)) key (tabs t) with Some v => v | None => VNil end)
              Logic.eq_refl K2 Hfit) as (k3 & E3 & K3).
  rewrite E3. exists k3. split; [reflexivity | exact K3].
Qed.

(* ---- SetProperty (33): the stack holds value, instance, key (key on top) ---- *)
Theorem step_set_property : forall ip0 s l a key v t,
  opcode_at P ip0 = 33%N -> stack_ok s -> stack_of s = l ++ [v; VObj a; key] ->
  hget (st_heap s) a = Some (OTable t) ->
  twf (veq (st_heap s)) (dom (st_heap s)) t -> dom (st_heap s) key ->
  exists t' k,
    STEP ip0 s = SNext (ip0 + 1) (set_stack (set_table s a t') k) /\
    stack_is (cap s) k l /\
    twf (veq (st_heap s)) (dom (st_heap s)) t' /\ tabs t' = al_set (veq (st_heap s)) key v (tabs t).
Proof.
  intros ip0 s l a key v t Hop Hok Hst Ha W Dk. step_opc Hop. unfold i_33. cbv zeta.
  pose proof (stack_is_self Hok) as K0. rewrite Hst in K0.
  rewrite (speek_k 0 K0), (speek_k 1 K0), (speek_k 2 K0) by (cbn [length]; lia).
  cbn [length Nat.sub nth]. change (st_heap (spop_n s 3)) with (st_heap s).
  cbn [get_table]. rewrite Ha.
  destruct (vm_tinsert v W Dk) as (t' & E & W' & Habs). rewrite E.
  exists t', (st_stack (spop_n s 3)). split; [reflexivity|]. split; [|split; assumption].
  exact (@spop_n_k s _ l [v; VObj a; key] K0).
Qed.

(* ---- Len (34) ---- *)
Theorem step_len : forall ip0 s l a t,
  opcode_at P ip0 = 34%N -> stack_ok s -> stack_of s = l ++ [VObj a] ->
  hget (st_heap s) a = Some (OTable t) -> twf (veq (st_heap s)) (dom (st_heap s)) t ->
  exists k,
    STEP ip0 s = SNext (ip0 + 1) (set_stack s k) /\
    stack_is (cap s) k (l ++ [VInt (Z.of_nat (length (tabs t)))]).
Proof.
  intros ip0 s l a t Hop Hok Hst Ha W. step_opc Hop. unfold i_34.
  pose proof (stack_is_self Hok) as K0. rewrite Hst in K0.
  destruct (@spop_k s _ _ _ _ Logic.eq_refl K0) as (k1 & E1 & K1). rewrite E1.
  unfold vobj_len. cbn [st_heap set_stack]. rewrite Ha. cbn [obj_len]. rewrite (tlen_spec W).
  unfold push_next.
  assert (Hfit : S (length l) < cap s).
  { pose proof (stack_is_length K0) as L. rewrite app_length in L. cbn [length] in L. lia. }
  destruct (@spush_k (set_stack s k1) _ _ _ (VInt (Z.of_nat (length (tabs t)))) Logic.eq_refl K1 Hfit)
    as (k3 & E3 & K3).
  rewrite E3. exists k3. split; [reflexivity | exact K3].
Qed.

(* ---- AppendTable (40): the stack holds value, instance (instance on top) ---- *)
Theorem step_append_table : forall ip0 s l a v t,
  opcode_at P ip0 = 40%N -> stack_ok s -> stack_of s = l ++ [v; VObj a] ->
  hget (st_heap s) a = Some (OTable t) -> twf (veq (st_heap s)) (dom (st_heap s)) t ->
  exists t' j k,
    STEP ip0 s = SNext (ip0 + 1) (set_stack (set_table s a t') k) /\
    stack_is (cap s) k l /\
    twf (veq (st_heap s)) (dom (st_heap s)) t' /\
    al_append_key (veq (st_heap s)) (tabs t) j /\ tabs t' = tabs t ++ [(VInt j, v)].
Proof.
  intros ip0 s l a v t Hop Hok Hst Ha W. step_opc Hop. unfold i_40. cbv zeta.
  pose proof (stack_is_self Hok) as K0. rewrite Hst in K0.
  rewrite (speek_k 0 K0), (speek_k 1 K0) by (cbn [length]; lia).
  cbn [length Nat.sub nth]. change (st_heap (spop_n s 2)) with (st_heap s).
  cbn [get_table]. rewrite Ha.
  destruct (vm_tappend v W) as (t' & j & E & W' & Hj & Habs). rewrite E.
  exists t', j, (st_stack (spop_n s 2)). split; [reflexivity|]. split; [|repeat split; assumption].
  exact (@spop_n_k s _ l [v; VObj a] K0).
Qed.

(* ---- PopTable (41) ---- *)
Theorem step_pop_table : forall ip0 s l a t,
  opcode_at P ip0 = 41%N -> stack_ok s -> stack_of s = l ++ [VObj a] ->
  hget (st_heap s) a = Some (OTable t) -> twf (veq (st_heap s)) (dom (st_heap s)) t ->
  exists t' k,
    STEP ip0 s = SNext (ip0 + 1) (set_stack (set_table s a t') k) /\
    stack_is (cap s) k (l ++ [snd (al_pop (tabs t))]) /\
    twf (veq (st_heap s)) (dom (st_heap s)) t' /\ tabs t' = fst (al_pop (tabs t)).
Proof.
  intros ip0 s l a t Hop Hok Hst Ha W. step_opc Hop. unfold i_41.
  pose proof (stack_is_self Hok) as K0. rewrite Hst in K0.
  destruct (@spop_k s _ _ _ _ Logic.eq_refl K0) as (k1 & E1 & K1). rewrite E1.
  cbn [st_heap set_stack get_table]. rewrite Ha.
  destruct (vm_tpop W) as (t' & E & W' & Habs). rewrite E. unfold push_next.
  assert (Hfit : S (length l) < cap s).
  { pose proof (stack_is_length K0) as L. rewrite app_length in L. cbn [length] in L. lia. }
  destruct (@spush_k (set_table (set_stack s k1) a t') _ _ _ (snd (al_pop (tabs t))) Logic.eq_refl K1 Hfit)
    as (k3 & E3 & K3).
  rewrite E3. exists t', k3. split; [reflexivity|]. split; [exact K3 | split; assumption].
Qed.

End Instr.
