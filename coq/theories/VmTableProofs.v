(* C07 at the level of the VM model (Vm.v): the table representation of the VM ([table] = map part + key
   vector, operations tget / tinsert / tremove / tappend / tpop / tnth_key / titer), the table instructions
   that apply them to heap cells, reference sharing, and preservation of the table invariant by [step].

   Part 1  (this file, Section TableLevel) is generic in the key equality [eq : eqfun] and in a key domain [D]:
           [eq] answers on D (no fuel exhaustion / dangling address) and every key of D matches itself.
           Nothing else is assumed: neither symmetry nor transitivity of [eq] is needed for the refinement,
           because the invariant speaks about ORDERED pairs (an earlier stored key never matches a later one).
   Part 2  (VmTableKeys.v) instantiates eq := veq0 F h, D := vkey F h (nil, integers, reals r with r == r,
           addresses of live objects that are not tables) and shows stability under heap growth.
   Part 3  (VmTableKeys.v, VmTableInstr.v) instruction lemmas (InitTable, GetProperty, SetProperty, AppendTable,
           PopTable, Len, NthRow, ForEach), reference sharing.
   Part 4  (VmTableInstr.v, VmTableNatives.v) [step] - every opcode, every native - preserves "every table of the
           heap satisfies the invariant". *)
From Coq Require Import NArith ZArith List Lia Bool FinFun.
From Cao Require Import ListUtil Bits Stacks StacksProofs Vm VmProofs VmNativeProofs C04VmProofs.
Import ListNotations.

Set Implicit Arguments.

Arguments N.add : simpl never.
Arguments N.sub : simpl never.
Arguments N.mul : simpl never.
Arguments Z.add : simpl never.
Arguments Z.sub : simpl never.
Arguments Z.mul : simpl never.
Arguments Z.of_nat : simpl never.
Arguments N.of_nat : simpl never.
Arguments N.to_nat : simpl never.

(* ================================================================== *)
(* Part 1 : the table object                                           *)
(* ================================================================== *)

(* the two comparisons the table code uses, as booleans ([false] also when the comparison does not answer):
   [kb eq stored probe] = the map part's test (equal hash - bit-equal reals - and ==),
   [eb eq stored key]   = the plain == of `keys.retain(|k| k != key)` in CaoLangTable::remove *)
Definition kb (eq : eqfun) (a b : value) : bool := match keq eq a b with Some true => true | _ => false end.
Definition eb (eq : eqfun) (a b : value) : bool := match eq a b with Some true => true | _ => false end.

(* ---- the specification: an ordered association list ---- *)
Definition alist := list (value * value).

(* get = the value of the first entry whose key matches *)
Fixpoint al_get (eq : eqfun) (k : value) (m : alist) : option value :=
  match m with
  | [] => None
  | (k', v) :: r => if kb eq k' k then Some v else al_get eq k r
  end.
(* set: the first matching entry keeps its place and its stored key and gets the new value;
   without a match the entry goes to the end *)
Fixpoint al_set (eq : eqfun) (k v : value) (m : alist) : alist :=
  match m with
  | [] => [(k, v)]
  | (k', v') :: r => if kb eq k' k then (k', v) :: r else (k', v') :: al_set eq k v r
  end.
(* remove: every entry whose key is == to the argument disappears, the others keep their order *)
Definition al_remove (eq : eqfun) (key : value) (m : alist) : alist :=
  filter (fun kv => negb (eb eq (fst kv) key)) m.
(* pop: the last entry in order *)
Definition al_pop (m : alist) : alist * value := (removelast m, snd (last m (VNil, VNil))).

(* position and value of the first match (the shape map_find computes) *)
Fixpoint al_find (eq : eqfun) (k : value) (m : alist) : option (nat * value) :=
  match m with
  | [] => None
  | (k', v) :: r =>
      if kb eq k' k then Some (0, v)
      else match al_find eq k r with Some (i, v') => Some (S i, v') | None => None end
  end.

Definition nomatch (eq : eqfun) (k : value) (l : list value) : Prop := Forall (fun k' => kb eq k' k = false) l.

(* no key is matched by a key stored before it *)
Fixpoint kdistinct (eq : eqfun) (l : list value) : Prop :=
  match l with
  | [] => True
  | k :: r => Forall (fun k' => kb eq k k' = false) r /\ kdistinct eq r
  end.

(* the invariant: the map part and the key vector are aligned entry by entry, every key lies in the key
   domain, no key matches an earlier one *)
Definition twf (eq : eqfun) (D : value -> Prop) (t : table) : Prop :=
  map fst (tmap t) = tkeys t /\ Forall D (tkeys t) /\ kdistinct eq (tkeys t).

(* the abstraction: the entries in the order of the key vector (see [tabs_keys], [titer_spec]) *)
Definition tabs (t : table) : alist := tmap t.

Lemma remove_nth_app {A} (pre : list A) x post : remove_nth (length pre) (pre ++ x :: post) = pre ++ post.
Proof. induction pre as [|a pre IH]; cbn [length app remove_nth]; [reflexivity|]. f_equal. exact IH. Qed.

Lemma upd_app_mid {A} (pre : list A) x y post : upd (pre ++ x :: post) (length pre) y = pre ++ y :: post.
Proof. induction pre as [|a pre IH]; cbn [length app upd]; [reflexivity|]. f_equal. exact IH. Qed.

Lemma nth_app_mid {A} (pre : list A) x post d : nth (length pre) (pre ++ x :: post) d = x.
Proof. induction pre as [|a pre IH]; cbn [length app nth]; [reflexivity|]. exact IH. Qed.

Lemma snoc_cases {A} (l : list A) : l = [] \/ exists l' x, l = l' ++ [x].
Proof. destruct l using rev_ind; [left; reflexivity | right; eauto]. Qed.

Section TableLevel.
Variable eq : eqfun.
Variable D : value -> Prop.
Hypothesis eq_total : forall a b, D a -> D b -> eq a b <> None.
Hypothesis kb_refl : forall a, D a -> kb eq a a = true.

Notation kb' := (kb eq).
Notation eb' := (eb eq).

Lemma keq_total a b : D a -> D b -> keq eq a b = Some (kb' a b).
Proof.
  intros Ha Hb. unfold kb. pose proof (eq_total Ha Hb) as T.
  assert (X : forall o : option bool, o <> None -> o = Some (match o with Some true => true | _ => false end)).
  { intros [[|]|] H; try reflexivity. congruence. }
  destruct a, b; cbn [keq] in *; try (apply X; exact T).
  destruct (N.eqb bits bits0); [apply X; exact T | reflexivity].
Qed.

Lemma eq_total_b a b : D a -> D b -> eq a b = Some (eb' a b).
Proof.
  intros Ha Hb. unfold eb. pose proof (eq_total Ha Hb) as T.
  destruct (eq a b) as [[|]|]; try reflexivity. congruence.
Qed.

(* ---- kdistinct toolkit ---- *)
Lemma kdistinct_app a b :
  kdistinct eq (a ++ b) <-> kdistinct eq a /\ kdistinct eq b /\ forall k, In k b -> nomatch eq k a.
Proof.
  induction a as [|x a IH]; cbn [app kdistinct].
  - split; [intros H; repeat split; auto; intros; constructor | tauto].
  - rewrite IH, Forall_app. split.
    + intros ((Ha & Hb) & Hda & Hdb & Hc). repeat split; auto.
      intros k Hk. constructor; [rewrite Forall_forall in Hb; apply Hb, Hk | apply Hc, Hk].
    + intros ((Ha & Hda) & Hdb & Hc). repeat split; auto.
      * rewrite Forall_forall. intros k Hk. specialize (Hc k Hk). inversion Hc; assumption.
      * intros k Hk. specialize (Hc k Hk). inversion Hc; assumption.
Qed.

Lemma kdistinct_snoc l k : kdistinct eq (l ++ [k]) <-> kdistinct eq l /\ nomatch eq k l.
Proof.
  rewrite kdistinct_app. cbn [kdistinct]. split.
  - intros (Ha & _ & Hc). split; [exact Ha | apply Hc; left; reflexivity].
  - intros (Ha & Hn). repeat split; auto. intros k' [<-|[]]. exact Hn.
Qed.

(* ---- map_find computes al_find ---- *)
Lemma map_find_spec m k : Forall D (map fst m) -> D k -> map_find eq k m = Some (al_find eq k m).
Proof.
  intros Hm Hk. induction m as [|[k' v] r IH]; cbn [map_find al_find]; [reflexivity|].
  cbn [map fst] in Hm. inversion Hm as [|? ? Hk' Hr]; subst.
  rewrite (keq_total Hk' Hk). destruct (kb' k' k); [reflexivity|].
  rewrite (IH Hr). destruct (al_find eq k r) as [[i v']|]; reflexivity.
Qed.

Lemma al_find_get k m : al_get eq k m = match al_find eq k m with Some (_, v) => Some v | None => None end.
Proof.
  induction m as [|[k' v] r IH]; cbn [al_get al_find]; [reflexivity|].
  destruct (kb' k' k); [reflexivity|]. rewrite IH. destruct (al_find eq k r) as [[i v']|]; reflexivity.
Qed.

Lemma al_find_some k m i v : al_find eq k m = Some (i, v) ->
  exists pre k' post, m = pre ++ (k', v) :: post /\ length pre = i /\ kb' k' k = true /\
                      nomatch eq k (map fst pre).
Proof.
  revert i v. induction m as [|[k' v'] r IH]; intros i v H; cbn [al_find] in H; [discriminate|].
  destruct (kb' k' k) eqn:E.
  - inversion H; subst. exists [], k', r. repeat split; auto. constructor.
  - destruct (al_find eq k r) as [[j w]|] eqn:F; [|discriminate]. inversion H; subst.
    destruct (IH _ _ eq_refl) as (pre & k2 & post & -> & Hl & Hk & Hn).
    exists ((k', v') :: pre), k2, post. repeat split; auto. cbn [length]. lia.
    cbn [map fst]. constructor; assumption.
Qed.

Lemma al_find_none k m : al_find eq k m = None -> nomatch eq k (map fst m).
Proof.
  induction m as [|[k' v'] r IH]; intros H; cbn [al_find] in H; [constructor|].
  destruct (kb' k' k) eqn:E; [discriminate|].
  destruct (al_find eq k r) as [[j w]|] eqn:F; [discriminate|]. cbn [map fst].
  constructor; [exact E | apply IH; reflexivity].
Qed.

Lemma al_find_app_hit pre k' v post k :
  nomatch eq k (map fst pre) -> kb' k' k = true ->
  al_find eq k (pre ++ (k', v) :: post) = Some (length pre, v).
Proof.
  intros Hn Hk. induction pre as [|[a b] pre IH]; cbn [app al_find length].
  - rewrite Hk. reflexivity.
  - cbn [map fst] in Hn. inversion Hn as [|? ? Ha Hr]; subst. rewrite Ha, (IH Hr). reflexivity.
Qed.

Lemma al_find_nomatch k m : nomatch eq k (map fst m) -> al_find eq k m = None.
Proof.
  induction m as [|[a b] r IH]; intros Hn; cbn [al_find]; [reflexivity|].
  cbn [map fst] in Hn. inversion Hn as [|? ? Ha Hr]; subst. rewrite Ha, (IH Hr). reflexivity.
Qed.

(* al_set through al_find *)
Lemma al_set_find k v m :
  al_set eq k v m = match al_find eq k m with
                    | Some (i, _) => upd m i (fst (nth i m (VNil, VNil)), v)
                    | None => m ++ [(k, v)]
                    end.
Proof.
  induction m as [|[k' v'] r IH]; cbn [al_set al_find]; [reflexivity|].
  destruct (kb' k' k); [reflexivity|]. rewrite IH.
  destruct (al_find eq k r) as [[i w]|]; reflexivity.
Qed.

Lemma al_set_keys_present k v m : al_get eq k m <> None -> map fst (al_set eq k v m) = map fst m.
Proof.
  induction m as [|[k' v'] r IH]; cbn [al_get al_set]; [congruence|].
  destruct (kb' k' k); [reflexivity|]. intros H. cbn [map fst]. f_equal. exact (IH H).
Qed.

Lemma al_set_absent k v m : al_get eq k m = None -> al_set eq k v m = m ++ [(k, v)].
Proof.
  induction m as [|[k' v'] r IH]; cbn [al_get al_set]; [reflexivity|].
  destruct (kb' k' k); [discriminate|]. intros H. cbn [app]. f_equal. exact (IH H).
Qed.

Lemma al_set_length_present k v m : al_get eq k m <> None -> length (al_set eq k v m) = length m.
Proof. intros H. rewrite <- (map_length fst), (@al_set_keys_present k v m H). apply map_length. Qed.

(* a write followed by a read through the same key *)
Lemma al_get_set_same k v m : kb' k k = true -> al_get eq k (al_set eq k v m) = Some v.
Proof.
  intros Hk. induction m as [|[k' v'] r IH]; cbn [al_set al_get].
  - rewrite Hk. reflexivity.
  - destruct (kb' k' k) eqn:E; cbn [al_get]; rewrite E; [reflexivity | exact IH].
Qed.

(* ---- the operations ---- *)

Lemma tabs_keys t : twf eq D t -> map fst (tabs t) = tkeys t.
Proof. intros (H & _). exact H. Qed.

Lemma tlen_spec t : twf eq D t -> length (tkeys t) = length (tabs t).
Proof. intros (H & _). rewrite <- H. apply map_length. Qed.

Lemma twf_empty : twf eq D (mkTable [] []).
Proof. repeat split; constructor. Qed.

Lemma tget_spec t k : twf eq D t -> D k -> tget eq t k = Some (al_get eq k (tabs t)).
Proof.
  intros (Ha & Hd & _) Hk. unfold tget, tabs. rewrite map_find_spec by (rewrite ?Ha; assumption).
  rewrite al_find_get. destruct (al_find eq k (tmap t)) as [[i v]|]; reflexivity.
Qed.

Lemma tinsert_spec t k v : twf eq D t -> D k ->
  exists t', tinsert eq t k v = Some t' /\ twf eq D t' /\ tabs t' = al_set eq k v (tabs t).
Proof.
  intros (Ha & Hd & Hn) Hk. unfold tinsert, tabs.
  rewrite map_find_spec by (rewrite ?Ha; assumption). rewrite al_set_find.
  destruct (al_find eq k (tmap t)) as [[i w]|] eqn:E.
  - eexists; split; [reflexivity|]. split; [|reflexivity].
    destruct (al_find_some _ _ E) as (pre & k' & post & Hm & Hl & _). subst i.
    repeat split; cbn [tmap tkeys]; auto.
    rewrite Hm, nth_app_mid, upd_app_mid. cbn [fst]. rewrite <- Ha, Hm, !map_app. reflexivity.
  - eexists; split; [reflexivity|]. split; [|reflexivity].
    repeat split; cbn [tmap tkeys].
    + rewrite map_app, Ha. reflexivity.
    + apply Forall_app; split; [assumption | constructor; [assumption | constructor]].
    + apply kdistinct_snoc. split; [assumption|]. rewrite <- Ha. apply al_find_none, E.
Qed.

(* remove *)
Lemma tremove_go_spec key : D key -> forall sub pre,
  Forall D (map fst (pre ++ sub)) ->
  (forall k, In k (map fst sub) -> nomatch eq k (map fst pre)) ->
  kdistinct eq (map fst sub) ->
  tremove_go eq key (map fst sub) (pre ++ sub)
  = Some (filter (fun k => negb (eb' k key)) (map fst sub), pre ++ al_remove eq key sub).
Proof.
  intros Hkey. induction sub as [|[k v] sub IH]; intros pre HD Hpre Hdis.
  - cbn [map tremove_go filter al_remove]. reflexivity.
  - cbn [map fst tremove_go filter]. unfold al_remove. cbn [filter fst]. fold (al_remove eq key sub).
    assert (Dk : D k).
    { rewrite map_app, Forall_app in HD. destruct HD as (_ & HD). cbn [map fst] in HD. inversion HD; assumption. }
    rewrite (eq_total_b Dk Hkey). cbn [kdistinct] in Hdis. destruct Hdis as (Hk1 & Hdis).
    destruct (eb' k key) eqn:E; cbn [negb].
    + unfold map_remove. rewrite map_find_spec by assumption.
      rewrite al_find_app_hit; [| apply Hpre; left; reflexivity | apply kb_refl, Dk].
      rewrite remove_nth_app. apply IH; auto.
      * rewrite map_app, Forall_app in *. destruct HD as (H1 & H2). split; [exact H1|].
        cbn [map fst] in H2. inversion H2; assumption.
      * intros k0 Hk0. apply Hpre. right. exact Hk0.
    + replace (pre ++ (k, v) :: sub) with ((pre ++ [(k, v)]) ++ sub) by (rewrite <- app_assoc; reflexivity).
      rewrite IH; auto.
      * rewrite <- app_assoc. reflexivity.
      * rewrite <- app_assoc. exact HD.
      * intros k0 Hk0. rewrite map_app. apply Forall_app. split; [apply Hpre; right; exact Hk0|].
        cbn [map fst]. constructor; [|constructor]. rewrite Forall_forall in Hk1. apply Hk1, Hk0.
Qed.

Lemma filter_keys f (m : alist) : map fst (filter (fun kv => f (fst kv)) m) = filter f (map fst m).
Proof.
  induction m as [|[k v] m IH]; cbn [filter map fst]; [reflexivity|].
  destruct (f k); cbn [map fst]; rewrite IH; reflexivity.
Qed.

Lemma kdistinct_filter f l : kdistinct eq l -> kdistinct eq (filter f l).
Proof.
  induction l as [|k l IH]; cbn [kdistinct filter]; [auto|]. intros (H1 & H2).
  destruct (f k); cbn [kdistinct]; auto. split; auto.
  rewrite Forall_forall in *. intros x Hx. apply H1. apply filter_In in Hx. tauto.
Qed.

Lemma Forall_filter {A} (Pp : A -> Prop) f l : Forall Pp l -> Forall Pp (filter f l).
Proof.
  rewrite !Forall_forall. intros H x Hx. apply H. apply filter_In in Hx. tauto.
Qed.

Lemma tremove_spec t key : twf eq D t -> D key ->
  exists t', tremove eq t key = Some t' /\ twf eq D t' /\ tabs t' = al_remove eq key (tabs t).
Proof.
  intros (Ha & Hd & Hn) Hkey. unfold tremove, tabs. rewrite <- Ha.
  pose proof (@tremove_go_spec key Hkey (tmap t) []) as H. cbn [app] in H. rewrite H.
  - eexists; split; [reflexivity|]. split; [|reflexivity]. repeat split; cbn [tmap tkeys].
    + unfold al_remove. apply (filter_keys (fun k => negb (eb' k key))).
    + apply Forall_filter. rewrite Ha. exact Hd.
    + apply kdistinct_filter. rewrite Ha. exact Hn.
  - rewrite Ha. exact Hd.
  - intros. constructor.
  - rewrite Ha. exact Hn.
Qed.

(* when == and the map's test agree between the stored keys and the argument (no real key of the table is
   == to the argument with another bit pattern, i.e. no -0.0 / +0.0 pair), remove deletes the entry that
   get finds and nothing else *)
Lemma al_remove_single key m :
  kdistinct eq (map fst m) -> Forall D (map fst m) ->
  (forall k, In k (map fst m) -> eb' k key = kb' k key) ->
  (forall a b, In a (map fst m) -> In b (map fst m) -> kb' a key = true -> kb' b key = true -> kb' a b = true) ->
  al_remove eq key m = match al_find eq key m with
                       | Some (i, _) => remove_nth i m
                       | None => m
                       end.
Proof.
  intros Hdis HD Hag Htr. induction m as [|[k v] m IH]; [reflexivity|].
  unfold al_remove in *. cbn [filter al_find fst map kdistinct] in *.
  destruct Hdis as (H1 & Hdis). inversion HD as [|? ? Dk HD']; subst.
  rewrite (Hag k (or_introl Logic.eq_refl)).
  assert (IH' := IH Hdis HD' (fun k0 H => Hag k0 (or_intror H))
                    (fun a b Ha Hb => Htr a b (or_intror Ha) (or_intror Hb))). clear IH.
  destruct (kb' k key) eqn:E; cbn [negb remove_nth].
  - (* no later key matches: it would match k *)
    clear IH'. assert (Hno : forall x, In x m -> negb (eb' (fst x) key) = true).
    { intros [k2 v2] Hx. cbn [fst]. assert (Hin : In k2 (map fst m)) by (apply (in_map fst) in Hx; exact Hx).
      rewrite (Hag k2 (or_intror Hin)). destruct (kb' k2 key) eqn:E2; [|reflexivity].
      pose proof (Htr k k2 (or_introl Logic.eq_refl) (or_intror Hin) E E2) as C.
      rewrite Forall_forall in H1. rewrite (H1 k2 Hin) in C. discriminate. }
    clear -Hno. induction m as [|x m IH]; [reflexivity|]. cbn [filter].
    rewrite (Hno x (or_introl Logic.eq_refl)). f_equal. apply IH. intros y Hy. apply Hno. right. exact Hy.
  - rewrite IH'. destruct (al_find eq key m) as [[i w]|]; reflexivity.
Qed.

(* pop *)
Lemma tpop_spec t : twf eq D t ->
  exists t', tpop eq t = Some (t', snd (al_pop (tabs t))) /\ twf eq D t' /\ tabs t' = fst (al_pop (tabs t)).
Proof.
  intros (Ha & Hd & Hn). unfold tpop, tabs, al_pop. cbn [fst snd].
  destruct (snoc_cases (tmap t)) as [Em | (m0 & [k v] & Em)].
  - rewrite Em in *. cbn [map] in Ha. rewrite <- Ha. cbn [rev last removelast snd]. exists t.
    rewrite Em. split; [reflexivity|]. split; [|reflexivity].
    repeat split; rewrite <- ?Ha, ?Em; cbn; auto.
  - rewrite Em in *. rewrite map_app in Ha. cbn [map fst] in Ha. rewrite <- Ha.
    rewrite rev_app_distr. cbn [rev app]. rewrite <- Ha in Hd, Hn.
    apply Forall_app in Hd. destruct Hd as (Hd1 & Hd2). inversion Hd2 as [|? ? Dk _]; subst.
    apply kdistinct_snoc in Hn. destruct Hn as (Hn1 & Hn2).
    rewrite map_find_spec; [| rewrite map_app; apply Forall_app; split; assumption | assumption].
    rewrite al_find_app_hit by (auto using kb_refl).
    rewrite remove_nth_app, app_nil_r, !removelast_last, last_last. cbn [snd].
    eexists; split; [reflexivity|]. split; [|reflexivity]. repeat split; cbn [tmap tkeys]; auto.
Qed.

(* nth key, iteration *)
Lemma tnth_key_spec t i : twf eq D t -> tnth_key t i = nth i (map fst (tabs t)) VNil.
Proof.
  intros (Ha & _). unfold tnth_key, tabs. rewrite Ha.
  destruct (length (tkeys t) <=? i) eqn:E; [|reflexivity].
  apply Nat.leb_le in E. symmetry. apply nth_overflow. exact E.
Qed.

Lemma titer_go_spec : forall sub pre,
  Forall D (map fst (pre ++ sub)) ->
  (forall k, In k (map fst sub) -> nomatch eq k (map fst pre)) ->
  kdistinct eq (map fst sub) ->
  titer_go eq (pre ++ sub) (map fst sub) = Some sub.
Proof.
  induction sub as [|[k v] sub IH]; intros pre HD Hpre Hdis; [reflexivity|].
  cbn [map fst titer_go].
  assert (HD' := HD). rewrite map_app, Forall_app in HD'. destruct HD' as (HD1 & HD2).
  cbn [map fst] in HD2. inversion HD2 as [|? ? Dk HD3]; subst.
  rewrite map_find_spec by assumption.
  rewrite al_find_app_hit; [| apply Hpre; left; reflexivity | apply kb_refl, Dk].
  cbn [kdistinct map fst] in Hdis. destruct Hdis as (Hk1 & Hdis).
  replace (pre ++ (k, v) :: sub) with ((pre ++ [(k, v)]) ++ sub) by (rewrite <- app_assoc; reflexivity).
  rewrite IH; auto.
  - rewrite <- app_assoc. exact HD.
  - intros k0 Hk0. rewrite map_app. apply Forall_app. split; [apply Hpre; right; exact Hk0|].
    cbn [map fst]. constructor; [|constructor]. rewrite Forall_forall in Hk1. apply Hk1, Hk0.
Qed.

Lemma titer_spec t : twf eq D t -> titer eq t = Some (tabs t).
Proof.
  intros (Ha & Hd & Hn). unfold titer, tabs. rewrite <- Ha.
  apply (titer_go_spec (tmap t) []); cbn [app]; rewrite ?Ha; auto. intros; constructor.
Qed.

(* append: the key is the least integer >= the number of entries that is not a key of the table *)
Section Append.
Hypothesis D_int : forall i, D (VInt i).
(* an integer probe is matched only by that integer *)
Hypothesis kb_int : forall a i, D a -> kb' a (VInt i) = true -> a = VInt i.

Lemma tappend_idx_spec m : Forall D (map fst m) -> forall fuel i,
  (exists j, tappend_idx eq fuel m i = Some (Some j) /\ (i <= j)%Z /\ al_get eq (VInt j) m = None /\
             forall x, (i <= x < j)%Z -> al_get eq (VInt x) m <> None) \/
  (tappend_idx eq fuel m i = Some None /\
   forall x, (i <= x < i + Z.of_nat fuel)%Z -> al_get eq (VInt x) m <> None).
Proof.
  intros HD. induction fuel as [|f IH]; intros i; cbn [tappend_idx].
  - right. split; [reflexivity|]. intros x Hx. lia.
  - rewrite map_find_spec by auto. pose proof (al_find_get (VInt i) m) as G.
    destruct (al_find eq (VInt i) m) as [[p w]|] eqn:E.
    + destruct (IH (i + 1)%Z) as [(j & H1 & H2 & H3 & H4)|(H1 & H2)].
      * left. exists j. split; [exact H1|]. split; [lia|]. split; [exact H3|]. intros x Hx.
        destruct (Z.eq_dec x i) as [->|Hne]; [rewrite G; discriminate | apply H4; lia].
      * right. split; [exact H1|]. intros x Hx.
        destruct (Z.eq_dec x i) as [->|Hne]; [rewrite G; discriminate | apply H2; lia].
    + left. exists i. split; [reflexivity|]. split; [lia|]. split; [rewrite G; reflexivity|].
      intros x Hx. lia.
Qed.

Lemma al_get_in k m : al_get eq k m <> None -> exists k', In k' (map fst m) /\ kb' k' k = true.
Proof.
  induction m as [|[k' v] r IH]; cbn [al_get]; [congruence|].
  destruct (kb' k' k) eqn:E.
  - intros _. exists k'. split; [left; reflexivity | exact E].
  - intros H. destruct (IH H) as (k2 & H1 & H2). exists k2. split; [right; exact H1 | exact H2].
Qed.

(* pigeonhole: among the n+1 integers len .. len+n one is not a key of a table with n entries *)
Lemma tappend_idx_fuel m i : Forall D (map fst m) ->
  tappend_idx eq (S (length m)) m i <> Some None.
Proof.
  intros HD H. destruct (@tappend_idx_spec m HD (S (length m)) i) as [(j & H1 & _)|(_ & H2)]; [congruence|].
  set (l := map (fun x => VInt (i + Z.of_nat x)) (seq 0 (S (length m)))).
  assert (Hnd : NoDup l).
  { apply Injective_map_NoDup; [|apply seq_NoDup]. intros a b E. inversion E. lia. }
  assert (Hincl : incl l (map fst m)).
  { intros k Hk. apply in_map_iff in Hk. destruct Hk as (x & <- & Hx). apply in_seq in Hx.
    destruct (@al_get_in (VInt (i + Z.of_nat x)) m) as (k' & Hin & Hk').
    - apply H2. lia.
    - rewrite Forall_forall in HD. rewrite <- (@kb_int k' _ (HD k' Hin) Hk'). exact Hin. }
  pose proof (NoDup_incl_length Hnd Hincl) as Hlen.
  unfold l in Hlen. rewrite !map_length, seq_length in Hlen. lia.
Qed.

Definition al_append_key (m : alist) (j : Z) : Prop :=
  (Z.of_nat (length m) <= j)%Z /\ al_get eq (VInt j) m = None /\
  forall x, (Z.of_nat (length m) <= x < j)%Z -> al_get eq (VInt x) m <> None.

Lemma tappend_spec t v : twf eq D t ->
  exists t' j, tappend eq t v = TOk t' /\ twf eq D t' /\
               al_append_key (tabs t) j /\ tabs t' = tabs t ++ [(VInt j, v)].
Proof.
  intros W. assert (W' := W). destruct W' as (Ha & Hd & Hn). unfold tappend.
  assert (HD : Forall D (map fst (tmap t))) by (rewrite Ha; exact Hd).
  assert (Hlen : length (tkeys t) = length (tmap t)) by (rewrite <- Ha; apply map_length).
  destruct (@tappend_idx_spec (tmap t) HD (S (length (tmap t))) (Z.of_nat (length (tkeys t))))
    as [(j & H1 & H2 & H3 & H4)|(H1 & _)]; [|exfalso; eapply tappend_idx_fuel; eauto].
  rewrite H1. destruct (tinsert_spec v W (D_int j)) as (t' & E & W' & Habs). rewrite E.
  exists t', j. split; [reflexivity|]. split; [exact W'|]. unfold tabs in *. split.
  - unfold al_append_key. rewrite <- Hlen. auto.
  - rewrite Habs. apply al_set_absent. exact H3.
Qed.
End Append.

End TableLevel.
