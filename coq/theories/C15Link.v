(* C15: how a program of the compiler model (Compiler.compiled) is handed to the VM model (Vm.program).
   Executable definitions only. The VM stores, per instruction address, the id of a Trace value; here the id of
   an entry is its position in the compiler's trace list. *)
From Coq Require Import NArith List Bool.
From Cao Require Import CardAst Compiler Vm.
Import ListNotations.
Local Open Scope N_scope.

Fixpoint index_trace (i : N) (l : list (N * loc)) : list (N * N) :=
  match l with
  | [] => []
  | (a, _) :: r => (a, i) :: index_trace (i + 1) r
  end.

Definition to_vm (B : compiled) : Vm.program :=
  Vm.mkProgram (p_bytecode B) (Compiler.p_data B) (Compiler.p_labels B) (p_ids B) (p_names B)
               (index_trace 0 (Compiler.p_trace B)).

(* the location a trace id of [to_vm B] stands for *)
Definition trace_loc (B : compiled) (id : N) : loc :=
  snd (nth (N.to_nat id) (Compiler.p_trace B) (0, loc_default)).

(* the addresses of the trace list are strictly increasing (the compiler records them in emission order) *)
Fixpoint keys_increasing (l : list (N * loc)) : bool :=
  match l with
  | [] => true
  | (a, _) :: r =>
      match r with
      | [] => true
      | (b, _) :: _ => (a <? b) && keys_increasing r
      end
  end.
