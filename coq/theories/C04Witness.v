(* Witnesses of the repaired findings N-C04-1..3 (3f22e7c "handles are never 0"): modules on which the
   compiler panicked at the former sites S4 / S5 of C04Proofs.v because a name, a card index path or a
   closure label hashed to the handle 0.  They compile now, lie in [C04Proofs.module_in_domain], and are
   replayed on the crate by the C04 totality stream (harness/src/c04.rs, classes find.zero_name,
   find.zero_path, find.zero_label).  Names and paths were found by a meet-in-the-middle search over
   FNV-1a-32 (the step h -> (h xor b) * 16777619 mod 2^32 is invertible). *)
From Coq Require Import List NArith ZArith Bool.
From Cao Require Import ListUtil Bits CardAst Bytecode Compiler CompilerProofs C04Proofs.
Import ListNotations.
Local Open Scope N_scope.

(* "ppkttia": FNV-1a-32 = 0, so its handle is 1 *)
Definition zero_name : str := [112; 112; 107; 116; 116; 105; 97].
Lemma zero_name_hash : fnv_bytes fnv_offset zero_name = 0 /\ handle_of_bytes zero_name = 1.
Proof. vm_compute. split; reflexivity. Qed.

(* the card reached by [path] (card path[0] of the function, child path[1] of that composite card, ...) is
   [leaf]; every other card is ScalarNil *)
Fixpoint at_path (path : list nat) (leaf : card) : list card :=
  match path with
  | [] => [leaf]
  | [i] => repeat CScalarNil i ++ [leaf]
  | i :: rest => repeat CScalarNil i ++ [CComposite [98] (at_path rest leaf)]
  end.

Definition opts (debug : bool) : options := {| o_recursion_limit := 64; o_debug := debug |}.

Definition zero_name_module : module := main_module [CSetGlobalVar zero_name (CScalarInt 7)].
Definition zero_path_module : module := main_module (at_path [9; 17; 25; 29; 57]%nat CScalarNil).
Definition zero_label_module : module :=
  main_module (at_path [14; 16; 30; 56; 75]%nat (CClosure [] [CScalarNil])).

Definition is_ok (r : cresult) : bool := match r with COk _ => true | _ => false end.

(* former S4 on a name (debug_assert!(hash != 0) in Handle::from_bytes): compiles in both profiles *)
Lemma zero_name_repaired :
  is_ok (compile zero_name_module (opts true)) = true /\ is_ok (compile zero_name_module (opts false)) = true /\
  module_in_domain zero_name_module (opts true) = true.
Proof. vm_compute. repeat split. Qed.

(* former S4 on a card index path: the path [9; 17; 25; 29; 57] hashes to 0 *)
Lemma zero_path_repaired :
  is_ok (compile zero_path_module (opts true)) = true /\ is_ok (compile zero_path_module (opts false)) = true /\
  module_in_domain zero_path_module (opts true) = true.
Proof. vm_compute. repeat split. Qed.

(* former S5: the closure at path [14; 16; 30; 56; 75] of the first function got the label handle 0
   (labels.insert(Handle(0), ..) = Err(InvalidHandle), unwrap panicked in every build profile); the sum of
   two handles is made non-zero now and the label is 1 *)
Lemma zero_label_repaired :
  is_ok (compile zero_label_module (opts false)) = true /\ is_ok (compile zero_label_module (opts true)) = true /\
  module_in_domain zero_label_module (opts false) = true.
Proof. vm_compute. repeat split. Qed.
