(* Witnesses for C04: modules outside [C04Proofs.module_in_domain] on which the compiler model panics,
   i.e. the reachable panic sites S4 / S5 of C04Proofs.v, with the modules replayed on the crate by the
   C04 totality stream (harness/src/c04.rs, classes find.zero_name, find.zero_path, find.zero_label).  Names and paths were found by a
   meet-in-the-middle search over FNV-1a-32 (the step h -> (h xor b) * 16777619 mod 2^32 is invertible). *)
From Coq Require Import List NArith ZArith Bool.
From Cao Require Import ListUtil Bits CardAst Bytecode Compiler CompilerProofs C04Proofs.
Import ListNotations.
Local Open Scope N_scope.

(* "ppkttia": FNV-1a-32 = 0 *)
Definition zero_name : str := [112; 112; 107; 116; 116; 105; 97].
Lemma zero_name_hash : handle_of_bytes zero_name = 0.
Proof. vm_compute. reflexivity. Qed.

(* the card reached by [path] (card path[0] of the function, child path[1] of that composite card, ...) is
   [leaf]; every other card is ScalarNil *)
Fixpoint at_path (path : list nat) (leaf : card) : list card :=
  match path with
  | [] => [leaf]
  | [i] => repeat CScalarNil i ++ [leaf]
  | i :: rest => repeat CScalarNil i ++ [CComposite [98] (at_path rest leaf)]
  end.

Definition opts (debug : bool) : options := {| o_recursion_limit := 64; o_debug := debug |}.

Definition zero_name_module : module := main_module [CSetGlobalVar zero_name (CScalarInt 7)].
Definition zero_path_module : module := main_module (at_path [9; 17; 25; 29; 57]%nat CScalarNil).
Definition zero_label_module : module :=
  main_module (at_path [14; 16; 30; 56; 75]%nat (CClosure [] [CScalarNil])).

Definition is_ok (r : cresult) : bool := match r with COk _ => true | _ => false end.

(* S4 on a name: debug_assert!(hash != 0) in Handle::from_bytes *)
Lemma zero_name_panics :
  compile zero_name_module (opts true) = CPanic /\ is_ok (compile zero_name_module (opts false)) = true /\
  module_in_domain zero_name_module (opts true) = false.
Proof. vm_compute. repeat split. Qed.

(* S4 on a card index path: the path [9; 17; 25; 29; 57] hashes to 0 *)
Lemma zero_path_panics :
  compile zero_path_module (opts true) = CPanic /\ is_ok (compile zero_path_module (opts false)) = true /\
  module_in_domain zero_path_module (opts true) = false.
Proof. vm_compute. repeat split. Qed.

(* S5: the closure at path [14; 16; 30; 56; 75] of the first function gets the label handle 0:
   labels.insert(Handle(0), ..) = Err(InvalidHandle), unwrap panics - in every build profile *)
Lemma zero_label_panics :
  compile zero_label_module (opts false) = CPanic /\ compile zero_label_module (opts true) = CPanic /\
  module_in_domain zero_label_module (opts false) = false.
Proof. vm_compute. repeat split. Qed.
