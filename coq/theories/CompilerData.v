(* C10, string operands: facts about UTF-8 validity under splitting at an ASCII byte, the layout of
   the data section ([entry_at]: a complete length-prefixed valid UTF-8 entry starts at an offset)
   and the VM's read_str on such an offset.  Used by CompilerFull.v. *)
From Coq Require Import List NArith ZArith Bool Lia.
From Cao Require Import ListUtil CheckUtil Bits CardAst Bytecode Compiler CompilerGen Wellformed
     CompilerProofs.
Import ListNotations.
Local Open Scope N_scope.

(* ------------------------------------------------------------------ UTF-8 and ASCII separators *)
Lemma in_rng_below lo hi c : c < lo -> in_rng lo hi c = false.
Proof. intros H. unfold in_rng. destruct (N.leb_spec lo c); [lia | reflexivity]. Qed.
Lemma cont_ascii c : c < 128 -> cont c = false.
Proof. intros H. unfold cont. apply in_rng_below. exact H. Qed.

Lemma utf8_ascii_cons c y : c < 128 -> utf8_valid (c :: y) = utf8_valid y.
Proof. intros H. cbn [utf8_valid]. destruct (N.ltb_spec c 128); [reflexivity | lia]. Qed.

Ltac kill_ascii Hc :=
  repeat match goal with
         | H : context [cont ?c] |- _ => rewrite (cont_ascii c Hc) in H
         | H : context [in_rng ?lo ?hi ?c] |- _ =>
             rewrite (in_rng_below lo hi c ltac:(lia)) in H
         end;
  repeat match goal with
         | H : context [if (?a =? ?b) then _ else _] |- _ => destruct (a =? b)
         end;
  rewrite ?andb_false_r in *; cbn [andb] in *; rewrite ?andb_false_r in *; cbn [andb] in *; try discriminate.

(* a valid UTF-8 string cut at an ASCII byte gives two valid UTF-8 strings *)
Lemma utf8_split_ascii_n : forall n x c y, (length x <= n)%nat -> c < 128 ->
  utf8_valid (x ++ c :: y) = true -> utf8_valid x = true /\ utf8_valid y = true.
Proof.
  induction n as [|n IH]; intros x c y Hl Hc H.
  { destruct x; [|cbn in Hl; lia]. cbn [app] in H. rewrite utf8_ascii_cons in H by exact Hc. auto. }
  destruct x as [|b0 r].
  { cbn [app] in H. rewrite utf8_ascii_cons in H by exact Hc. auto. }
  cbn [length] in Hl. cbn [app] in H. cbn [utf8_valid] in H |- *.
  destruct (b0 <? 128).
  { apply (IH r c y); [lia | exact Hc | exact H]. }
  destruct (in_rng 194 223 b0).
  { destruct r as [|b1 r1]; cbn [app] in H.
    - destruct y as [|y0 [|y1 y2]]; kill_ascii Hc.
    - apply andb_true_iff in H. destruct H as [H1 H2].
      destruct (IH r1 c y ltac:(cbn [length] in Hl; lia) Hc H2) as [Ha Hb].
      rewrite H1, Ha. auto. }
  destruct (in_rng 224 239 b0).
  { destruct r as [|b1 [|b2 r2]]; cbn [app] in H.
    - destruct y as [|y0 [|y1 y2]]; kill_ascii Hc.
    - destruct y as [|y0 [|y1 y2]]; kill_ascii Hc.
    - apply andb_true_iff in H. destruct H as [H1 H2].
      destruct (IH r2 c y ltac:(cbn [length] in Hl; lia) Hc H2) as [Ha Hb].
      rewrite H1, Ha. auto. }
  destruct (in_rng 240 244 b0); [|discriminate].
  destruct r as [|b1 [|b2 [|b3 r3]]]; cbn [app] in H.
  - destruct y as [|y0 [|y1 y2]]; kill_ascii Hc.
  - destruct y as [|y0 [|y1 y2]]; kill_ascii Hc.
  - destruct y as [|y0 [|y1 y2]]; kill_ascii Hc.
  - apply andb_true_iff in H. destruct H as [H1 H2].
    destruct (IH r3 c y ltac:(cbn [length] in Hl; lia) Hc H2) as [Ha Hb].
    rewrite H1, Ha. auto.
Qed.

Lemma utf8_split_ascii x c y : c < 128 ->
  utf8_valid (x ++ c :: y) = true -> utf8_valid x = true /\ utf8_valid y = true.
Proof. intros. eapply utf8_split_ascii_n; eauto. Qed.

Lemma split_once_c_app c s a b : split_once_c c s = Some (a, b) -> s = a ++ c :: b.
Proof.
  revert a b; induction s as [|x r IH]; intros a b H; cbn [split_once_c] in H; [discriminate|].
  destruct (N.eqb_spec x c) as [->|Hne].
  - injection H as <- <-. reflexivity.
  - destruct (split_once_c c r) as [[a' b']|]; [|discriminate]. injection H as <- <-.
    cbn [app]. f_equal. apply IH. reflexivity.
Qed.

Lemma rsplit_once_c_app c s a b : rsplit_once_c c s = Some (a, b) -> s = a ++ c :: b.
Proof.
  unfold rsplit_once_c. destruct (split_once_c c (rev s)) as [[a' b']|] eqn:E; [|discriminate].
  intros H. injection H as <- <-. apply split_once_c_app in E.
  rewrite <- (rev_involutive s), E, rev_app_distr. cbn [rev]. rewrite <- app_assoc. reflexivity.
Qed.

Lemma utf8_split_once s a b :
  utf8_valid s = true -> split_once_c c_dot s = Some (a, b) -> utf8_valid a = true /\ utf8_valid b = true.
Proof.
  intros Hs H. apply split_once_c_app in H. subst s. apply (utf8_split_ascii a c_dot b); [reflexivity | exact Hs].
Qed.
Lemma utf8_rsplit_once s a b :
  utf8_valid s = true -> rsplit_once_c c_dot s = Some (a, b) -> utf8_valid a = true /\ utf8_valid b = true.
Proof.
  intros Hs H. apply rsplit_once_c_app in H. subst s. apply (utf8_split_ascii a c_dot b); [reflexivity | exact Hs].
Qed.

(* every piece of str::split('.') of a valid string is valid *)
Lemma split_c_shape c s : (split_c c s = [s] /\ split_once_c c s = None) \/
                          exists a b, split_once_c c s = Some (a, b) /\ split_c c s = a :: split_c c b.
Proof.
  induction s as [|x r IH]; cbn [split_c split_once_c]; [left; auto|].
  destruct (x =? c); [right; eauto|].
  destruct IH as [[E1 E2]|(a & b & E1 & E2)].
  - left. rewrite E1, E2. auto.
  - right. rewrite E1, E2. eauto.
Qed.

Lemma utf8_split_c_n : forall n s, (length s <= n)%nat -> utf8_valid s = true ->
  Forall (fun p => utf8_valid p = true) (split_c c_dot s).
Proof.
  induction n as [|n IH]; intros s Hl Hs.
  - destruct s; [|cbn in Hl; lia]. cbn. constructor; auto.
  - destruct (split_c_shape c_dot s) as [[E _]|(a & b & E1 & E2)].
    + rewrite E. constructor; auto.
    + rewrite E2. destruct (utf8_split_once s a b Hs E1) as [Ha Hb]. constructor; auto.
      apply IH; auto. apply split_once_c_app in E1. subst s. rewrite app_length in Hl. cbn [length] in Hl. lia.
Qed.
Lemma utf8_split_c s : utf8_valid s = true -> Forall (fun p => utf8_valid p = true) (split_c c_dot s).
Proof. intros. eapply utf8_split_c_n; eauto. Qed.

(* ------------------------------------------------------------------ the data section *)
(* encode_str: the u32 length (little endian) followed by the bytes *)
Definition entry (st : str) : list N := le_bytes 4 (N.of_nat (length st)) ++ st.

(* [off] (an operand: `data.len() as u32` when push_str ran) is the start of a complete entry of [d]
   whose payload is valid UTF-8 *)
Definition entry_at (d : list N) (off : N) : Prop :=
  exists pre st post,
    d = pre ++ entry st ++ post /\ off = N.of_nat (length pre) mod two32 /\
    N.of_nat (length st) < two32 /\ utf8_valid st = true.

Lemma entry_at_app d x off : entry_at d off -> entry_at (d ++ x) off.
Proof.
  intros (pre & st & post & -> & Ho & Hl & Hu). exists pre, st, (post ++ x).
  repeat split; auto. rewrite <- !app_assoc. reflexivity.
Qed.

Lemma entry_at_new d st :
  N.of_nat (length st) < two32 -> utf8_valid st = true ->
  entry_at (d ++ entry st) (N.of_nat (length d) mod two32).
Proof. intros Hl Hu. exists d, st, []. rewrite app_nil_r. auto. Qed.

(* read_str without window returns the entry's payload *)
Lemma read_str_entry d off :
  N.of_nat (length d) < two32 -> entry_at d off ->
  exists st, read_str false d off = Some st.
Proof.
  intros Hd (pre & st & post & -> & Ho & Hl & Hu). exists st.
  assert (Hpre : N.of_nat (length pre) < two32).
  { rewrite app_length in Hd. lia. }
  rewrite N.mod_small in Ho by exact Hpre. subst off.
  unfold read_str, entry. cbv zeta.
  rewrite !app_length, le_bytes_length.
  set (np := length pre). set (ns := length st). set (nq := length post).
  destruct (N.ltb_spec (N.of_nat (np + (4 + ns + nq))) (N.of_nat np)) as [Hx|_]; [lia|].
  destruct (N.ltb_spec (N.of_nat (np + (4 + ns + nq)) - N.of_nat np) 4) as [Hx|_]; [lia|].
  rewrite Nat2N.id. subst np. rewrite skipn_len_app by reflexivity.
  rewrite <- app_assoc.
  rewrite (firstn_len_app (le_bytes 4 (N.of_nat ns)) (st ++ post) 4) by (rewrite le_bytes_length; reflexivity).
  rewrite le_to_N_le_bytes by (change (256 ^ N.of_nat 4) with two32; exact Hl).
  destruct (N.ltb_spec (N.of_nat (length pre + (4 + ns + nq)) - N.of_nat (length pre) - 4) (N.of_nat ns)) as [Hx|_];
    [lia|].
  rewrite (skipn_len_app (le_bytes 4 (N.of_nat ns)) (st ++ post) 4) by (rewrite le_bytes_length; reflexivity).
  rewrite Nat2N.id. subst ns. rewrite firstn_len_app by reflexivity. rewrite Hu. reflexivity.
Qed.
