(* C01, simulation, reference half for fragment F5 (locals of main).
   The locals of the direct evaluator (a list of (name, value), most recent first) are RefSem's cells:
   the k-th declared local is cell k, and main's scope maps each name to its cell. *)
From Coq Require Import List NArith ZArith Bool Lia.
From Cao Require Import CheckUtil Bits CardAst Table TableProofs StdlibGen RefSem
     C01SimDefs C01SimRef C01SimDefs2 C01SimRef2 C01SimDefs3 C01SimRef3 C01SimDefs4 C01SimDefs5.
Import ListNotations.

(* the cards the reference semantics is characterised on: declarations may stand anywhere *)
Fixpoint stmtR (c : card) : bool :=
  match c with
  | CSetGlobalVar g e => negb (is_empty g) && expr_f1 e
  | CSetVar x e => var_ok x && expr_f1 e
  | CComment _ => true
  | CBin BIfTrue e b | CBin BIfFalse e b | CBin BWhile e b => expr_f1 e && stmtR b
  | CTri TIfElse e a b => expr_f1 e && stmtR a && stmtR b
  | CComposite _ cs => forallb stmtR cs
  | _ => false
  end.

Lemma stmt5_R Ln c : stmt5 Ln c = true -> stmtR c = true.
Proof.
  induction c using CompilerWf.card_ind'; cbn [stmt5 stmtR]; auto; try discriminate.
  - destruct op; try discriminate; intros H; apply andb_true_iff in H; destruct H as [H1 H2]; rewrite H1, (IHc2 H2); reflexivity.
  - destruct op; try discriminate. intros H. apply andb_true_iff in H. destruct H as [H H3].
    apply andb_true_iff in H. destruct H as [H1 H2]. rewrite H1, (IHc2 H2), (IHc3 H3). reflexivity.
  - intros H. apply andb_true_iff in H. destruct H as [H H3]. apply andb_true_iff in H. destruct H as [H1 _].
    rewrite H1, H3. reflexivity.
  - match goal with HF : Forall _ cards |- _ => induction HF as [|x r Hx _ IHr] end; cbn [forallb]; [auto|].
    intros H. apply andb_true_iff in H. destruct H as [H1 H2]. rewrite (Hx H1), (IHr H2). reflexivity.
Qed.
Lemma top5_R Ln c : top5 Ln c = true -> stmtR c = true.
Proof. destruct c; cbn [top5]; try apply stmt5_R. auto. Qed.
Lemma cards5_R cards : forall Ln, cards5 Ln cards = true -> forallb stmtR cards = true.
Proof.
  induction cards as [|c r IH]; intros Ln H; [reflexivity|]. cbn [cards5 forallb] in *.
  apply andb_true_iff in H. destruct H as [H1 H2]. rewrite (top5_R _ _ H1), (IH _ H2). reflexivity.
Qed.

(* ------------------------------------------------------------------ locals as cells *)
Fixpoint scope_of (R : lstore) : scope :=
  match R with
  | [] => []
  | (x, _) :: r => (x, length r) :: scope_of r
  end.
Definition envR (R : lstore) : env := {| e_scopes := [scope_of R]; e_up := [] |}.
Definition cells_of (R : lstore) : list value := rev (map snd R).

Lemma cells_of_length R : length (cells_of R) = length R.
Proof. unfold cells_of. rewrite rev_length, map_length. reflexivity. Qed.

Lemma upd_app_l {A} (l r : list A) i x : (i < length l)%nat -> upd (l ++ r) i x = upd l i x ++ r.
Proof. revert i. induction l as [|y l IH]; intros [|i] H; cbn in *; try lia; auto. rewrite IH by lia. reflexivity. Qed.
Lemma upd_app_len {A} (l : list A) y x : upd (l ++ [y]) (length l) x = l ++ [x].
Proof. induction l as [|z l IH]; cbn; [reflexivity|]. rewrite IH. reflexivity. Qed.

Lemma assoc_app {V} n (a b : list (str * V)) :
  assoc n (a ++ b) = match assoc n a with Some v => Some v | None => assoc n b end.
Proof. induction a as [|[k v] a IH]; cbn [app assoc]; [reflexivity|]. destruct (str_eqb n k); auto. Qed.

Lemma scope_none n R : assoc n R = None -> assoc n (scope_of R) = None.
Proof.
  induction R as [|[x v] r IH]; cbn [assoc scope_of]; [reflexivity|]. destruct (str_eqb n x); [discriminate | exact IH].
Qed.
Lemma cells_cons x u r : cells_of ((x, u) :: r) = cells_of r ++ [u].
Proof. reflexivity. Qed.

Lemma scope_some n R v : assoc n R = Some v ->
  exists c, assoc n (scope_of R) = Some c /\ nth_error (cells_of R) c = Some v /\
            forall w, upd (cells_of R) c w = cells_of (set_assoc n w R).
Proof.
  induction R as [|[x u] r IH]; cbn [assoc scope_of set_assoc]; [discriminate|].
  destruct (str_eqb n x) eqn:E.
  - intros H. injection H as <-. exists (length r). split; [reflexivity|].
    rewrite !cells_cons, <- (cells_of_length r). split.
    + rewrite nth_error_app2 by lia. rewrite Nat.sub_diag. reflexivity.
    + intros w. apply upd_app_len.
  - intros H. destruct (IH H) as (c & A & B & C). exists c. split; [exact A|].
    assert (Hc : (c < length (cells_of r))%nat) by (apply nth_error_Some; rewrite B; discriminate).
    rewrite !cells_cons. split.
    + rewrite nth_error_app1 by exact Hc. exact B.
    + intros w. rewrite upd_app_l by exact Hc. rewrite C. reflexivity.
Qed.

Lemma set_assoc_present n v R old : assoc n R = Some old ->
  length (set_assoc n v R) = length R /\ scope_of (set_assoc n v R) = scope_of R.
Proof.
  induction R as [|[x u] r IH]; cbn [assoc set_assoc]; [discriminate|].
  destruct (str_eqb n x); [intros _; split; reflexivity|]. intros H. destruct (IH H) as [A B].
  cbn [length scope_of]. rewrite A, B. split; reflexivity.
Qed.

Lemma lmem_assoc {V} x (R : list (str * V)) : lmem x (map fst R) = match assoc x R with Some _ => true | None => false end.
Proof.
  unfold lmem. induction R as [|[k v] r IH]; cbn [map fst find_first assoc]; [reflexivity|].
  destruct (str_eqb x k); [reflexivity|]. destruct (find_first x (map fst r)); destruct (assoc x r); auto; discriminate.
Qed.

Definition simples (l : list (str * value)) : Prop := Forall (fun nv => simple (snd nv)) l.

(* the state of RefSem and the store of the direct evaluator *)
Definition st5 (s : state) (R : lstore) (g : gl) : Prop :=
  st_heap s = [] /\ st_globals s = g /\ st_cells s = cells_of R /\ simples (R ++ g).

Lemma st5_bump s R g : st5 s R g -> st5 (bump s) R g.
Proof. unfold st5. cbn. tauto. Qed.

Lemma existsb_rev {A} (p : A -> bool) l : existsb p (rev l) = existsb p l.
Proof.
  induction l as [|x l IH]; [reflexivity|]. cbn [rev existsb]. rewrite existsb_app, IH. cbn. rewrite orb_false_r.
  apply orb_comm.
Qed.
Lemma rsplit_no_dot n : existsb (N.eqb c_dot) n = false -> rsplit_once_c c_dot n = None.
Proof. intros H. unfold rsplit_once_c. rewrite split_no_dot; [reflexivity|]. rewrite existsb_rev. exact H. Qed.

(* ---- more fuel does not change a result of the direct evaluator ---- *)
Lemma runs5_mono_from n m (Hrun : forall R g c r, run5 n R g c = Some r -> run5 m R g c = Some r) :
  forall l R g r, runs5 n R g l = Some r -> runs5 m R g l = Some r.
Proof.
  induction l as [|x l IH]; intros R g r H; cbn [runs5] in *; [exact H|].
  destruct (run5 n R g x) as [[[[|] R1] g1]|] eqn:E; try discriminate.
  - rewrite (Hrun _ _ _ _ E). apply IH, H.
  - rewrite (Hrun _ _ _ _ E). exact H.
Qed.

Lemma run5_mono n : forall m R g c r, run5 n R g c = Some r -> (n <= m)%nat -> run5 m R g c = Some r.
Proof.
  induction n as [|n IH]; intros m R g c r H Hle; [discriminate|].
  destruct m as [|m]; [lia|]. assert (Hle' : (n <= m)%nat) by lia.
  assert (IH' : forall R g c r, run5 n R g c = Some r -> run5 m R g c = Some r) by (intros; eapply IH; eauto).
  destruct c; try exact H.
  - (* CBin *)
    destruct op; try exact H; cbn [run5] in *; destruct (ev (R ++ g) c1) as [v|]; try exact H;
      destruct (v_bool [] v); try exact H; try (apply IH'; exact H).
    destruct (run5 n R g c2) as [[[[|] R1] g1]|] eqn:E; try discriminate; rewrite (IH' _ _ _ _ E); [apply IH'|]; exact H.
  - (* CTri *)
    destruct op; try exact H. cbn [run5] in *. destruct (ev (R ++ g) c1) as [v|]; try exact H.
    destruct (v_bool [] v); apply IH'; exact H.
  - (* Composite *)
    rewrite run5_composite in *. eapply runs5_mono_from; eauto.
Qed.

Lemma runs5_mono n m l R g r : runs5 n R g l = Some r -> (n <= m)%nat -> runs5 m R g l = Some r.
Proof. intros H Hle. eapply runs5_mono_from; [|exact H]. intros; eapply run5_mono; eauto. Qed.

Section Eval.
Variable P : list fentry.
Variable host : list str.
Variable limit : N.
Variable fi : nat.

Notation evalf := (eval P host limit).

Definition expr_res5 (r : res) (R : lstore) (g : gl) (e : card) : Prop :=
  r = RFuel \/
  (exists v s', r = ok [v] (envR R) s' /\ ev (R ++ g) e = Some v /\ st5 s' R g) \/
  (exists s', r = err EVarNotFound (envR R) s' /\ ev (R ++ g) e = None /\ st5 s' R g).

Definition args_res5 (r : res) (R : lstore) (g : gl) (es : list card) : Prop :=
  r = RFuel \/
  (exists vs s', r = ok vs (envR R) s' /\ evs (R ++ g) es = Some vs /\ st5 s' R g) \/
  (exists s', r = err EVarNotFound (envR R) s' /\ evs (R ++ g) es = None /\ st5 s' R g).

Definition expr_good5 (e : card) : Prop :=
  forall fuel s R g, st5 s R g -> expr_res5 (evalf fuel (TkCard fi (envR R) e) s) R g e.

Lemma eval_args5 es : Forall expr_good5 es -> forall fuel s R g, st5 s R g ->
  args_res5 (evalf fuel (TkArgs false fi (envR R) es) s) R g es.
Proof.
  induction 1 as [|e r He _ IH]; intros fuel s R g Hs.
  - destruct fuel as [|f]; [left; reflexivity|]. cbn [eval]. unfold F.
    destruct (limit <? st_steps s)%N; [left; reflexivity|]. right; left.
    exists [], (bump s). split; [reflexivity|]. split; [reflexivity | apply st5_bump, Hs].
  - destruct fuel as [|f]; [left; reflexivity|]. cbn [eval]. unfold F.
    destruct (limit <? st_steps s)%N; [left; reflexivity|].
    pose proof (He f (bump s) R g (st5_bump _ _ _ Hs)) as [E|[(v & s1 & E & Hv & Hs1)|(s1 & E & Hv & Hs1)]];
      rewrite E; cbn [bnd ok err].
    + left; reflexivity.
    + pose proof (IH f s1 R g Hs1) as [E2|[(vs & s2 & E2 & Hvs & Hs2)|(s2 & E2 & Hvs & Hs2)]];
        rewrite E2; cbn [bnd ok err].
      * left; reflexivity.
      * right; left. exists (v :: vs), s2. cbn [evs]. rewrite Hv, Hvs. auto.
      * right; right. exists s2. cbn [evs]. rewrite Hv, Hvs. auto.
    + right; right. exists s1. cbn [evs]. rewrite Hv. auto.
Qed.

Lemma eval_card_binop5 rec en op a b s :
  op_f1 op = true ->
  eval_card P rec fi en (CBin op a b) s =
  bnd (rec (TkArgs false fi en [a; b]) s) (fun vs e1 s1 => two vs (fun x y => binop_value op s1 e1 x y)).
Proof. destruct op; intros H; try discriminate H; reflexivity. Qed.

Lemma expr_f1_good5 e : expr_f1 e = true -> expr_good5 e.
Proof.
  induction e; intros He; cbn [expr_f1] in He; try discriminate He; intros fuel s R g Hs;
    (destruct fuel as [|f]; [left; reflexivity|]); cbn [eval]; unfold F;
    (destruct (limit <? st_steps s)%N; [left; reflexivity|]);
    pose proof (st5_bump _ _ _ Hs) as Hb; cbn [F].
  - (* CBin *)
    apply andb_true_iff in He. destruct He as [He He2]. apply andb_true_iff in He. destruct He as [Hop He1].
    rewrite eval_card_binop5 by exact Hop.
    assert (Hgood : Forall expr_good5 [e1; e2]) by (apply Forall_cons; [auto | apply Forall_cons; [auto | apply Forall_nil]]).
    pose proof (eval_args5 _ Hgood f (bump s) R g Hb) as [E|[(vs & s1 & E & Hv & Hs1)|(s1 & E & Hv & Hs1)]];
      rewrite E; cbn [bnd ok err evs] in *.
    + left; reflexivity.
    + destruct (ev (R ++ g) e1) as [x|] eqn:E1; [|discriminate].
      destruct (ev (R ++ g) e2) as [y|] eqn:E2; [|discriminate]. injection Hv as <-.
      cbn [two]. destruct Hs1 as (Hh & Hg & Hc & Hsim).
      rewrite binop_value_simple; auto; [|eapply ev_simple; eauto|eapply ev_simple; eauto].
      right; left. exists (binval op x y), s1. cbn [ev]. rewrite E1, E2. repeat split; auto.
    + right; right. exists s1. cbn [ev].
      destruct (ev (R ++ g) e1) as [x|]; [|auto]. destruct (ev (R ++ g) e2) as [y|]; [discriminate|auto].
  - (* CUn *)
    destruct op; try discriminate He. cbn [eval_card].
    assert (Hgood : Forall expr_good5 [e]) by (apply Forall_cons; [auto | apply Forall_nil]).
    pose proof (eval_args5 _ Hgood f (bump s) R g Hb) as [E|[(vs & s1 & E & Hv & Hs1)|(s1 & E & Hv & Hs1)]];
      rewrite E; cbn [bnd ok err evs] in *.
    + left; reflexivity.
    + destruct (ev (R ++ g) e) as [x|] eqn:E1; [|discriminate]. injection Hv as <-. cbn [one].
      destruct Hs1 as (Hh & Hg & Hc & Hsim). rewrite Hh.
      right; left. eexists _, s1. cbn [ev]. rewrite E1. repeat split; auto.
    + right; right. exists s1. cbn [ev]. destruct (ev (R ++ g) e); [discriminate|auto].
  - right; left. exists VNil, (bump s). cbn. auto.
  - right; left. exists (VInt i), (bump s). cbn. auto.
  - (* CReadVar *)
    unfold var_ok in He. apply andb_true_iff in He. destruct He as [Hne Hdot].
    apply negb_true_iff in Hne, Hdot.
    cbn [eval_card]. unfold read_var. rewrite (split_no_dot _ Hdot).
    assert (Hne' : is_empty name = false) by (destruct name; [discriminate Hne | reflexivity]).
    rewrite Hne'. unfold lookup_var, envR. cbn [e_scopes e_up lookup_scopes orelse].
    unfold expr_res5. cbn [ev]. rewrite assoc_app. destruct Hb as (Hbh & Hbg & Hbc & Hbs).
    destruct (assoc name R) as [v|] eqn:Ea.
    + destruct (scope_some _ _ _ Ea) as (c & A & B & _). rewrite A. cbn [orelse].
      rewrite Hbc, B. cbn [get_props]. right; left. exists v, (bump s). repeat split; auto.
    + rewrite (scope_none _ _ Ea). cbn [orelse assoc]. rewrite Hbg.
      destruct (assoc name g) as [x|] eqn:Eg; cbn [get_props].
      * right; left. exists x, (bump s). repeat split; auto.
      * right; right. exists (bump s). repeat split; auto.
Qed.

(* the condition of a conditional or a loop *)
Lemma eval_cond5 e : expr_f1 e = true -> forall fuel s R g, st5 s R g ->
  let r := evalf fuel (TkArgs false fi (envR R) [e]) s in
  r = RFuel \/
  (exists v s', r = ok [v] (envR R) s' /\ ev (R ++ g) e = Some v /\ simple v /\ st5 s' R g) \/
  (exists s', r = err EVarNotFound (envR R) s' /\ ev (R ++ g) e = None /\ st5 s' R g).
Proof.
  intros He fuel s R g Hs r.
  assert (Hgood : Forall expr_good5 [e]) by (apply Forall_cons; [apply expr_f1_good5, He | apply Forall_nil]).
  pose proof (eval_args5 _ Hgood fuel s R g Hs) as [E|[(vs & s1 & E & Hv & Hs1)|(s1 & E & Hv & Hs1)]].
  - left. exact E.
  - right; left. cbn [evs] in Hv. destruct (ev (R ++ g) e) as [x|] eqn:E1; [|discriminate]. injection Hv as <-.
    exists x, s1. split; [exact E|]. split; [reflexivity|]. split; [|exact Hs1].
    destruct Hs as (_ & _ & _ & Hsim). eapply ev_simple; eauto.
  - right; right. cbn [evs] in Hv. exists s1. destruct (ev (R ++ g) e); [discriminate|]. auto.
Qed.

Lemma simples_set_assoc l n v : simples l -> simple v -> simples (set_assoc n v l).
Proof. apply set_assoc_simple. Qed.

Lemma simples_app a b : simples (a ++ b) <-> simples a /\ simples b.
Proof. unfold simples. apply Forall_app. Qed.

(* ---- statements ---- *)
Definition top_res5 (r : res) (run : nat -> option (bool * lstore * gl)) : Prop :=
  r = RFuel \/
  (exists n s' R' g', r = ok [] (envR R') s' /\ run n = Some (true, R', g') /\ st5 s' R' g') \/
  (exists n s' e' R' g', r = err EVarNotFound e' s' /\ run n = Some (false, R', g') /\ st5 s' R' g').

Definition all5 (fuel : nat) : Prop :=
  (forall c s R g, stmtR c = true -> st5 s R g ->
     top_res5 (evalf fuel (TkCard fi (envR R) c) s) (fun n => run5 n R g c)) /\
  (forall cs s R g, forallb stmtR cs = true -> st5 s R g ->
     top_res5 (evalf fuel (TkSeq fi (envR R) cs) s) (fun n => runs5 n R g cs)) /\
  (forall e b s R g, expr_f1 e = true -> stmtR b = true -> st5 s R g ->
     top_res5 (evalf fuel (TkWhile fi (envR R) e b) s) (fun n => run5 n R g (CBin BWhile e b))).

Lemma st5_simple_parts s R g : st5 s R g -> simples R /\ simples g.
Proof. intros (_ & _ & _ & H). apply simples_app, H. Qed.

Lemma eval5 fuel : all5 fuel.
Proof.
  induction fuel as [|f (IH1 & IH2 & IH3)].
  { split; [|split]; intros; left; reflexivity. }
  split; [|split].
  - (* a statement *)
    intros c st R g Hc Hs. unfold top_res5.
    destruct c; cbn [stmtR] in Hc; try discriminate Hc.
    + (* CBin *)
      destruct op; try discriminate Hc; apply andb_true_iff in Hc; destruct Hc as [He Hb];
        cbn [eval]; unfold F; (destruct (limit <? st_steps st)%N; [left; reflexivity|]);
        pose proof (st5_bump _ _ _ Hs) as Hbs; cbn [eval_card].
      * (* IfTrue *)
        pose proof (eval_cond5 _ He f (bump st) R g Hbs) as [E|[(v & s1 & E & Hv & Hsv & Hs1)|(s1 & E & Hv & Hs1)]];
          cbn zeta in E; rewrite E; cbn [bnd ok err one].
        -- left; reflexivity.
        -- rewrite (v_bool_simple _ _ Hsv). destruct (v_bool [] v) eqn:Eb.
           ++ destruct (IH1 c2 s1 R g Hb Hs1) as [E2|[(n & s2 & R2 & g2 & E2 & Hr & Hs2)|(n & s2 & e2 & R2 & g2 & E2 & Hr & Hs2)]]; rewrite E2.
              ** left; reflexivity.
              ** right; left. exists (S n), s2, R2, g2. cbn [run5]. rewrite Hv, Eb. auto.
              ** right; right. exists (S n), s2, e2, R2, g2. cbn [run5]. rewrite Hv, Eb. auto.
           ++ right; left. exists 1%nat, s1, R, g. cbn [run5]. rewrite Hv, Eb. auto.
        -- right; right. exists 1%nat, s1, (envR R), R, g. cbn [run5]. rewrite Hv. auto.
      * (* IfFalse *)
        pose proof (eval_cond5 _ He f (bump st) R g Hbs) as [E|[(v & s1 & E & Hv & Hsv & Hs1)|(s1 & E & Hv & Hs1)]];
          cbn zeta in E; rewrite E; cbn [bnd ok err one].
        -- left; reflexivity.
        -- rewrite (v_bool_simple _ _ Hsv). destruct (v_bool [] v) eqn:Eb.
           ++ right; left. exists 1%nat, s1, R, g. cbn [run5]. rewrite Hv, Eb. auto.
           ++ destruct (IH1 c2 s1 R g Hb Hs1) as [E2|[(n & s2 & R2 & g2 & E2 & Hr & Hs2)|(n & s2 & e2 & R2 & g2 & E2 & Hr & Hs2)]]; rewrite E2.
              ** left; reflexivity.
              ** right; left. exists (S n), s2, R2, g2. cbn [run5]. rewrite Hv, Eb. auto.
              ** right; right. exists (S n), s2, e2, R2, g2. cbn [run5]. rewrite Hv, Eb. auto.
        -- right; right. exists 1%nat, s1, (envR R), R, g. cbn [run5]. rewrite Hv. auto.
      * (* While *)
        destruct (IH3 c1 c2 (bump st) R g He Hb Hbs) as [E|[(n & s2 & R2 & g2 & E2 & Hr & Hs2)|(n & s2 & e2 & R2 & g2 & E2 & Hr & Hs2)]].
        -- left; exact E.
        -- right; left. exists (S n), s2, R2, g2. split; [exact E2|]. split; [|exact Hs2]. eapply run5_mono; [exact Hr | lia].
        -- right; right. exists (S n), s2, e2, R2, g2. split; [exact E2|]. split; [|exact Hs2]. eapply run5_mono; [exact Hr | lia].
    + (* IfElse *)
      destruct op; try discriminate Hc. apply andb_true_iff in Hc. destruct Hc as [Hc Hb].
      apply andb_true_iff in Hc. destruct Hc as [He Ha].
      cbn [eval]; unfold F; (destruct (limit <? st_steps st)%N; [left; reflexivity|]).
      pose proof (st5_bump _ _ _ Hs) as Hbs; cbn [eval_card].
      pose proof (eval_cond5 _ He f (bump st) R g Hbs) as [E|[(v & s1 & E & Hv & Hsv & Hs1)|(s1 & E & Hv & Hs1)]];
        cbn zeta in E; rewrite E; cbn [bnd ok err one].
      * left; reflexivity.
      * rewrite (v_bool_simple _ _ Hsv). destruct (v_bool [] v) eqn:Eb.
        -- destruct (IH1 c2 s1 R g Ha Hs1) as [E2|[(n & s2 & R2 & g2 & E2 & Hr & Hs2)|(n & s2 & e2 & R2 & g2 & E2 & Hr & Hs2)]]; rewrite E2.
           ++ left; reflexivity.
           ++ right; left. exists (S n), s2, R2, g2. cbn [run5]. rewrite Hv, Eb. auto.
           ++ right; right. exists (S n), s2, e2, R2, g2. cbn [run5]. rewrite Hv, Eb. auto.
        -- destruct (IH1 c3 s1 R g Hb Hs1) as [E2|[(n & s2 & R2 & g2 & E2 & Hr & Hs2)|(n & s2 & e2 & R2 & g2 & E2 & Hr & Hs2)]]; rewrite E2.
           ++ left; reflexivity.
           ++ right; left. exists (S n), s2, R2, g2. cbn [run5]. rewrite Hv, Eb. auto.
           ++ right; right. exists (S n), s2, e2, R2, g2. cbn [run5]. rewrite Hv, Eb. auto.
      * right; right. exists 1%nat, s1, (envR R), R, g. cbn [run5]. rewrite Hv. auto.
    + (* Comment *)
      cbn [eval]; unfold F; (destruct (limit <? st_steps st)%N; [left; reflexivity|]). cbn [eval_card].
      right; left. exists 1%nat, (bump st), R, g. split; [reflexivity|]. split; [reflexivity | apply st5_bump, Hs].
    + (* SetGlobalVar *)
      apply andb_true_iff in Hc. destruct Hc as [Hne He]. apply negb_true_iff in Hne.
      assert (Hne' : is_empty name = false) by (destruct name; [discriminate Hne | reflexivity]).
      cbn [eval]; unfold F; (destruct (limit <? st_steps st)%N; [left; reflexivity|]).
      pose proof (st5_bump _ _ _ Hs) as Hbs; cbn [eval_card].
      pose proof (eval_cond5 _ He f (bump st) R g Hbs) as [E|[(v & s1 & E & Hv & Hsv & Hs1)|(s1 & E & Hv & Hs1)]];
        cbn zeta in E; rewrite E; cbn [bnd ok err one].
      * left; reflexivity.
      * rewrite Hne'. right; left. eexists 1%nat, _, R, _. split; [reflexivity|]. cbn [run5]. rewrite Hv.
        split; [reflexivity|]. destruct Hs1 as (Hh & Hg & Hcl & Hsim). apply simples_app in Hsim. destruct Hsim as [HsR Hsg].
        unfold st5. cbn [set_globals st_heap st_globals st_cells]. rewrite Hg. repeat split; auto.
        apply simples_app. split; [exact HsR | apply set_assoc_simple; assumption].
      * right; right. exists 1%nat, s1, (envR R), R, g. cbn [run5]. rewrite Hv. auto.
    + (* SetVar *)
      apply andb_true_iff in Hc. destruct Hc as [Hx He].
      unfold var_ok in Hx. apply andb_true_iff in Hx. destruct Hx as [Hne Hdot]. apply negb_true_iff in Hne, Hdot.
      assert (Hne' : is_empty name = false) by (destruct name; [discriminate Hne | reflexivity]).
      cbn [eval]; unfold F; (destruct (limit <? st_steps st)%N; [left; reflexivity|]).
      pose proof (st5_bump _ _ _ Hs) as Hbs; cbn [eval_card].
      pose proof (eval_cond5 _ He f (bump st) R g Hbs) as [E|[(v & s1 & E & Hv & Hsv & Hs1)|(s1 & E & Hv & Hs1)]];
        cbn zeta in E; rewrite E; cbn [bnd ok err one].
      * left; reflexivity.
      * rewrite (rsplit_no_dot _ Hdot), Hne'.
        destruct Hs1 as (Hh & Hg & Hcl & Hsim). apply simples_app in Hsim. destruct Hsim as [HsR Hsg].
        unfold lookup_var, envR. cbn [e_scopes e_up lookup_scopes orelse].
        destruct (assoc name R) as [old|] eqn:Ea.
        -- destruct (scope_some _ _ _ Ea) as (c0 & A & B & C). rewrite A. cbn [orelse].
           right; left. eexists 1%nat, _, (set_assoc name v R), g.
           split; [unfold envR; rewrite (proj2 (set_assoc_present _ v _ _ Ea)); reflexivity|]. cbn [run5]. rewrite Hv.
           unfold sets_local. rewrite lmem_assoc, Ea. split; [reflexivity|].
           unfold st5. cbn [set_cells st_heap st_globals st_cells]. rewrite Hcl, C. repeat split; auto.
           apply simples_app. split; [apply set_assoc_simple; assumption | exact Hsg].
        -- rewrite (scope_none _ _ Ea). cbn [orelse].
           unfold declare, alloc_cell. cbn [e_scopes e_up]. rewrite Hcl, cells_of_length.
           right; left. eexists 1%nat, _, ((name, v) :: R), g. split; [reflexivity|]. cbn [run5]. rewrite Hv.
           unfold sets_local. rewrite lmem_assoc, Ea. split; [reflexivity|].
           unfold st5. cbn [set_cells st_heap st_globals st_cells]. rewrite cells_cons. repeat split; auto.
           cbn [app]. constructor; [exact Hsv|]. apply simples_app. split; assumption.
      * right; right. exists 1%nat, s1, (envR R), R, g. cbn [run5]. rewrite Hv. auto.
    + (* Composite *)
      cbn [eval]; unfold F; (destruct (limit <? st_steps st)%N; [left; reflexivity|]).
      pose proof (st5_bump _ _ _ Hs) as Hbs; cbn [eval_card].
      destruct (IH2 cards (bump st) R g Hc Hbs) as [E|[(n & s2 & R2 & g2 & E2 & Hr & Hs2)|(n & s2 & e2 & R2 & g2 & E2 & Hr & Hs2)]].
      * left; exact E.
      * right; left. exists (S n), s2, R2, g2. rewrite run5_composite. auto.
      * right; right. exists (S n), s2, e2, R2, g2. rewrite run5_composite. auto.
  - (* a sequence *)
    intros cs st R g Hc Hs. unfold top_res5. cbn [eval]; unfold F.
    destruct (limit <? st_steps st)%N; [left; reflexivity|]. pose proof (st5_bump _ _ _ Hs) as Hbs.
    destruct cs as [|c r].
    + right; left. exists 0%nat, (bump st), R, g. cbn. auto.
    + cbn [forallb] in Hc. apply andb_true_iff in Hc. destruct Hc as [Hc Hr].
      destruct (IH1 c (bump st) R g Hc Hbs) as [E|[(n1 & s1 & R1 & g1 & E & Hr1 & Hs1)|(n1 & s1 & e1 & R1 & g1 & E & Hr1 & Hs1)]];
        rewrite E; cbn [bnd ok err].
      * left; reflexivity.
      * destruct (IH2 r s1 R1 g1 Hr Hs1) as [E2|[(n2 & s2 & R2 & g2 & E2 & Hr2 & Hs2)|(n2 & s2 & e2 & R2 & g2 & E2 & Hr2 & Hs2)]];
          rewrite E2; cbn [bnd ok err app].
        -- left; reflexivity.
        -- right; left. exists (Nat.max n1 n2), s2, R2, g2. split; [reflexivity|]. split; [|exact Hs2].
           cbn [runs5]. rewrite (run5_mono _ (Nat.max n1 n2) _ _ _ _ Hr1) by lia.
           eapply runs5_mono; [exact Hr2 | lia].
        -- right; right. exists (Nat.max n1 n2), s2, e2, R2, g2. split; [reflexivity|]. split; [|exact Hs2].
           cbn [runs5]. rewrite (run5_mono _ (Nat.max n1 n2) _ _ _ _ Hr1) by lia.
           eapply runs5_mono; [exact Hr2 | lia].
      * right; right. exists n1, s1, e1, R1, g1. split; [reflexivity|]. split; [|exact Hs1]. cbn [runs5]. rewrite Hr1. reflexivity.
  - (* a loop *)
    intros e b st R g He Hb Hs. unfold top_res5. cbn [eval]; unfold F.
    destruct (limit <? st_steps st)%N; [left; reflexivity|]. pose proof (st5_bump _ _ _ Hs) as Hbs.
    pose proof (eval_cond5 _ He f (bump st) R g Hbs) as [E|[(v & s1 & E & Hv & Hsv & Hs1)|(s1 & E & Hv & Hs1)]];
      cbn zeta in E; rewrite E; cbn [bnd ok err one].
    + left; reflexivity.
    + rewrite (v_bool_simple _ _ Hsv). destruct (v_bool [] v) eqn:Eb.
      * destruct (IH1 b s1 R g Hb Hs1) as [E2|[(n1 & s2 & R2 & g2 & E2 & Hr1 & Hs2)|(n1 & s2 & e2 & R2 & g2 & E2 & Hr1 & Hs2)]];
          rewrite E2; cbn [bnd ok err].
        -- left; reflexivity.
        -- destruct (IH3 e b s2 R2 g2 He Hb Hs2) as [E3|[(n2 & s3 & R3 & g3 & E3 & Hr2 & Hs3)|(n2 & s3 & e3 & R3 & g3 & E3 & Hr2 & Hs3)]]; rewrite E3.
           ++ left; reflexivity.
           ++ right; left. exists (S (Nat.max n1 n2)), s3, R3, g3. split; [reflexivity|]. split; [|exact Hs3].
              cbn [run5]. rewrite Hv, Eb. rewrite (run5_mono _ (Nat.max n1 n2) _ _ _ _ Hr1) by lia.
              eapply run5_mono; [exact Hr2 | lia].
           ++ right; right. exists (S (Nat.max n1 n2)), s3, e3, R3, g3. split; [reflexivity|]. split; [|exact Hs3].
              cbn [run5]. rewrite Hv, Eb. rewrite (run5_mono _ (Nat.max n1 n2) _ _ _ _ Hr1) by lia.
              eapply run5_mono; [exact Hr2 | lia].
        -- right; right. exists (S n1), s2, e2, R2, g2. split; [reflexivity|]. split; [|exact Hs2].
           cbn [run5]. rewrite Hv, Eb, Hr1. reflexivity.
      * right; left. exists 1%nat, s1, R, g. cbn [run5]. rewrite Hv, Eb. auto.
    + right; right. exists 1%nat, s1, (envR R), R, g. cbn [run5]. rewrite Hv. auto.
Qed.
End Eval.

Theorem eval_program_f5 fuel M host o :
  in_f5 M = true -> eval_program fuel M host = PObs o ->
  exists n R g, runs5 n [] [] (main_cards M) = Some (match ob_kind o with KOk => true | _ => false end, R, g) /\
                (ob_kind o = KOk \/ ob_kind o = KErr EVarNotFound) /\
                simples R /\ simples g /\
                ob_globals o = map (fun nv => (fst nv, vm_tree (to_vm (snd nv)))) g.
Proof.
  intros HM. destruct M as [subs funs imps]. cbn [in_f5] in HM.
  destruct subs; [|discriminate]. destruct funs as [|[name f] [|]]; try discriminate.
  destruct imps; [|discriminate].
  apply andb_true_iff in HM. destruct HM as [HM Hcards]. apply andb_true_iff in HM. destruct HM as [Hname _].
  apply str_eqb_main in Hname. subst name. apply cards5_R in Hcards.
  destruct flatten_std_some as [stdl Hstd].
  unfold eval_program, program_of, add_std. cbn [app].
  change 64%nat with (S 63). rewrite (flatten_f1 63 f stdl Hstd).
  cbn [find_index fe_name]. change (str_eqb s_main s_main) with true. cbv iota.
  cbn [nth_error fe_fn main_cards].
  set (P := _ :: stdl).
  intros H.
  assert (Hgs : st5 init_state [] []) by (repeat split; constructor).
  destruct (eval5 P host (step_limit fuel) 0 fuel) as (_ & H2 & _).
  change {| e_scopes := [[]]; e_up := [] |} with (envR []) in H.
  pose proof (H2 _ _ _ _ Hcards Hgs) as [E|[(n & s1 & R1 & g1 & E & Hrun & Hs1)|(n & s1 & e1 & R1 & g1 & E & Hrun & Hs1)]];
    rewrite E in H; cbn [ok err] in H; try discriminate H.
  - injection H as <-. exists n, R1, g1. cbn [ob_kind ob_globals observe].
    destruct Hs1 as (Hh & Hg & _ & Hsim). apply simples_app in Hsim. destruct Hsim as [HsR Hsg].
    repeat split; auto. rewrite Hh, Hg. apply map_ext_in. intros [x v] Hin.
    unfold simples in Hsg. rewrite Forall_forall in Hsg. pose proof (Hsg _ Hin) as Hv. cbn [snd] in Hv.
    destruct v; try contradiction; reflexivity.
  - injection H as <-. exists n, R1, g1. cbn [ob_kind ob_globals observe].
    destruct Hs1 as (Hh & Hg & _ & Hsim). apply simples_app in Hsim. destruct Hsim as [HsR Hsg].
    repeat split; auto. rewrite Hh, Hg. apply map_ext_in. intros [x v] Hin.
    unfold simples in Hsg. rewrite Forall_forall in Hsg. pose proof (Hsg _ Hin) as Hv. cbn [snd] in Hv.
    destruct v; try contradiction; reflexivity.
Qed.
