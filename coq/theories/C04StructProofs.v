(* C04, the structural check chk_return of the checked VM (C04VmChecked.v) in a top-level run.

   Return with ONE call frame (the frame of `run`: a Return card at main's own level) never continues the run:
   the instruction yields an error value (BadReturn "Failed to find return address", or the error of closing the
   upvalues) - or, as far as the shape of the instruction goes, a stop inside close_upvalues, which
   C04VmProofs7.step_no_abort_strict excludes under step_pre3.  So in a top-level run the check chk_return
   protects nothing: the VM needs it only for the contract of NESTED runs (the state of the error has an empty
   call stack). *)
From Coq Require Import NArith ZArith List Lia Bool.
From Cao Require Import ListUtil Bits Stacks Vm VmProofs C04VmProofs C04VmProofs2 C04VmProofs3 C04VmProofs4
  C04VmProofs5 C04VmProofs6 C04VmProofs6b C04VmProofs7.
Import ListNotations.

Lemma return_one_frame_shape F bld P reenter ip0 s :
  opcode_at P ip0 = 22%N -> length (st_calls s) <= 1 ->
  match step F bld P reenter ip0 s with
  | SNext _ _ | SExit _ => False
  | SErr _ _ _ | SStop _ _ => True
  end.
Proof.
  intros Hop Hlen. unfold step. cbv zeta. unfold opcode_at in Hop. rewrite Hop. cbv iota.
  unfold i_22. destruct (st_calls s) as [|fr [|fr2 rest]].
  - exact I.
  - destruct (close_upvalues_from _ _) as [s2|e s2|a s2]; exact I.
  - cbn [length] in Hlen; lia.
Qed.

Theorem return_one_frame_is_error : forall F bld P reenter start,
  code_ok P start -> reenter_ok P reenter start (fun _ => False) ->
  forall ip0 s, step_pre3 F bld P start ip0 s ->
    opcode_at P ip0 = 22%N -> length (st_calls s) <= 1 ->
    exists e ip' s', step F bld P reenter ip0 s = SErr e ip' s'.
Proof.
  intros F bld P reenter start Hc Hre ip0 s Hpre Hop Hlen.
  pose proof (return_one_frame_shape F bld P reenter ip0 s Hop Hlen) as Hs.
  pose proof (step_no_abort_strict F bld P reenter start Hc Hre ip0 s Hpre) as Hn.
  destruct (step F bld P reenter ip0 s) as [ip' s'|s'|e ip' s'|a s']; try contradiction.
  - eexists _, _, _. reflexivity.
  - exfalso. exact (Hn a s' eq_refl).
Qed.
