(* C06, refinement between the two halves: the REPRESENTATION RELATION between the cells of the reference
   semantics (RefSem.st_cells: a variable is a cell, a closure record keeps name -> cell scopes) and the VM's
   stack slots / upvalue objects.  Executable or plain definitions only; proofs in C06SimVm.v (VM side) and
   C06SimComp.v (compiler side).

   - a cell lives either in a stack slot ([LSlot i]: the scope that declared the variable is still alive; an
     open upvalue object that points at slot i denotes the same cell) or in a closed upvalue object
     ([LUp a]: the scope has ended - CloseUpvalue / Return copied the value into the object);
   - [R : nat -> option place] maps the cells that are still reachable to their place ([None]: a cell no live
     scope and no closure refers to);
   - [K : nat -> option N] maps the closure records of the reference store to the VM's closure objects;
   - values of the fragment: nil, integers, closure values. *)
From Coq Require Import List NArith ZArith Bool.
From Cao Require Import ListUtil Bits Stacks Vm.
From Cao Require RefSem.
Import ListNotations.

Inductive place := LSlot (i : nat) | LUp (a : N).

Definition cellmap := nat -> option place.
Definition clomap := nat -> option N.

Inductive vrel (K : clomap) : RefSem.value -> value -> Prop :=
| vr_nil : vrel K RefSem.VNil VNil
| vr_int z : vrel K (RefSem.VInt z) (VInt z)
| vr_clo c a : K c = Some a -> vrel K (RefSem.VClosure c) (VObj a).

(* the place [l] of state [vm] holds (the VM image of) the reference value [v] *)
Definition place_holds (K : clomap) (vm : state) (l : place) (v : RefSem.value) : Prop :=
  match l with
  | LSlot i => vrel K v (sraw_get vm i)
  | LUp a => exists w nx, hget (st_heap vm) a = Some (OUp (mkUp None w nx)) /\ vrel K v w
  end.

(* [rep K R top cells vm]: every mapped cell exists in the reference store and its place holds its value;
   two cells never share a place; the slots that hold cells are the live slots below [top], and [top] is at
   most the height of the value stack (above [top]: temporaries) *)
Record rep (K : clomap) (R : cellmap) (top : nat) (cells : list RefSem.value) (vm : state) : Prop := mkRep {
  rep_cell : forall c l, R c = Some l -> exists v, nth_error cells c = Some v /\ place_holds K vm l v;
  rep_inj : forall c c' l, R c = Some l -> R c' = Some l -> c = c';
  rep_top : forall c i, R c = Some (LSlot i) -> i < top;
  rep_room : top <= scount vm
}.

(* the cell an upvalue object denotes: the cell of the slot it points at while it is open, the cell that was
   moved into the object once it is closed *)
Definition up_place (ua : N) (u : upval) : place :=
  match u_loc u with Some i => LSlot i | None => LUp ua end.
Definition up_cell (R : cellmap) (vm : state) (ua : N) (c : nat) : Prop :=
  exists u, hget (st_heap vm) ua = Some (OUp u) /\ R c = Some (up_place ua u).

(* a closure record of the reference store and the VM object that stands for it: the label is the one the
   compiler gave the closure card, the arity is the number of parameters, and the k-th upvalue address of the
   object denotes the cell that the k-th captured name [names] designates in the record's scopes
   (capture_designates).  [names] is the compile-time upvalue list of the closure (Compiler.cs_upvalues). *)
Definition clo_rep (R : cellmap) (vm : state) (cl : RefSem.closure_rec) (a : N) (label : N) (names : list (list N)) : Prop :=
  exists ups, hget (st_heap vm) a = Some (OClo label (N.of_nat (length (RefSem.cl_params cl))) ups) /\
    Forall2 (fun x ua => exists c, RefSem.lookup_scopes x (RefSem.cl_up cl) = Some c /\ up_cell R vm ua c) names ups.

(* the map after CloseUpvalue / Return closed the open upvalues of the slots >= newtop: a cell in such a slot
   moves into the upvalue object that pointed at the slot, or becomes unreachable if there was none *)
Fixpoint addr_of_slot (l : list (N * nat)) (i : nat) : option N :=
  match l with
  | [] => None
  | (a, k) :: r => if Nat.eqb k i then Some a else addr_of_slot r i
  end.
Definition close_map (newtop : nat) (l : list (N * nat)) (R : cellmap) : cellmap :=
  fun c => match R c with
           | Some (LSlot i) => if Nat.ltb i newtop then Some (LSlot i)
                               else match addr_of_slot l i with Some a => Some (LUp a) | None => None end
           | x => x
           end.

(* the map after a declaration: the new cell lives in slot [i] *)
Definition decl_map (R : cellmap) (c : nat) (i : nat) : cellmap :=
  fun c' => if Nat.eqb c' c then Some (LSlot i) else R c'.
